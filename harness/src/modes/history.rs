//! Implementation runner for the `history` area (C11): one `Command` value is driven through a
//! history of by-reference calls (`try_get_matches_from_mut`, `build`, `render_help`,
//! `render_long_help`, `render_usage`, clone-and-replace), then parses the final argv; the same
//! argv is parsed on a fresh definition, on a clone of a fresh one and on a fresh one after
//! `build()`.
//!
//! `(hist (cmd ...) (ops (parse x.. ...) (build) (help) (longhelp) (usage) (clone) ...) (argv x.. ...))`
//!
//! prints
//!   `steps (<op> <observation> <state>)... final (reused <r>) (fresh <r>) (cloned <r>) (built <r>)`
//! where an observation of a parse is the canonical parse result of the `parse` mode, `<r>` is
//! that result followed by `msg <hex of the rendered message>` for errors, and `<state>` is the
//! observable state of the whole tree: `(n <name> <bin_name|-> <display_name|-> (<arg ids>) <subs>...)`.
use crate::hex;
use crate::modes::parse::{build_cmd_with, kind_name, show_matches, show_result, EnvGuard};
use crate::sexp::Sx;
use clap::{ArgMatches, Command};
use std::ffi::OsString;
use std::os::unix::ffi::OsStringExt;
use std::panic::{catch_unwind, AssertUnwindSafe};

/// `parse::build_cmd` plus the extension item `(x-flatten-help)` (Command::flatten_help: rendering only)
fn build_cmd(items: &[Sx], env: &mut EnvGuard) -> Command {
    build_cmd_with(items, env, &|a, _| a, &|c, its| {
        if its.iter().any(|it| it.head() == "x-flatten-help") {
            c.flatten_help(true)
        } else {
            c
        }
    })
}

fn os(x: &Sx) -> OsString {
    OsString::from_vec(x.bytes())
}

fn opt_hex(s: Option<&str>) -> String {
    match s {
        Some(s) => hex(s.as_bytes()),
        None => "-".into(),
    }
}

/// the observable state of the tree as it is right now (nothing is built by looking)
pub fn show_state(c: &Command) -> String {
    let ids: Vec<String> = c.get_arguments().map(|a| hex(a.get_id().as_str().as_bytes())).collect();
    let mut out = format!(
        "(n {} {} {} ({})",
        hex(c.get_name().as_bytes()),
        opt_hex(c.get_bin_name()),
        opt_hex(c.get_display_name()),
        ids.join(" ")
    );
    for s in c.get_subcommands() {
        out.push(' ');
        out.push_str(&show_state(s));
    }
    out.push(')');
    out
}

/// result of a final parse: canonical matches, or kind/stream/code/help head plus the rendered message
fn show_final(r: Result<ArgMatches, clap::Error>) -> String {
    match r {
        Ok(m) => format!("ok {}", show_matches(&m)),
        Err(e) => {
            let rendered = e.render().to_string();
            let k = e.kind();
            let stream = if e.use_stderr() { "stderr" } else { "stdout" };
            // the first line of a help screen identifies the level (as in the `parse` mode)
            let head = match k {
                clap::error::ErrorKind::DisplayHelp | clap::error::ErrorKind::DisplayHelpOnMissingArgumentOrSubcommand => {
                    format!(" {}", hex(rendered.lines().next().unwrap_or("").as_bytes()))
                }
                _ => String::new(),
            };
            format!("err {} {} {}{} msg {}", kind_name(k), stream, e.exit_code(), head, hex(rendered.as_bytes()))
        }
    }
}

fn panic_msg(p: Box<dyn std::any::Any + Send>) -> String {
    let m = p.downcast_ref::<String>().cloned().or_else(|| p.downcast_ref::<&str>().map(|s| s.to_string())).unwrap_or_default();
    m.replace(['\n', '\t', '(', ')'], " ")
}

/// one by-reference call under `catch_unwind`: a panic is the observation `PANIC`
fn guarded<F: FnOnce() -> String>(f: F) -> String {
    match catch_unwind(AssertUnwindSafe(f)) {
        Ok(s) => s,
        Err(_) => "PANIC".to_string(),
    }
}

fn apply_op(cur: &mut Command, op: &Sx, root_built: bool) -> String {
    match op.head() {
        "parse" => {
            let av: Vec<OsString> = op.args().iter().map(os).collect();
            show_result(cur.try_get_matches_from_mut(av))
        }
        "build" => {
            cur.build();
            "unit".to_string()
        }
        "help" => format!("r {}", hex(cur.render_help().to_string().as_bytes())),
        "longhelp" => format!("r {}", hex(cur.render_long_help().to_string().as_bytes())),
        "usage" => format!("r {}", hex(cur.render_usage().to_string().as_bytes())),
        "clone" => {
            *cur = cur.clone();
            "unit".to_string()
        }
        // what `did_you_mean_flag` does to the level that rejected an unknown long flag:
        // `_build_self(false)` on each of its subcommands (reached here through the public
        // `render_usage`); only levels the parser has been to (root built / bin name set)
        "sugg" => {
            let mut node = Some(cur);
            let mut ok = root_built;
            for n in op.args() {
                if !ok {
                    break;
                }
                let name = String::from_utf8(n.bytes()).unwrap();
                node = node.and_then(|c| c.get_subcommands_mut().find(|s| s.get_name() == name));
                ok = node.as_ref().map(|c| c.get_bin_name().is_some()).unwrap_or(false);
            }
            if ok {
                if let Some(c) = node {
                    for s in c.get_subcommands_mut() {
                        let _ = s.render_usage();
                    }
                }
            }
            "unit".to_string()
        }
        x => panic!("hist op {x}"),
    }
}

fn hist(a: &[Sx]) -> String {
    let mut env = EnvGuard(vec![]);
    let spec = a[0].args();
    let fresh = match catch_unwind(AssertUnwindSafe(|| {
        let c = build_cmd(spec, &mut env);
        let mut probe = c.clone();
        probe.build();
        c
    })) {
        Ok(c) => c,
        Err(p) => return format!("INVALID {}", panic_msg(p)),
    };
    let argv: Vec<OsString> = a[2].args().iter().map(os).collect();

    let mut cur = fresh.clone();
    let mut out = String::from("steps");
    // the root is built by every by-reference call
    let mut root_built = false;
    let mut history_panicked = false;
    for op in a[1].args() {
        if !matches!(op.head(), "clone" | "sugg") {
            root_built = true;
        }
        let obs = guarded(|| apply_op(&mut cur, op, root_built));
        if obs == "PANIC" {
            // the same call on a fresh definition: does it panic there too?
            let mut f = fresh.clone();
            let fresh_obs = guarded(|| apply_op(&mut f, op, false));
            let fresh_kind = if fresh_obs == "PANIC" { "PANIC" } else { "fine" };
            out.push_str(&format!(" ({} (PANIC {}) (n x - - ()))", op.head(), fresh_kind));
            history_panicked = true;
            break;
        }
        out.push_str(&format!(" ({} ({}) {})", op.head(), obs, show_state(&cur)));
    }
    if history_panicked {
        // the state after a panic is unspecified: no final parse on it
        cur = fresh.clone();
    }
    let reused = guarded(|| show_final(cur.try_get_matches_from_mut(argv.clone())));
    let end_state = show_state(&cur);
    let mut f = fresh.clone();
    let fresh_r = guarded(|| show_final(f.try_get_matches_from_mut(argv.clone())));
    let fresh_state = show_state(&f);
    // a definition built again from the spec (not a clone of anything)
    let mut f2 = build_cmd(spec, &mut env);
    let fresh2_r = guarded(|| show_final(f2.try_get_matches_from_mut(argv.clone())));
    let mut cl = fresh.clone().clone();
    let cloned_r = guarded(|| show_final(cl.try_get_matches_from_mut(argv.clone())));
    let mut b = fresh.clone();
    let built_r = guarded(|| {
        b.build();
        show_final(b.try_get_matches_from_mut(argv.clone()))
    });
    // by-value entry point on a fresh definition
    let byval_r = guarded(|| show_final(fresh.clone().try_get_matches_from(argv)));
    format!(
        "{out} final (reused {reused}) (fresh {fresh_r}) (fresh2 {fresh2_r}) (cloned {cloned_r}) (built {built_r}) (byval {byval_r}) (end {end_state}) (freshend {fresh_state})"
    )
}

/// `(build2 (cmd ...))`: `build()` twice; the observable state after the first and the second call
/// and the help rendered after each
fn build2(a: &[Sx]) -> String {
    let mut env = EnvGuard(vec![]);
    let spec = a[0].args();
    let mut c = match catch_unwind(AssertUnwindSafe(|| {
        let c = build_cmd(spec, &mut env);
        let mut probe = c.clone();
        probe.build();
        c
    })) {
        Ok(c) => c,
        Err(_) => return "INVALID".into(),
    };
    c.build();
    let s1 = show_state(&c);
    let h1 = guarded(|| hex(c.clone().render_long_help().to_string().as_bytes()));
    // the second call under its own guard: a panic here is a panic of the re-entered build only
    let second = guarded(|| {
        c.build();
        let s2 = show_state(&c);
        let h2 = hex(c.clone().render_long_help().to_string().as_bytes());
        format!("{s2} {h2}")
    });
    format!("(first {s1} {h1}) (second {second})")
}

/// Returns `Some(result)` when `head` is a mode of this area.
pub fn dispatch(head: &str, args: &[Sx]) -> Option<String> {
    match head {
        "hist" => Some(hist(args)),
        "build2" => Some(build2(args)),
        _ => None,
    }
}
