pub mod lex;
pub mod parse;
