pub mod lex;
pub mod parse;
pub mod value;
pub mod wrap;
