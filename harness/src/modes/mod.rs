pub mod lex;
pub mod wrap;
