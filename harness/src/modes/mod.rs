pub mod lex;
pub mod value;
