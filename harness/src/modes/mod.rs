pub mod lex;
pub mod parse;
pub mod value;
