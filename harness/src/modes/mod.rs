pub mod lex;
