//! Implementation runner for the `help` area (C12): build the real `clap::Command` from the case's
//! command spec (standard items + `x-` extension items), render short help / long help / usage /
//! the DisplayHelp error of `-h`, `--help`, `help <path>` at a fixed terminal width, and print a
//! canonical projection of the rendered text (parsed here from the text alone) plus the raw text.
//!
//! `(help (cmd ...) (width N) (which short|long|usage|(flag-h p..)|(flag-help p..)|(sub-help p..)))`
//! `(helpf32 TAKEN_MAX W_MAX)`  -- sweep of the f32 comparison of `arg_next_line_help`
use crate::hex;
use crate::modes::parse::{build_arg, build_cmd_with, EnvGuard};
use crate::sexp::Sx;
use clap::builder::PossibleValue;
use clap::error::ErrorKind;
use clap::{Arg, Command};
use std::panic::{catch_unwind, AssertUnwindSafe};

/// Returns `Some(result)` when `head` is a mode of this area.
pub fn dispatch(head: &str, args: &[Sx]) -> Option<String> {
    match head {
        "help" => Some(help(args)),
        "helpf32" => Some(f32sweep(args)),
        _ => None,
    }
}

fn arg_ext(mut a: Arg, items: &[Sx]) -> Arg {
    let mut pvs: Vec<PossibleValue> = vec![];
    let mut names: Vec<String> = vec![];
    for it in &items[1..] {
        let l = it.args();
        a = match it.head() {
            "x-help" => a.help(l[0].string()),
            "x-long-help" => a.long_help(l[0].string()),
            "x-heading" => a.help_heading(l[0].string()),
            "x-hide" => a.hide(true),
            "x-hide-short" => a.hide_short_help(true),
            "x-hide-long" => a.hide_long_help(true),
            "x-hide-pv" => a.hide_possible_values(true),
            "x-hide-env" => a.hide_env(true),
            "x-hide-env-values" => a.hide_env_values(true),
            "x-hide-default" => a.hide_default_value(true),
            "x-next-line" => a.next_line_help(true),
            "x-order" => a.display_order(l[0].num() as usize),
            "x-valname" => {
                names.extend(l.iter().map(|x| x.string()));
                a
            }
            "x-pv" => {
                let mut pv = PossibleValue::new(l[0].string());
                for e in &l[1..] {
                    match e {
                        Sx::Sym(s) if s == "hide" => pv = pv.hide(true),
                        Sx::Bytes(_) => pv = pv.help(e.string()),
                        _ => panic!("x-pv item"),
                    }
                }
                pvs.push(pv);
                a
            }
            _ => a,
        };
    }
    if !names.is_empty() {
        a = a.value_names(names);
    }
    if !pvs.is_empty() {
        a = a.value_parser(clap::builder::PossibleValuesParser::new(pvs));
    }
    a
}

fn cmd_ext(mut c: Command, items: &[Sx]) -> Command {
    for it in &items[1..] {
        let l = it.args();
        c = match it.head() {
            "x-next-line" => c.next_line_help(true),
            "x-order" => c.display_order(l[0].num() as usize),
            "x-hide-pv" => c.hide_possible_values(true),
            "x-sub-heading" => c.subcommand_help_heading(l[0].string()),
            "x-sub-valname" => c.subcommand_value_name(l[0].string()),
            "x-template" => c.help_template(l[0].string()),
            "x-flatten-help" => c.flatten_help(true),
            _ => c,
        };
    }
    // a fixed trailer keeps the trailing padding of the last row from being trimmed away
    c.after_help("zz")
}

/// The command of a help case.  Items are applied in the order of the spec, so that a `(x-next-heading H)` /
/// `(x-next-heading)` marker between two `(arg ..)` items is a call of `Command::next_help_heading` between the
/// two `Command::arg` calls (at every level).  Everything that is not an arg, a subcommand or a marker goes
/// through the standard builder first (none of it reads or advances the builder's running state).
fn build_help_cmd(items: &[Sx], env: &mut EnvGuard) -> Command {
    let ordered = |h: &str| h == "arg" || h == "sub" || h == "x-next-heading";
    let mut base: Vec<Sx> = vec![items[0].clone()];
    base.extend(items[1..].iter().filter(|it| !ordered(it.head())).cloned());
    let mut c = build_cmd_with(&base, env, &arg_ext, &|c, _| c);
    for it in &items[1..] {
        let l = it.args();
        c = match it.head() {
            "arg" => c.arg(arg_ext(build_arg(l, env), l)),
            "sub" => c.subcommand(build_help_cmd(l[0].args(), env)),
            "x-next-heading" => match l.first() {
                Some(h) => c.next_help_heading(h.string()),
                None => c.next_help_heading(None::<&'static str>),
            },
            _ => c,
        };
    }
    cmd_ext(c, items)
}

fn toks(l: &[&str]) -> String {
    l.iter().map(|t| hex(t.as_bytes())).collect::<Vec<_>>().join(" ")
}

/// first whitespace-delimited token of a row, without a trailing comma
fn row_key(line: &str) -> String {
    let t = line.trim_start();
    let k = t.split(' ').next().unwrap_or("");
    k.trim_end_matches(',').to_string()
}

fn leading_spaces(line: &str) -> usize {
    line.len() - line.trim_start_matches(' ').len()
}

/// column (in chars) of the help text on a row line: the first non-space character after the first
/// run of >= 2 spaces that follows the left column; the line length when nothing follows the run;
/// `None` when the left column runs to the end of the line (help is on the next line).
fn help_col(line: &str) -> Option<usize> {
    let ch: Vec<char> = line.chars().collect();
    let mut i = 0;
    while i < ch.len() && ch[i] == ' ' {
        i += 1;
    }
    while i < ch.len() {
        if ch[i] == ' ' {
            let mut j = i;
            while j < ch.len() && ch[j] == ' ' {
                j += 1;
            }
            if j - i >= 2 || j == ch.len() {
                return Some(j);
            }
            i = j;
        } else {
            i += 1;
        }
    }
    None
}

fn is_row_line(line: &str) -> bool {
    let n = leading_spaces(line);
    let rest = &line[n..];
    !rest.is_empty() && (n == 2 || (n == 6 && rest.starts_with("--")))
}

/// possible values listed in the text block of one row
fn block_pvs(block: &[&str]) -> Vec<String> {
    let mut out = vec![];
    // long form: one `- name[: help]` line per value under `Possible values:`
    for l in block {
        let t = l.trim_start();
        if let Some(r) = t.strip_prefix("- ") {
            let name = r.split([':', ' ']).next().unwrap_or("");
            out.push(name.to_string());
        }
    }
    // short form: `[possible values: a, b]`, possibly wrapped over several lines
    let joined = block.iter().map(|l| l.trim()).collect::<Vec<_>>().join(" ");
    if let Some(p) = joined.find("[possible values:") {
        let rest = &joined[p + "[possible values:".len()..];
        let end = rest.find(']').unwrap_or(rest.len());
        for n in rest[..end].split(',') {
            let n = n.trim();
            if !n.is_empty() {
                out.push(n.to_string());
            }
        }
    }
    out
}

/// the `spec_vals` part of one row's text block (`[env: ..] [default: ..] [aliases: ..] [short aliases: ..]
/// [possible values: ..]`), as whitespace-delimited tokens: from the first token that opens one of the
/// groups to the end of the text, without the long-form list (`Possible values:` and what follows it).
/// Wrapping only replaces spaces by line breaks, so the token sequence does not depend on the width.
fn block_spec(block: &[&str]) -> Vec<String> {
    let t: Vec<&str> = block.iter().flat_map(|l| l.split_whitespace()).collect();
    let opens = |i: usize| -> bool {
        let nxt = t.get(i + 1).copied().unwrap_or("");
        match t[i] {
            "[env:" | "[default:" | "[aliases:" => true,
            "[short" => nxt == "aliases:",
            "[possible" => nxt == "values:",
            _ => false,
        }
    };
    let Some(start) = (0..t.len()).find(|&i| opens(i)) else {
        return vec![];
    };
    let mut end = t.len();
    for i in start..t.len() {
        if t[i] == "Possible" && t.get(i + 1).copied() == Some("values:") {
            end = i;
            break;
        }
    }
    t[start..end].iter().map(|x| x.to_string()).collect()
}

/// canonical projection of a rendered help screen
fn project_help(text: &str) -> String {
    project_help_mode(text, false)
}

/// `flat` (a case with `(x-flatten-help)` somewhere in its tree): the usage block is printed as its exact text
/// (`(usagetext HEX)`, from `Usage:` to the blank line that ends the block), and every section carries the first
/// word of the about that `write_flat_subcommands` writes under its heading (`none` when there is none).
fn project_help_mode(text: &str, flat: bool) -> String {
    let lines: Vec<&str> = text.split('\n').collect();
    let mut out = String::new();
    let ui = lines.iter().position(|l| l.starts_with("Usage:"));
    let about = lines[..ui.unwrap_or(0)].iter().find(|l| !l.trim().is_empty());
    match about {
        Some(a) => out.push_str(&format!("(about {})", hex(a.split_whitespace().next().unwrap_or("").as_bytes()))),
        None => out.push_str("(about none)"),
    }
    let Some(ui) = ui else {
        return out + " (nousage)";
    };
    let mut i = ui;
    let mut utoks: Vec<&str> = vec![];
    while i < lines.len() && !lines[i].trim().is_empty() {
        utoks.extend(lines[i].split_whitespace());
        i += 1;
    }
    if flat {
        out.push_str(&format!(" (usagetext {})", hex(lines[ui..i].join("\n").as_bytes())));
    } else {
        out.push_str(&format!(" (usage {})", toks(&utoks[1..])));
    }
    // sections
    while i < lines.len() {
        let l = lines[i];
        if l.trim().is_empty() {
            i += 1;
            continue;
        }
        if l.starts_with(' ') || !l.ends_with(':') {
            break; // after-help trailer or anything that is not a heading
        }
        out.push_str(&format!(" (sec {}", hex(l[..l.len() - 1].as_bytes())));
        i += 1;
        if flat {
            // the about of a flattened section: the unindented lines right under the heading
            let mut about: Option<&str> = None;
            while i < lines.len() && !lines[i].is_empty() && !lines[i].starts_with(' ') {
                if about.is_none() {
                    about = lines[i].split_whitespace().next();
                }
                i += 1;
            }
            match about {
                Some(w) => out.push_str(&format!(" {}", hex(w.as_bytes()))),
                None => out.push_str(" none"),
            }
        }
        while i < lines.len() {
            let l = lines[i];
            if !l.is_empty() && !l.starts_with(' ') {
                break;
            }
            if is_row_line(l) {
                let mut j = i + 1;
                while j < lines.len() && (lines[j].is_empty() || lines[j].starts_with(' ')) && !is_row_line(lines[j]) {
                    j += 1;
                }
                let block = &lines[i..j];
                let col = match help_col(l) {
                    Some(c) => c.to_string(),
                    None => {
                        if block.len() > 1 && block[1].starts_with("          ") && !block[1][10..].starts_with(' ') {
                            "nl".to_string()
                        } else {
                            "none".to_string()
                        }
                    }
                };
                let pvs = block_pvs(block);
                let pvs: Vec<&str> = pvs.iter().map(|s| s.as_str()).collect();
                let spec = block_spec(block);
                let spec: Vec<&str> = spec.iter().map(|s| s.as_str()).collect();
                out.push_str(&format!(
                    " (row {} {} (pv {}) (spec {}))",
                    hex(row_key(l).as_bytes()),
                    col,
                    toks(&pvs),
                    toks(&spec)
                ));
                i = j;
            } else {
                i += 1;
            }
        }
        out.push(')');
    }
    out
}

fn project_usage_flat(text: &str) -> String {
    format!("(usagetext {})", hex(text.trim_end_matches('\n').as_bytes()))
}

fn project_usage(text: &str) -> String {
    let t: Vec<&str> = text.split_whitespace().collect();
    format!("(usage {})", toks(if t.is_empty() { &t } else { &t[1..] }))
}

fn help(a: &[Sx]) -> String {
    let mut env = EnvGuard(vec![]);
    let width = a[1].args()[0].num() as usize;
    let cmd = match catch_unwind(AssertUnwindSafe(|| {
        let c = build_help_cmd(a[0].args(), &mut env).term_width(width);
        let mut probe = c.clone();
        probe.build();
        c
    })) {
        Ok(c) => c,
        Err(p) => {
            let msg = p
                .downcast_ref::<String>()
                .cloned()
                .or_else(|| p.downcast_ref::<&str>().map(|s| s.to_string()))
                .unwrap_or_default();
            return format!("INVALID {}", msg.replace(['\n', '\t'], " "));
        }
    };
    let mut cmd = cmd;
    fn has_flatten(c: &Command) -> bool {
        c.is_flatten_help_set() || c.get_subcommands().any(has_flatten)
    }
    let flat = has_flatten(&cmd);
    let project_help = |t: &str| project_help_mode(t, flat);
    let project_usage = |t: &str| if flat { project_usage_flat(t) } else { project_usage(t) };
    let which = &a[2].args()[0];
    let name = cmd.get_name().to_string();
    let (text, proj) = match which {
        Sx::Sym(s) if s == "short" => {
            let t = cmd.render_help().to_string();
            let p = project_help(&t);
            (t, p)
        }
        Sx::Sym(s) if s == "long" => {
            let t = cmd.render_long_help().to_string();
            let p = project_help(&t);
            (t, p)
        }
        Sx::Sym(s) if s == "usage" => {
            let t = cmd.render_usage().to_string();
            let p = project_usage(&t);
            (t, p)
        }
        Sx::List(_) => {
            let path: Vec<String> = which.args().iter().map(|x| x.string()).collect();
            let mut argv = vec![name];
            match which.head() {
                "flag-h" => {
                    argv.extend(path);
                    argv.push("-h".into());
                }
                "flag-help" => {
                    argv.extend(path);
                    argv.push("--help".into());
                }
                "sub-help" => {
                    argv.push("help".into());
                    argv.extend(path);
                }
                x => panic!("which {x}"),
            }
            match cmd.try_get_matches_from(argv) {
                Ok(_) => return "noerr".into(),
                Err(e) => {
                    if e.kind() != ErrorKind::DisplayHelp {
                        return format!("err {}", crate::modes::parse::kind_name(e.kind()));
                    }
                    let t = e.render().to_string();
                    let p = project_help(&t);
                    (t, p)
                }
            }
        }
        _ => panic!("which"),
    };
    let maxline = text.split('\n').map(|l| l.chars().count()).max().unwrap_or(0);
    let maxrun = text
        .split('\n')
        .map(|l| {
            let mut best = 0;
            let mut cur = 0;
            for c in l.chars() {
                if c == ' ' {
                    cur += 1;
                    best = best.max(cur);
                } else {
                    cur = 0;
                }
            }
            best
        })
        .max()
        .unwrap_or(0);
    format!("ok {} (maxline {}) (maxrun {}) (text {})", proj, maxline, maxrun, hex(text.as_bytes()))
}

/// the comparison `(taken as f32 / term_w as f32) > 0.40` of `arg_next_line_help` against the exact
/// rational `5 * taken > 2 * term_w` the model uses, for all `taken <= a`, `1 <= term_w <= b`
/// and for `term_w = usize::MAX`
fn f32sweep(a: &[Sx]) -> String {
    let tmax = a[0].num() as usize;
    let wmax = a[1].num() as usize;
    let mut bad = vec![];
    let mut n = 0u64;
    for taken in 0..=tmax {
        for w in (1..=wmax).chain([usize::MAX]) {
            let f = (taken as f32 / w as f32) > 0.40;
            let q = 5u128 * (taken as u128) > 2u128 * (w as u128);
            n += 1;
            if f != q && bad.len() < 5 {
                bad.push(format!("({taken} {w})"));
            }
        }
    }
    format!("f32 checked {} differ ({})", n, bad.join(" "))
}
