//! Value parsers and the typed store of ArgMatches (C04).
use crate::hex;
use crate::sexp::Sx;
use clap::builder::{
    BoolishValueParser, EnumValueParser, FalseyValueParser, NonEmptyStringValueParser, PossibleValue,
    PossibleValuesParser, RangedI64ValueParser, RangedU64ValueParser, TypedValueParser, ValueParser,
};
use clap::error::{ContextKind, ContextValue, ErrorKind};
use clap::parser::MatchesError;
use clap::{value_parser, Arg, ArgAction, ArgMatches, Command};
use std::any::TypeId;
use std::ffi::{OsStr, OsString};
use std::ops::Bound;
use std::os::unix::ffi::{OsStrExt, OsStringExt};
use std::panic::{catch_unwind, AssertUnwindSafe};

fn profile_ok(p: &str) -> bool {
    (p == "debug") == cfg!(debug_assertions)
}

fn kind_str(k: ErrorKind) -> String {
    format!("{k:?}")
}

/// does the error carry the argument it is about?
fn argflag(e: &clap::Error) -> &'static str {
    match e.get(ContextKind::InvalidArg) {
        Some(ContextValue::String(s)) if s.contains("--a") => "arg",
        _ => "noarg",
    }
}

fn bound_i64(s: &Sx) -> Bound<i64> {
    match s.head() {
        "incl" => Bound::Included(s.list()[1].inum()),
        "excl" => Bound::Excluded(s.list()[1].inum()),
        _ => Bound::Unbounded,
    }
}

fn bound_u64(s: &Sx) -> Bound<u64> {
    match s.head() {
        "incl" => Bound::Included(s.list()[1].num()),
        "excl" => Bound::Excluded(s.list()[1].num()),
        _ => Bound::Unbounded,
    }
}

/// reason of a ranged-integer rejection, read off the error's source
fn int_detail(e: &clap::Error) -> &'static str {
    use std::error::Error as _;
    use std::num::IntErrorKind;
    if e.kind() == ErrorKind::InvalidUtf8 {
        return "utf8";
    }
    match e.source() {
        Some(src) => {
            if let Some(p) = src.downcast_ref::<std::num::ParseIntError>() {
                match p.kind() {
                    IntErrorKind::Empty => "empty",
                    IntErrorKind::InvalidDigit => "invalid_digit",
                    IntErrorKind::PosOverflow => "pos_overflow",
                    IntErrorKind::NegOverflow => "neg_overflow",
                    _ => "other_parse",
                }
            } else if src.downcast_ref::<std::num::TryFromIntError>().is_some() {
                "narrow"
            } else if src.to_string().contains(" is not in ") {
                "range"
            } else {
                "other"
            }
        }
        None => "nosource",
    }
}

fn long_arg(raw: &[u8]) -> OsString {
    let mut v = b"--a=".to_vec();
    v.extend_from_slice(raw);
    OsString::from_vec(v)
}

/// Run one parser at both observation points: `TypedValueParser::parse_ref` directly and through
/// a `Command` (`p --a=<raw>`, then `try_get_one::<T>` and `get_raw`).
fn both<P, T>(
    parser: P,
    ignore_case: bool,
    raw: &[u8],
    show: impl Fn(&T) -> String,
    detail: Option<fn(&clap::Error) -> &'static str>,
) -> String
where
    P: TypedValueParser<Value = T> + Clone + Send + Sync + 'static,
    T: Clone + Send + Sync + 'static,
{
    // the direct call gets the *built* Arg (what clap itself passes); an unbuilt Arg cannot be displayed
    let mut cmd = Command::new("p").arg(
        Arg::new("a").long("a").action(ArgAction::Set).ignore_case(ignore_case).value_parser(parser.clone()),
    );
    cmd.build();
    let direct = {
        let arg = cmd.get_arguments().find(|x| x.get_id() == "a").expect("arg a");
        match parser.parse_ref(&cmd, Some(arg), OsStr::from_bytes(raw)) {
            Ok(v) => format!("(ok {})", show(&v)),
            Err(e) => match detail {
                Some(d) => format!("(err {} {} {})", kind_str(e.kind()), d(&e), argflag(&e)),
                None => format!("(err {} {})", kind_str(e.kind()), argflag(&e)),
            },
        }
    };
    let viacmd = match cmd.try_get_matches_from(vec![OsString::from("p"), long_arg(raw)]) {
        Ok(m) => match m.try_get_one::<T>("a") {
            Ok(Some(v)) => {
                let raws: Vec<String> = m
                    .get_raw("a")
                    .map(|r| r.map(|x| hex(x.as_bytes())).collect())
                    .unwrap_or_default();
                format!("(ok {} {})", show(v), raws.join(" "))
            }
            Ok(None) => "(absent)".to_string(),
            Err(e) => format!("(matches-error {e})"),
        },
        Err(e) => format!("(err {} {})", kind_str(e.kind()), argflag(&e)),
    };
    format!("direct={direct} cmd={viacmd}")
}

macro_rules! ranged_i64 {
    ($t:ty, $a:expr) => {{
        let (lo, hi) = (bound_i64(&$a[2]), bound_i64(&$a[3]));
        match catch_unwind(AssertUnwindSafe(|| {
            let p: RangedI64ValueParser<$t> = value_parser!($t);
            p.range((lo, hi))
        })) {
            Err(_) => "build-panic".to_string(),
            Ok(p) => both(p, false, &$a[4].bytes(), |v: &$t| v.to_string(), Some(int_detail)),
        }
    }};
}

pub fn int(a: &[Sx]) -> String {
    if !profile_ok(a[0].sym()) {
        return "profile-mismatch".into();
    }
    match a[1].sym() {
        "u8" => ranged_i64!(u8, a),
        "i8" => ranged_i64!(i8, a),
        "u16" => ranged_i64!(u16, a),
        "i16" => ranged_i64!(i16, a),
        "u32" => ranged_i64!(u32, a),
        "i32" => ranged_i64!(i32, a),
        "i64" => ranged_i64!(i64, a),
        "u64" => {
            let (lo, hi) = (bound_u64(&a[2]), bound_u64(&a[3]));
            match catch_unwind(AssertUnwindSafe(|| {
                let p: RangedU64ValueParser<u64> = value_parser!(u64);
                p.range((lo, hi))
            })) {
                Err(_) => "build-panic".to_string(),
                Ok(p) => both(p, false, &a[4].bytes(), |v: &u64| v.to_string(), Some(int_detail)),
            }
        }
        t => format!("bad-type {t}"),
    }
}

pub fn boolean(a: &[Sx]) -> String {
    let raw = a[1].bytes();
    match a[0].sym() {
        "bool" => both(clap::builder::BoolValueParser::new(), false, &raw, |v: &bool| v.to_string(), None),
        "boolish" => both(BoolishValueParser::new(), false, &raw, |v: &bool| v.to_string(), None),
        "falsey" => both(FalseyValueParser::new(), false, &raw, |v: &bool| v.to_string(), None),
        "nonempty" => both(NonEmptyStringValueParser::new(), false, &raw, |v: &String| hex(v.as_bytes()), None),
        "string" => both(clap::builder::StringValueParser::new(), false, &raw, |v: &String| hex(v.as_bytes()), None),
        k => format!("bad-kind {k}"),
    }
}

fn pvs(l: &Sx) -> Vec<PossibleValue> {
    l.list()
        .iter()
        .map(|pv| {
            // `(hide name alias..)`: a declared value that is only hidden from help and error listings
            let mut items = pv.list();
            let hidden = items[0].sym() == "hide";
            if hidden {
                items = &items[1..];
            }
            let mut p = PossibleValue::new(items[0].string()).hide(hidden);
            for al in &items[1..] {
                p = p.alias(al.string());
            }
            p
        })
        .collect()
}

pub fn possible(a: &[Sx]) -> String {
    let ic = a[0].sym() == "true";
    let raw = a[2].bytes();
    both(PossibleValuesParser::new(pvs(&a[1])), ic, &raw, |v: &String| hex(v.as_bytes()), None)
}

/// The fixed enum behind the `enum` mode; the case repeats its table for the model and the
/// harness refuses a case whose table is not this one.
#[derive(Clone, Copy, Debug, PartialEq, Eq)]
enum Fruit {
    Apple,
    Kiwi,
    Eclair,
    Apricot,
}

const FRUIT_TABLE: &[(&str, &[&str])] = &[
    ("apple", &["a", "Pomme"]),
    ("kiwi", &["k"]),
    ("éclair", &["É"]),
    ("apricot", &["APPLE", "ß"]),
];

impl clap::ValueEnum for Fruit {
    fn value_variants<'a>() -> &'a [Self] {
        &[Fruit::Apple, Fruit::Kiwi, Fruit::Eclair, Fruit::Apricot]
    }
    fn to_possible_value(&self) -> Option<PossibleValue> {
        let (n, al) = FRUIT_TABLE[*self as usize];
        Some(PossibleValue::new(n).aliases(al.iter().copied()))
    }
}

pub fn enumeration(a: &[Sx]) -> String {
    let ic = a[0].sym() == "true";
    let given: Vec<Vec<String>> = a[1].list().iter().map(|pv| pv.list().iter().map(|x| x.string()).collect()).collect();
    let mine: Vec<Vec<String>> = FRUIT_TABLE
        .iter()
        .map(|(n, al)| std::iter::once(n.to_string()).chain(al.iter().map(|s| s.to_string())).collect())
        .collect();
    if given != mine {
        return "enum-mismatch".into();
    }
    let raw = a[2].bytes();
    both(EnumValueParser::<Fruit>::new(), ic, &raw, |v: &Fruit| (*v as usize).to_string(), None)
}

// ------------------------------------------------------------------ typed store

fn type_name_of(id: &dyn PartialEq<TypeId>) -> &'static str {
    macro_rules! probe {
        ($($n:literal => $t:ty),*) => { $( if *id == TypeId::of::<$t>() { return $n; } )* };
    }
    probe!("u8" => u8, "i8" => i8, "u16" => u16, "i16" => i16, "u32" => u32, "i32" => i32,
           "u64" => u64, "i64" => i64, "string" => String, "bool" => bool);
    "?"
}

fn merr(e: MatchesError) -> String {
    match e {
        MatchesError::Downcast { actual, expected, .. } => {
            format!("(err downcast {} {})", type_name_of(&actual), type_name_of(&expected))
        }
        MatchesError::UnknownArgument { .. } => "(err unknown)".into(),
        _ => "(err other)".into(),
    }
}

fn typed_op<T: Clone + Send + Sync + 'static>(m: &mut ArgMatches, op: &str, id: &str, show: impl Fn(&T) -> String) -> String {
    match op {
        "get_one" => match m.try_get_one::<T>(id) {
            Ok(Some(v)) => format!("(one {})", show(v)),
            Ok(None) => "none".into(),
            Err(e) => merr(e),
        },
        "get_many" => match m.try_get_many::<T>(id) {
            Ok(Some(vs)) => format!("(many{})", vs.map(|v| format!(" {}", show(v))).collect::<String>()),
            Ok(None) => "none".into(),
            Err(e) => merr(e),
        },
        "remove_one" => match m.try_remove_one::<T>(id) {
            Ok(Some(v)) => format!("(one {})", show(&v)),
            Ok(None) => "none".into(),
            Err(e) => merr(e),
        },
        "remove_many" => match m.try_remove_many::<T>(id) {
            Ok(Some(vs)) => format!("(many{})", vs.map(|v| format!(" {}", show(&v))).collect::<String>()),
            Ok(None) => "none".into(),
            Err(e) => merr(e),
        },
        o => format!("badop-{o}"),
    }
}

fn disp<T: std::fmt::Display>(v: &T) -> String {
    hex(v.to_string().as_bytes())
}

fn vp_for(t: &str) -> Option<ValueParser> {
    Some(match t {
        "u8" => value_parser!(u8).into(),
        "i8" => value_parser!(i8).into(),
        "u16" => value_parser!(u16).into(),
        "i16" => value_parser!(i16).into(),
        "u32" => value_parser!(u32).into(),
        "i32" => value_parser!(i32).into(),
        "u64" => value_parser!(u64).into(),
        "i64" => value_parser!(i64).into(),
        "string" => value_parser!(String),
        "bool" => value_parser!(bool),
        _ => return None,
    })
}

pub fn store(a: &[Sx]) -> String {
    if !profile_ok(a[0].sym()) {
        return "profile-mismatch".into();
    }
    let mut cmd = Command::new("p").disable_help_flag(true).disable_version_flag(true);
    let mut argv: Vec<OsString> = vec!["p".into()];
    for d in a[1].list() {
        let items = d.list();
        let id = items[0].string();
        let vp = match vp_for(items[1].sym()) {
            Some(v) => v,
            None => return format!("bad-type {}", items[1].sym()),
        };
        // `(xID type bare)`: the option may be given without a value and IS given that way (implementation-only stream
        // store-empty): the entry is present and holds an empty occurrence
        if items.len() == 3 && matches!(&items[2], Sx::Sym(b) if b == "bare") {
            cmd = cmd.arg(
                Arg::new(id.clone()).long(id.clone()).action(ArgAction::Append).num_args(0..).value_parser(vp),
            );
            argv.push(OsString::from(format!("--{id}")));
            continue;
        }
        cmd = cmd.arg(Arg::new(id.clone()).long(id.clone()).action(ArgAction::Append).value_parser(vp));
        for v in &items[2..] {
            let mut w = format!("--{id}=").into_bytes();
            w.extend_from_slice(&v.bytes());
            argv.push(OsString::from_vec(w));
        }
    }
    // optional 4th item: argument groups `((gid member..) ..)` (implementation-only stream store-groups)
    if a.len() > 3 {
        for g in a[3].list() {
            let items = g.list();
            let members: Vec<String> = items[1..].iter().map(|x| x.string()).collect();
            cmd = cmd.group(clap::ArgGroup::new(items[0].string()).args(members).multiple(true));
        }
    }
    let mut m = match cmd.try_get_matches_from(argv) {
        Ok(m) => m,
        Err(e) => return format!("builderr {}", kind_str(e.kind())),
    };
    let mut outs: Vec<String> = vec![];
    for op in a[2].list() {
        let l = op.list();
        let name = op.head().to_string();
        let r = catch_unwind(AssertUnwindSafe(|| {
            if name == "ids" {
                return format!("(ids{})", m.ids().map(|i| format!(" {}", hex(i.as_str().as_bytes()))).collect::<String>());
            }
            let id = l[1].string();
            match l[2].sym() {
                "u8" => typed_op::<u8>(&mut m, &name, &id, disp),
                "i8" => typed_op::<i8>(&mut m, &name, &id, disp),
                "u16" => typed_op::<u16>(&mut m, &name, &id, disp),
                "i16" => typed_op::<i16>(&mut m, &name, &id, disp),
                "u32" => typed_op::<u32>(&mut m, &name, &id, disp),
                "i32" => typed_op::<i32>(&mut m, &name, &id, disp),
                "u64" => typed_op::<u64>(&mut m, &name, &id, disp),
                "i64" => typed_op::<i64>(&mut m, &name, &id, disp),
                "string" => typed_op::<String>(&mut m, &name, &id, |v| hex(v.as_bytes())),
                "bool" => typed_op::<bool>(&mut m, &name, &id, disp),
                t => format!("bad-type {t}"),
            }
        }));
        match r {
            Ok(s) => outs.push(s),
            Err(_) => {
                outs.push("panic".into());
                break;
            }
        }
    }
    let mut fin: Vec<(String, Vec<String>)> = m
        .ids()
        .map(|i| {
            let raws = m
                .get_raw(i.as_str())
                .map(|r| r.map(|x| hex(x.as_bytes())).collect())
                .unwrap_or_default();
            (hex(i.as_str().as_bytes()), raws)
        })
        .collect();
    fin.sort();
    let fin_s: Vec<String> = fin.iter().map(|(i, r)| format!("({} ({}))", i, r.join(" "))).collect();
    format!("ops=({}) final=({})", outs.join(" "), fin_s.join(" "))
}
