//! Extra implementation-side modes for property C08 (the shared `parse` mode lives in parse.rs).
//!
//! `(respell (cmd ...) (argv A...) (argv B...))`: parse two spellings of one invocation with the
//! real crate (a fresh `Command` for each, same environment) and print both canonical results as
//! `<result A> ### <result B>`.
use crate::modes::parse::{build_cmd, show_result, EnvGuard};
use crate::sexp::Sx;
use std::ffi::OsString;
use std::os::unix::ffi::OsStringExt;
use std::panic::{catch_unwind, AssertUnwindSafe};

fn one(cmd: &clap::Command, argv: &Sx) -> String {
    let argv: Vec<OsString> = argv.args().iter().map(|x| OsString::from_vec(x.bytes())).collect();
    let c = cmd.clone();
    match catch_unwind(AssertUnwindSafe(|| show_result(c.try_get_matches_from(argv)))) {
        Ok(s) => s,
        Err(p) => {
            let msg = p
                .downcast_ref::<String>()
                .cloned()
                .or_else(|| p.downcast_ref::<&str>().map(|s| s.to_string()))
                .unwrap_or_default();
            format!("PANIC {}", msg.replace(['\n', '\t'], " "))
        }
    }
}

fn respell(a: &[Sx]) -> String {
    let mut env = EnvGuard(vec![]);
    let cmd = match catch_unwind(AssertUnwindSafe(|| {
        let c = build_cmd(a[0].args(), &mut env);
        let mut probe = c.clone();
        probe.build();
        c
    })) {
        Ok(c) => c,
        Err(_) => return "INVALID ### INVALID".into(),
    };
    let ra = one(&cmd, &a[1]);
    let rb = one(&cmd, &a[2]);
    format!("{ra} ### {rb}")
}

/// Returns `Some(result)` when `head` is a mode of this file.
pub fn dispatch(head: &str, args: &[Sx]) -> Option<String> {
    match head {
        "respell" => Some(respell(args)),
        _ => None,
    }
}
