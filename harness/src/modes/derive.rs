//! Implementation runner for the `derive` area (property C15).
//!
//! Modes (the case line also carries the model's derive input, which this side ignores):
//!   (dcmd TYPE spec upd)            dump of `TYPE::command()` / `command_for_update()` after `build()`
//!   (dparse TYPE spec (argv..))     `try_parse_from`, `command().try_get_matches_from`, `from_arg_matches`
//!   (dround TYPE spec VALUE)        construct VALUE, print it to the canonical argv, parse, compare
//!   (dupdate TYPE spec VALUE (argv..) ...)   `try_update_from` sequence
//!   (venum ENUM spec xINPUT icase)  `ValueEnum::from_str` + the `value_variants()`/`to_possible_value()` table
//!
//! The corpus types, their `Canon`/`Val` impls and the table are in the generated file
//! `derive_corpus.rs` (vp/derive_corpus.py).  The canonical printer's per-shape helpers are the
//! hand-written `Pr` methods below.
use crate::sexp::Sx;
use clap::error::ErrorKind;
use clap::{ArgAction, Command, CommandFactory, FromArgMatches, Parser, ValueEnum};
use std::collections::HashMap;
use std::marker::PhantomData;
use std::sync::OnceLock;

// ------------------------------------------------------------------ canonical text of values
pub trait Canon: Sized {
    fn show(&self) -> String;
    fn from_sx(sx: &Sx) -> Result<Self, String>;
}

pub fn hexs(s: &str) -> String {
    crate::hex(s.as_bytes())
}

impl Canon for bool {
    fn show(&self) -> String {
        self.to_string()
    }
    fn from_sx(sx: &Sx) -> Result<Self, String> {
        match sx {
            Sx::Sym(s) if s == "true" => Ok(true),
            Sx::Sym(s) if s == "false" => Ok(false),
            _ => Err(format!("bool {sx:?}")),
        }
    }
}
fn sx_int(sx: &Sx) -> Result<i128, String> {
    match sx {
        Sx::Num(n) => Ok(*n as i128),
        Sx::INum(n) => Ok(*n as i128),
        _ => Err(format!("int {sx:?}")),
    }
}
impl Canon for u8 {
    fn show(&self) -> String {
        self.to_string()
    }
    fn from_sx(sx: &Sx) -> Result<Self, String> {
        u8::try_from(sx_int(sx)?).map_err(|e| e.to_string())
    }
}
impl Canon for i64 {
    fn show(&self) -> String {
        self.to_string()
    }
    fn from_sx(sx: &Sx) -> Result<Self, String> {
        i64::try_from(sx_int(sx)?).map_err(|e| e.to_string())
    }
}
impl Canon for String {
    fn show(&self) -> String {
        hexs(self)
    }
    fn from_sx(sx: &Sx) -> Result<Self, String> {
        match sx {
            Sx::Bytes(b) => String::from_utf8(b.clone()).map_err(|e| e.to_string()),
            _ => Err(format!("string {sx:?}")),
        }
    }
}
impl<T: Canon> Canon for Option<T> {
    fn show(&self) -> String {
        match self {
            None => "none".into(),
            Some(v) => format!("(some {})", v.show()),
        }
    }
    fn from_sx(sx: &Sx) -> Result<Self, String> {
        match sx {
            Sx::Sym(s) if s == "none" => Ok(None),
            Sx::List(l) if l.len() == 2 && sx.head() == "some" => Ok(Some(T::from_sx(&l[1])?)),
            _ => Err(format!("option {sx:?}")),
        }
    }
}
impl<T: Canon> Canon for Vec<T> {
    fn show(&self) -> String {
        let mut s = String::from("(vec");
        for v in self {
            s.push(' ');
            s.push_str(&v.show());
        }
        s.push(')');
        s
    }
    fn from_sx(sx: &Sx) -> Result<Self, String> {
        match sx {
            Sx::List(l) if sx.head() == "vec" => l[1..].iter().map(T::from_sx).collect(),
            _ => Err(format!("vec {sx:?}")),
        }
    }
}

/// A struct of the corpus (or the fields of an enum variant): field-wise text and printer.
pub trait Val: Sized {
    fn show_fields(&self, out: &mut Vec<String>);
    fn from_fields(it: &mut std::slice::Iter<Sx>) -> Result<Self, String>;
    fn print(&self, p: &mut Pr);
}
pub fn show_struct<T: Val>(v: &T) -> String {
    let mut out = vec![];
    v.show_fields(&mut out);
    if out.is_empty() {
        "(s)".into()
    } else {
        format!("(s {})", out.join(" "))
    }
}
pub fn struct_from_sx<T: Val>(sx: &Sx) -> Result<T, String> {
    match sx {
        Sx::List(l) if sx.head() == "s" => {
            let mut it = l[1..].iter();
            let v = T::from_fields(&mut it)?;
            if it.next().is_some() {
                return Err("too many fields".into());
            }
            Ok(v)
        }
        _ => Err(format!("struct {sx:?}")),
    }
}
pub fn nx<'a>(it: &mut std::slice::Iter<'a, Sx>) -> Result<&'a Sx, String> {
    it.next().ok_or_else(|| "missing field".to_string())
}
pub fn show_enum(idx: usize, fields: Vec<String>) -> String {
    if fields.is_empty() {
        format!("(e {idx})")
    } else {
        format!("(e {idx} {})", fields.join(" "))
    }
}
/// `(e IDX field...)` -> (IDX, iterator over the fields)
pub fn enum_parts(sx: &Sx) -> Result<(usize, std::slice::Iter<Sx>), String> {
    match sx {
        Sx::List(l) if sx.head() == "e" && l.len() >= 2 => Ok((sx_int(&l[1])? as usize, l[2..].iter())),
        _ => Err(format!("enum {sx:?}")),
    }
}

// ------------------------------------------------------------------ hand-written canonical printer
/// The textual form of one element value (what a user types for it).
pub trait Scalar {
    fn text(&self) -> Option<String>;
}
impl Scalar for bool {
    fn text(&self) -> Option<String> {
        Some(self.to_string())
    }
}
impl Scalar for u8 {
    fn text(&self) -> Option<String> {
        Some(self.to_string())
    }
}
impl Scalar for i64 {
    fn text(&self) -> Option<String> {
        Some(self.to_string())
    }
}
impl Scalar for String {
    fn text(&self) -> Option<String> {
        Some(self.clone())
    }
}
pub fn enum_text<E: ValueEnum>(e: &E) -> Option<String> {
    e.to_possible_value().map(|p| p.get_name().to_owned())
}

#[derive(Clone, Copy)]
pub enum K {
    Long(&'static str),
    Short(char),
    Pos,
}

#[derive(Default)]
pub struct Pr {
    pub opts: Vec<String>,
    pub pos: Vec<String>,
    pub sub: Vec<String>,
    pub unprintable: bool,
}
impl Pr {
    pub fn argv(&self) -> Vec<String> {
        let mut v = self.opts.clone();
        if !self.pos.is_empty() {
            v.push("--".into());
            v.extend(self.pos.iter().cloned());
        }
        v.extend(self.sub.iter().cloned());
        v
    }
    fn flag(k: K) -> String {
        match k {
            K::Long(l) => format!("--{l}"),
            K::Short(c) => format!("-{c}"),
            K::Pos => String::new(),
        }
    }
    /// one occurrence holding `vals`
    fn occ(&mut self, k: K, vals: Vec<String>) {
        match k {
            K::Pos => self.pos.extend(vals),
            _ => match vals.len() {
                0 => self.opts.push(Self::flag(k)),
                1 => self.opts.push(format!("{}={}", Self::flag(k), vals[0])),
                _ => {
                    self.opts.push(Self::flag(k));
                    self.opts.extend(vals);
                }
            },
        }
    }
    fn txt<T: Scalar>(&mut self, v: &T) -> String {
        match v.text() {
            Some(s) => s,
            None => {
                self.unprintable = true;
                String::new()
            }
        }
    }
    fn txts<T: Scalar>(&mut self, l: &[T]) -> Vec<String> {
        l.iter().map(|v| self.txt(v)).collect()
    }
    pub fn flag_bool(&mut self, v: &bool, k: K) {
        if *v {
            self.occ(k, vec![]);
        }
    }
    pub fn counter(&mut self, v: &u8, k: K) {
        for _ in 0..*v {
            self.occ(k, vec![]);
        }
    }
    pub fn plain<T: Scalar>(&mut self, v: &T, k: K) {
        let s = self.txt(v);
        self.occ(k, vec![s]);
    }
    pub fn opt<T: Scalar>(&mut self, v: &Option<T>, k: K) {
        if let Some(x) = v {
            self.plain(x, k);
        }
    }
    pub fn optopt<T: Scalar>(&mut self, v: &Option<Option<T>>, k: K) {
        match v {
            None => {}
            Some(None) => self.occ(k, vec![]),
            Some(Some(x)) => self.plain(x, k),
        }
    }
    pub fn vec<T: Scalar>(&mut self, v: &[T], k: K) {
        if v.is_empty() {
            return;
        }
        let ss = self.txts(v);
        match k {
            K::Pos => self.occ(k, ss),
            _ => {
                for s in ss {
                    self.occ(k, vec![s]);
                }
            }
        }
    }
    pub fn optvec<T: Scalar>(&mut self, v: &Option<Vec<T>>, k: K) {
        match v {
            None => {}
            Some(l) if l.is_empty() => match k {
                K::Pos => self.unprintable = true,
                _ => self.occ(k, vec![]),
            },
            Some(l) => self.vec(l, k),
        }
    }
    pub fn vecvec<T: Scalar>(&mut self, v: &[Vec<T>], k: K) {
        for g in v {
            let ss = self.txts(g);
            self.occ(k, ss);
        }
    }
    pub fn optvecvec<T: Scalar>(&mut self, v: &Option<Vec<Vec<T>>>, k: K) {
        match v {
            None => {}
            Some(l) if l.is_empty() => self.unprintable = true,
            Some(l) => self.vecvec(l, k),
        }
    }
    pub fn sub(&mut self, name: &str, f: impl FnOnce(&mut Pr)) {
        let mut q = Pr::default();
        f(&mut q);
        self.sub.push(name.to_owned());
        self.sub.extend(q.argv());
        self.unprintable |= q.unprintable;
    }
}

// ------------------------------------------------------------------ per-type operations
pub trait Ops: Send + Sync {
    fn command(&self, upd: bool) -> Command;
    fn parse(&self, argv: &[String]) -> String;
    fn round(&self, v: &Sx) -> String;
    fn update(&self, v: &Sx, argvs: &[Vec<String>]) -> String;
}
pub struct TypeOps<T>(pub PhantomData<fn() -> T>);

pub fn kind_name(k: ErrorKind) -> String {
    format!("{k:?}")
}
fn with_bin(argv: &[String]) -> Vec<String> {
    let mut v = vec!["prog".to_string()];
    v.extend(argv.iter().cloned());
    v
}
fn res_text<T: Canon>(r: Result<T, clap::Error>) -> String {
    match r {
        Ok(v) => format!("(ok {})", v.show()),
        Err(e) => format!("(err {})", kind_name(e.kind())),
    }
}

impl<T: Parser + Canon + Val + Clone + PartialEq + 'static> Ops for TypeOps<T> {
    fn command(&self, upd: bool) -> Command {
        if upd {
            T::command_for_update()
        } else {
            T::command()
        }
    }
    fn parse(&self, argv: &[String]) -> String {
        let argv = with_bin(argv);
        let direct = res_text(T::try_parse_from(argv.iter()));
        let (cmd, fam) = match T::command().try_get_matches_from(argv.iter()) {
            Ok(m) => ("(cmd ok)".to_string(), res_text(T::from_arg_matches(&m))),
            Err(e) => (format!("(cmd err {})", kind_name(e.kind())), "(fam skipped)".to_string()),
        };
        let fam = fam.replacen("(ok", "(fam ok", 1).replacen("(err", "(fam err", 1);
        format!("(try {}) {} {}", &direct[1..direct.len() - 1], cmd, fam)
    }
    fn round(&self, v: &Sx) -> String {
        let v: T = match T::from_sx(v) {
            Ok(v) => v,
            Err(e) => return format!("harness-error value {e}"),
        };
        let mut p = Pr::default();
        v.print(&mut p);
        if p.unprintable {
            return "unprintable".into();
        }
        let argv = p.argv();
        let shown: Vec<String> = argv.iter().map(|s| hexs(s)).collect();
        let back = T::try_parse_from(with_bin(&argv).iter());
        let same = matches!(&back, Ok(b) if *b == v);
        format!("(argv {}) (back {}) (same {})", shown.join(" "), {
            let t = res_text(back);
            t[1..t.len() - 1].to_string()
        }, same)
    }
    fn update(&self, v: &Sx, argvs: &[Vec<String>]) -> String {
        let mut v: T = match T::from_sx(v) {
            Ok(v) => v,
            Err(e) => return format!("harness-error value {e}"),
        };
        let mut out = vec![];
        for a in argvs {
            match v.try_update_from(with_bin(a).iter()) {
                Ok(()) => out.push(format!("(ok {})", v.show())),
                Err(e) => {
                    out.push(format!("(err {})", kind_name(e.kind())));
                    break;
                }
            }
        }
        out.join(" ")
    }
}

pub trait EnumOps: Send + Sync {
    fn from_str(&self, s: &str, icase: bool) -> Option<usize>;
    fn table(&self) -> String;
}
pub trait Idx {
    fn idx(&self) -> usize;
}
pub struct EnumTypeOps<E>(pub PhantomData<fn() -> E>);
impl<E: ValueEnum + Idx + 'static> EnumOps for EnumTypeOps<E> {
    fn from_str(&self, s: &str, icase: bool) -> Option<usize> {
        <E as ValueEnum>::from_str(s, icase).ok().map(|v| v.idx())
    }
    fn table(&self) -> String {
        let mut rows = vec![];
        for v in E::value_variants() {
            let names: Vec<String> = match v.to_possible_value() {
                Some(pv) => pv.get_name_and_aliases().map(hexs).collect(),
                None => vec!["MISSING".into()],
            };
            rows.push(format!("({} {})", v.idx(), names.join(" ")));
        }
        format!("({})", rows.join(" "))
    }
}

#[path = "../derive_corpus.rs"]
pub mod corpus;

fn types() -> &'static HashMap<&'static str, Box<dyn Ops>> {
    static T: OnceLock<HashMap<&'static str, Box<dyn Ops>>> = OnceLock::new();
    T.get_or_init(|| corpus::corpus().into_iter().collect())
}
fn enums() -> &'static HashMap<&'static str, Box<dyn EnumOps>> {
    static T: OnceLock<HashMap<&'static str, Box<dyn EnumOps>>> = OnceLock::new();
    T.get_or_init(|| corpus::venums().into_iter().collect())
}

// ------------------------------------------------------------------ command dump
fn action_name(a: &ArgAction) -> &'static str {
    match a {
        ArgAction::Set => "set",
        ArgAction::Append => "append",
        ArgAction::SetTrue => "settrue",
        ArgAction::SetFalse => "setfalse",
        ArgAction::Count => "count",
        ArgAction::Help => "help",
        ArgAction::HelpShort => "helpshort",
        ArgAction::HelpLong => "helplong",
        ArgAction::Version => "version",
        _ => "other",
    }
}
fn dump_cmd(c: &Command) -> String {
    let mut parts = vec![];
    for a in c.get_arguments() {
        let id = a.get_id().as_str();
        if id == "help" || id == "version" {
            continue;
        }
        let num = match a.get_num_args() {
            Some(r) => format!(
                "(num {} {})",
                r.min_values(),
                if r.max_values() == usize::MAX { "inf".to_string() } else { r.max_values().to_string() }
            ),
            None => "(num none)".into(),
        };
        let short = a.get_short().map(|c| (c as u32).to_string()).unwrap_or("-".into());
        let long = a.get_long().map(hexs).unwrap_or("-".into());
        let index = a.get_index().map(|i| i.to_string()).unwrap_or("-".into());
        let defaults: Vec<String> = a.get_default_values().iter().map(|d| crate::hex(d.as_encoded_bytes())).collect();
        let delim = a.get_value_delimiter().map(|c| (c as u32).to_string()).unwrap_or("-".into());
        parts.push(format!(
            "(arg {} {} {} {} {} {} {} (default {}) (delim {}) {})",
            hexs(id),
            action_name(a.get_action()),
            num,
            if a.is_required_set() { "required" } else { "optional" },
            short,
            long,
            index,
            defaults.join(" "),
            delim,
            if a.is_ignore_case_set() { "icase" } else { "case" },
        ));
    }
    for g in c.get_groups() {
        let members: Vec<String> = g.get_args().map(|i| hexs(i.as_str())).collect();
        parts.push(format!(
            "(group {} {} {} ({}))",
            hexs(g.get_id().as_str()),
            if g.clone().is_multiple() { "multiple" } else { "single" },
            if g.is_required_set() { "required" } else { "optional" },
            members.join(" ")
        ));
    }
    parts.push(format!(
        "(set {} {})",
        if c.is_subcommand_required_set() { "sub_required" } else { "-" },
        if c.is_arg_required_else_help_set() { "arg_required_else_help" } else { "-" }
    ));
    for s in c.get_subcommands() {
        if s.get_name() == "help" {
            continue;
        }
        parts.push(format!("(sub {} {})", hexs(s.get_name()), dump_cmd(s)));
    }
    format!("({})", parts.join(" "))
}

fn strs(sx: &Sx) -> Vec<String> {
    sx.list()
        .iter()
        .map(|x| match x {
            Sx::Bytes(b) => String::from_utf8_lossy(b).into_owned(),
            other => format!("{other:?}"),
        })
        .collect()
}
fn sym(sx: &Sx) -> String {
    match sx {
        Sx::Sym(s) => s.clone(),
        _ => String::new(),
    }
}

/// Returns `Some(result)` when `head` is a mode of this area.
// ---------------------------------------------------------------------------------------------------------------------------
// hand-written types with a subcommand enum NESTED in a subcommand enum (`#[command(subcommand)]` on a variant), consumed
// through `has_subcommand`: as an `Option<Sub>` field and flattened into another enum (implementation-only mode `dnested`)
mod nested {
    #[derive(clap::Parser, Debug)]
    #[command(name = "cli")]
    pub struct NCli {
        #[arg(long)]
        pub verbose: bool,
        #[command(subcommand)]
        pub cmd: Option<NCmd>,
    }
    #[derive(clap::Subcommand, Debug)]
    pub enum NCmd {
        Status,
        #[command(subcommand)]
        Remote(NRemote),
    }
    #[derive(clap::Subcommand, Debug)]
    pub enum NRemote {
        Add(NAdd),
        Remove { name: String },
    }
    #[derive(clap::Args, Debug)]
    pub struct NAdd {
        pub name: String,
        #[arg(long)]
        pub url: Option<String>,
    }
    #[derive(clap::Parser, Debug)]
    #[command(name = "tool")]
    pub enum NTool {
        #[command(flatten)]
        Base(NCmd),
        Version,
    }
}

fn dnested(which: &str, argv: &[String]) -> String {
    fn chain(m: &clap::ArgMatches) -> String {
        let mut out = vec![];
        let mut cur = m;
        while let Some((n, sm)) = cur.subcommand() {
            out.push(n.to_string());
            cur = sm;
        }
        out.join("/")
    }
    fn one<T: Parser + CommandFactory + std::fmt::Debug>(argv: &[String]) -> String {
        let d = match std::panic::catch_unwind(|| T::try_parse_from(argv)) {
            Ok(Ok(v)) => format!("(derived ok {})", hexs(&format!("{v:?}"))),
            Ok(Err(e)) => format!("(derived err {})", kind_name(e.kind())),
            Err(_) => "(derived panic)".to_string(),
        };
        let c = match T::command().try_get_matches_from(argv) {
            Ok(m) => format!("(command ok {})", hexs(&chain(&m))),
            Err(e) => format!("(command err {})", kind_name(e.kind())),
        };
        format!("{d} {c}")
    }
    match which {
        "cli" => one::<nested::NCli>(argv),
        "tool" => one::<nested::NTool>(argv),
        _ => "badcase".into(),
    }
}

pub fn dispatch(head: &str, args: &[Sx]) -> Option<String> {
    if head == "dnested" {
        return Some(dnested(sym(&args[0]).as_str(), &strs(&args[1])));
    }
    match head {
        "dcmd" | "dparse" | "dround" | "dupdate" => {
            let name = sym(&args[0]);
            let Some(ops) = types().get(name.as_str()) else {
                return Some(format!("unknown-type {name}"));
            };
            Some(match head {
                "dcmd" => {
                    let upd = sym(&args[2]) == "update";
                    let mut c = ops.command(upd);
                    c.build();
                    dump_cmd(&c)
                }
                "dparse" => ops.parse(&strs(&args[2])),
                "dround" => ops.round(&args[2]),
                _ => {
                    let argvs: Vec<Vec<String>> = args[3..].iter().map(strs).collect();
                    ops.update(&args[2], &argvs)
                }
            })
        }
        "venum" => {
            let name = sym(&args[0]);
            let Some(ops) = enums().get(name.as_str()) else {
                return Some(format!("unknown-enum {name}"));
            };
            let input = match &args[2] {
                Sx::Bytes(b) => String::from_utf8_lossy(b).into_owned(),
                _ => String::new(),
            };
            let icase = sym(&args[3]) == "true";
            let r = match ops.from_str(&input, icase) {
                Some(i) => format!("(some {i})"),
                None => "none".into(),
            };
            Some(format!("(r {r}) (table {})", ops.table()))
        }
        _ => None,
    }
}
