//! Implementation runner for the `dynamic` area (C18): the shell-agnostic completion engine
//! `clap_complete::engine::complete`.
//!
//! `(dyn (cmd ...) (argv x..) <index>)`
//!     -> `INVALID` (the command fails clap's own debug assertions)
//!      | `err` (plain "no completion generated" error)
//!      | `ok (<value hex> h|v)...` (candidates in the order returned)
//!      | `PANIC ...` (caught in main.rs)
//! `(dynaccept (cmd ...) (argv x..) <index>)`
//!     -> the `dyn` result, then ` ;; (prefix <kind>) (word <kind>) (acc (<value hex> <kind>)...) (tree ...)`
//!        where `<kind>` is what the REAL parser says about `argv[..index] ++ [candidate]`
//!        (`ok`, an `ErrorKind` name or `PANIC`), and `(tree ...)` is the reflection dump of the built
//!        command (names, aliases, hidden flags of every level) for the oracle.
//! `(dynorder ...)` = `dyn` (the candidates are printed in the order returned; the model side applies the final sort).
//! Extension items understood in command specs: `(x-pv (xNAME h|v)...)` on an arg = PossibleValuesParser;
//! `(x-ord n)` on an arg or a command = display_order(n); `(x-heading xH)` on an arg = help_heading.
use crate::hex;
use crate::modes::parse::{build_cmd_with, kind_name, EnvGuard};
use crate::sexp::Sx;
use clap::builder::{PossibleValue, PossibleValuesParser};
use clap::{Arg, Command};
use std::ffi::OsString;
use std::os::unix::ffi::{OsStrExt, OsStringExt};
use std::panic::{catch_unwind, AssertUnwindSafe};

fn arg_ext(a: Arg, items: &[Sx]) -> Arg {
    let mut a = a;
    for it in &items[1..] {
        if it.head() == "x-pv" {
            let pvs: Vec<PossibleValue> = it
                .args()
                .iter()
                .map(|p| {
                    let l = p.list();
                    let name = String::from_utf8(l[0].bytes()).expect("pv utf8");
                    PossibleValue::new(name).hide(l.len() > 1 && l[1].sym() == "h")
                })
                .collect();
            a = a.value_parser(PossibleValuesParser::new(pvs));
        }
        if it.head() == "x-ord" {
            // explicit display order / help heading: the sort data of the engine's final sort (stream `order`)
            a = a.display_order(it.args()[0].num() as usize);
        }
        if it.head() == "x-heading" {
            a = a.help_heading(String::from_utf8(it.args()[0].bytes()).expect("heading utf8"));
        }
        if it.head() == "x-hint" {
            // value hints switch on the path completers of engine/custom.rs (stream `paths`)
            let h = match it.args()[0].sym() {
                "AnyPath" => clap::ValueHint::AnyPath,
                "FilePath" => clap::ValueHint::FilePath,
                "DirPath" => clap::ValueHint::DirPath,
                "ExecutablePath" => clap::ValueHint::ExecutablePath,
                "Other" => clap::ValueHint::Other,
                _ => clap::ValueHint::Unknown,
            };
            a = a.value_hint(h);
        }
    }
    a
}

/// `(x-ord n)` on a command: its display order among the subcommands of its parent
fn cmd_ext(c: Command, items: &[Sx]) -> Command {
    let mut c = c;
    for it in &items[1..] {
        if it.head() == "x-ord" {
            c = c.display_order(it.args()[0].num() as usize);
        }
    }
    c
}

/// A small fixed directory for the path completers: created on demand, contents never depend on the case.
fn paths_dir() -> std::path::PathBuf {
    let d = std::env::temp_dir().join("vharness-paths");
    if !d.join("sub").is_dir() {
        let _ = std::fs::create_dir_all(d.join("sub").join("deep"));
        let _ = std::fs::create_dir_all(d.join(".hid"));
        let _ = std::fs::write(d.join("a.txt"), b"");
        let _ = std::fs::write(d.join("sub").join("b b.txt"), b"");
        let _ = std::fs::write(d.join("-dash"), b"");
    }
    d
}

fn build(spec: &Sx, env: &mut EnvGuard) -> Option<Command> {
    catch_unwind(AssertUnwindSafe(|| {
        let c = build_cmd_with(spec.args(), env, &arg_ext, &cmd_ext);
        let mut probe = c.clone();
        probe.build();
        c
    }))
    .ok()
}

fn argv_of(a: &Sx) -> Vec<OsString> {
    a.args().iter().map(|x| OsString::from_vec(x.bytes())).collect()
}

type Cands = Vec<(Vec<u8>, bool, Option<String>)>;

fn run_complete(cmd: &Command, argv: &[OsString], index: usize) -> Result<Cands, ()> {
    run_complete_in(cmd, argv, index, None)
}

fn run_complete_in(cmd: &Command, argv: &[OsString], index: usize, dir: Option<&std::path::Path>) -> Result<Cands, ()> {
    let mut c = cmd.clone();
    match clap_complete::engine::complete(&mut c, argv.to_vec(), index, dir) {
        Ok(v) => Ok(v
            .iter()
            .map(|c| (c.get_value().as_bytes().to_vec(), c.is_hide_set(), c.get_id().cloned()))
            .collect()),
        Err(_) => Err(()),
    }
}

fn show(r: &Result<Cands, ()>) -> String {
    match r {
        Err(()) => "err".into(),
        Ok(v) => {
            let mut s = String::from("ok");
            for (val, h, _) in v {
                s.push_str(&format!(" ({} {})", hex(val), if *h { "h" } else { "v" }));
            }
            s
        }
    }
}

fn parse_kind(cmd: &Command, line: Vec<OsString>) -> String {
    match catch_unwind(AssertUnwindSafe(|| cmd.clone().try_get_matches_from(line))) {
        Ok(Ok(_)) => "ok".into(),
        Ok(Err(e)) => kind_name(e.kind()).into(),
        Err(_) => "PANIC".into(),
    }
}

fn dump_tree(c: &Command) -> String {
    let mut s = format!("(c {} {}", hex(c.get_name().as_bytes()), if c.is_hide_set() { "h" } else { "v" });
    s.push_str(" (f");
    for (n, b) in [
        ("args_conflicts_with_subcommands", c.is_args_conflicts_with_subcommands_set()),
        ("subcommand_precedence_over_arg", c.is_subcommand_precedence_over_arg_set()),
        ("allow_external_subcommands", c.is_allow_external_subcommands_set()),
        ("allow_missing_positional", c.is_allow_missing_positional_set()),
        ("no_binary_name", c.is_no_binary_name_set()),
        ("multicall", c.is_multicall_set()),
        ("flagsub", c.get_short_flag().is_some() || c.get_long_flag().is_some()),
    ] {
        if b {
            s.push(' ');
            s.push_str(n);
        }
    }
    s.push(')');
    s.push_str(" (va");
    for a in c.get_visible_aliases() {
        s.push_str(&format!(" {}", hex(a.as_bytes())));
    }
    s.push_str(") (aa");
    for a in c.get_all_aliases() {
        s.push_str(&format!(" {}", hex(a.as_bytes())));
    }
    s.push(')');
    // flag-subcommand spellings: `--long-flag` (name and all aliases), `-s` (flag and all aliases)
    s.push_str(" (lf");
    if let Some(l) = c.get_long_flag() {
        s.push_str(&format!(" {}", hex(l.as_bytes())));
    }
    for l in c.get_all_long_flag_aliases() {
        s.push_str(&format!(" {}", hex(l.as_bytes())));
    }
    s.push_str(") (sf");
    if let Some(ch) = c.get_short_flag() {
        s.push_str(&format!(" {}", ch as u32));
    }
    for ch in c.get_all_short_flag_aliases() {
        s.push_str(&format!(" {}", ch as u32));
    }
    s.push(')');
    for a in c.get_arguments() {
        s.push_str(&format!(" (a {} {}", hex(a.get_id().as_str().as_bytes()), if a.is_hide_set() { "h" } else { "v" }));
        s.push_str(" (l");
        if let Some(l) = a.get_long() {
            s.push_str(&format!(" {}", hex(l.as_bytes())));
        }
        s.push_str(") (va");
        for l in a.get_visible_aliases().unwrap_or_default() {
            s.push_str(&format!(" {}", hex(l.as_bytes())));
        }
        s.push_str(") (aa");
        for l in a.get_all_aliases().unwrap_or_default() {
            s.push_str(&format!(" {}", hex(l.as_bytes())));
        }
        s.push_str(") (s");
        if let Some(ch) = a.get_short() {
            s.push_str(&format!(" {}", ch as u32));
        }
        s.push_str(") (vsa");
        for ch in a.get_visible_short_aliases().unwrap_or_default() {
            s.push_str(&format!(" {}", ch as u32));
        }
        s.push_str(") (asa");
        for ch in a.get_all_short_aliases().unwrap_or_default() {
            s.push_str(&format!(" {}", ch as u32));
        }
        s.push_str(") (f");
        for (n, b) in [
            ("hyphen", a.is_allow_hyphen_values_set()),
            ("negnum", a.is_allow_negative_numbers_set()),
            ("tva", a.is_trailing_var_arg_set()),
            ("last", a.is_last_set()),
            ("reqeq", a.is_require_equals_set()),
            ("term", a.get_value_terminator().is_some()),
            ("delim", a.get_value_delimiter().is_some()),
            ("positional", a.is_positional()),
            ("append", matches!(a.get_action(), clap::ArgAction::Append)),
        ] {
            if b {
                s.push(' ');
                s.push_str(n);
            }
        }
        let r = a.get_num_args();
        s.push_str(&format!(
            ") (n {} {}) (i {})",
            r.map(|r| r.min_values()).unwrap_or(0),
            r.map(|r| r.max_values()).unwrap_or(0),
            a.get_index().unwrap_or(0)
        ));
        // the value terminator itself (the oracle reads lines that contain it)
        if let Some(t) = a.get_value_terminator() {
            s.push_str(&format!(" (t {})", hex(t.as_str().as_bytes())));
        }
        s.push(')');
    }
    for sc in c.get_subcommands() {
        s.push(' ');
        s.push_str(&dump_tree(sc));
    }
    s.push(')');
    s
}

fn dyn_mode(a: &[Sx], accept: bool) -> String {
    if a.len() < 3 || a[0].head() != "cmd" || a[0].args().is_empty() || a[1].head() != "argv" || !matches!(a[2], Sx::Num(_)) {
        return "badcase".into();
    }
    let mut env = EnvGuard(vec![]);
    let cmd = match build(&a[0], &mut env) {
        Some(c) => c,
        None => return "INVALID".into(),
    };
    let argv = argv_of(&a[1]);
    let index = a[2].num() as usize;
    let res = run_complete(&cmd, &argv, index);
    let mut out = show(&res);
    if accept {
        let cut = index.min(argv.len());
        let prefix: Vec<OsString> = argv[..cut].to_vec();
        out.push_str(&format!(" ;; (prefix {})", parse_kind(&cmd, prefix.clone())));
        if index < argv.len() {
            let mut l = prefix.clone();
            l.push(argv[index].clone());
            out.push_str(&format!(" (word {})", parse_kind(&cmd, l)));
        } else {
            out.push_str(" (word none)");
        }
        out.push_str(" (acc");
        if let Ok(v) = &res {
            for (val, _, id) in v {
                let mut l = prefix.clone();
                l.push(OsString::from_vec(val.clone()));
                let id = id.as_ref().map(|i| hex(i.as_bytes())).unwrap_or_else(|| "none".into());
                out.push_str(&format!(" ({} {} {})", hex(val), parse_kind(&cmd, l), id));
            }
        }
        out.push(')');
        let mut built = cmd.clone();
        built.build();
        out.push_str(&format!(" (tree {})", dump_tree(&built)));
    }
    out
}

/// Returns `Some(result)` when `head` is a mode of this area.
/// `(dynpath (cmd ..) (argv ..) index)`: the engine with a current directory, so that value hints reach the path
/// completers; only "returned / no-completion error / panicked" and the number of candidates are reported.
fn dynpath_mode(a: &[Sx]) -> String {
    if a.len() < 3 || a[0].head() != "cmd" || a[0].args().is_empty() || a[1].head() != "argv" || !matches!(a[2], Sx::Num(_)) {
        return "badcase".into();
    }
    let mut env = EnvGuard(vec![]);
    let cmd = match build(&a[0], &mut env) {
        Some(c) => c,
        None => return "INVALID".into(),
    };
    let argv = argv_of(&a[1]);
    let index = a[2].num() as usize;
    let dir = paths_dir();
    match run_complete_in(&cmd, &argv, index, Some(dir.as_path())) {
        Ok(v) => format!("ok {}", v.len()),
        Err(()) => "err".into(),
    }
}

pub fn dispatch(head: &str, args: &[Sx]) -> Option<String> {
    match head {
        "dyn" | "dynorder" => Some(dyn_mode(args, false)),
        "dynaccept" => Some(dyn_mode(args, true)),
        "dynpath" => Some(dynpath_mode(args)),
        _ => None,
    }
}
