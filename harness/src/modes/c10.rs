//! Extra implementation-side modes for property C10 (the shared `parse` mode lives in parse.rs).
//!
//! * `(c10-kinds Name...)`           sweep of `ErrorKind` variants through `Command::error`,
//!                                   `Error::raw` and `Error::new`: stream and exit code of each
//! * `(c10-sugg (cmd ...) (argv ...))` parse and print kind/stream/code plus every suggestion the
//!                                   error carries in its context (`x-pv` extension: possible values)
//! * `(c10-dym xTOK (cands x...) (sims ...))`  the full `did_you_mean` vector, observed through
//!                                   `ContextKind::SuggestedSubcommand` of an invalid-subcommand error
//! * `(c10-flag (cmd ...) (arg xA) (rem x...) (sims ...))`  the result of `did_you_mean_flag`, observed
//!                                   through `SuggestedArg` / the "'sub --flag' exists" hint
use crate::hex;
use crate::modes::parse::{build_cmd_with, kind_name, EnvGuard};
use crate::sexp::Sx;
use clap::builder::PossibleValue;
use clap::error::{ContextKind, ContextValue, ErrorKind};
use clap::{Arg, Command};
use std::ffi::OsString;
use std::os::unix::ffi::OsStringExt;

fn kind_of(name: &str) -> Option<ErrorKind> {
    Some(match name {
        "InvalidValue" => ErrorKind::InvalidValue,
        "UnknownArgument" => ErrorKind::UnknownArgument,
        "InvalidSubcommand" => ErrorKind::InvalidSubcommand,
        "NoEquals" => ErrorKind::NoEquals,
        "ValueValidation" => ErrorKind::ValueValidation,
        "TooManyValues" => ErrorKind::TooManyValues,
        "TooFewValues" => ErrorKind::TooFewValues,
        "WrongNumberOfValues" => ErrorKind::WrongNumberOfValues,
        "ArgumentConflict" => ErrorKind::ArgumentConflict,
        "MissingRequiredArgument" => ErrorKind::MissingRequiredArgument,
        "MissingSubcommand" => ErrorKind::MissingSubcommand,
        "InvalidUtf8" => ErrorKind::InvalidUtf8,
        "DisplayHelp" => ErrorKind::DisplayHelp,
        "DisplayHelpOnMissingArgumentOrSubcommand" => ErrorKind::DisplayHelpOnMissingArgumentOrSubcommand,
        "DisplayVersion" => ErrorKind::DisplayVersion,
        "Io" => ErrorKind::Io,
        "Format" => ErrorKind::Format,
        _ => return None,
    })
}

fn stream_code(e: &clap::Error) -> String {
    format!("{} {}", if e.use_stderr() { "stderr" } else { "stdout" }, e.exit_code())
}

fn kinds(args: &[Sx]) -> String {
    let mut out = Vec::new();
    for a in args {
        let name = a.sym();
        match kind_of(name) {
            None => out.push(format!("({name} unknown)")),
            Some(k) => {
                let mut cmd = Command::new("p");
                let e1 = cmd.error(k, "m");
                let e2 = clap::Error::raw(k, "m");
                let e3 = clap::Error::new(k);
                let (s1, s2, s3) = (stream_code(&e1), stream_code(&e2), stream_code(&e3));
                // the kind reported back must be the one asked for
                let back = kind_name(e1.kind());
                if s1 == s2 && s2 == s3 && back == name {
                    out.push(format!("({name} {s1})"));
                } else {
                    out.push(format!("({name} inconsistent {s1} / {s2} / {s3} / {back})"));
                }
            }
        }
    }
    out.join(" ")
}

fn pv_ext(a: Arg, items: &[Sx]) -> Arg {
    let mut a = a;
    for it in &items[1..] {
        if it.head() == "x-pv" {
            let mut pvs = Vec::new();
            for v in it.args() {
                match v {
                    Sx::List(l) if !l.is_empty() && l[0].sym() == "hidden" => {
                        pvs.push(PossibleValue::new(l[1].string()).hide(true))
                    }
                    Sx::List(l) if !l.is_empty() && l[0].sym() == "alias" => {
                        pvs.push(PossibleValue::new(l[1].string()).alias(l[2].string()))
                    }
                    x => pvs.push(PossibleValue::new(x.string())),
                }
            }
            a = a.value_parser(pvs);
        }
    }
    a
}

fn strs(v: &ContextValue) -> Vec<String> {
    match v {
        ContextValue::String(s) => vec![s.clone()],
        ContextValue::Strings(l) => l.clone(),
        ContextValue::StyledStr(s) => vec![s.to_string()],
        ContextValue::StyledStrs(l) => l.iter().map(|s| s.to_string()).collect(),
        _ => vec![],
    }
}

fn hexes(l: &[String]) -> String {
    l.iter().map(|s| hex(s.as_bytes())).collect::<Vec<_>>().join(" ")
}

fn argv_of(x: &Sx) -> Vec<OsString> {
    x.args().iter().map(|t| OsString::from_vec(t.bytes())).collect()
}

fn sugg(a: &[Sx]) -> String {
    let mut env = EnvGuard(vec![]);
    let cmd = match std::panic::catch_unwind(std::panic::AssertUnwindSafe(|| {
        let c = build_cmd_with(a[0].args(), &mut env, &pv_ext, &|c, _| c);
        let mut probe = c.clone();
        probe.build();
        c
    })) {
        Ok(c) => c,
        Err(_) => return "INVALID".into(),
    };
    match cmd.try_get_matches_from(argv_of(&a[1])) {
        Ok(_) => "ok".into(),
        Err(e) => {
            let mut parts = vec![format!("err {} {}", kind_name(e.kind()), stream_code(&e))];
            for (k, v) in e.context() {
                let tag = match k {
                    ContextKind::SuggestedArg => "sarg",
                    ContextKind::SuggestedSubcommand => "ssub",
                    ContextKind::SuggestedValue => "sval",
                    ContextKind::SuggestedCommand => "scmd",
                    ContextKind::Suggested => "hint",
                    ContextKind::ValidSubcommand => "vsub",
                    ContextKind::ValidValue => "vval",
                    ContextKind::InvalidArg => "iarg",
                    ContextKind::InvalidSubcommand => "isub",
                    ContextKind::InvalidValue => "ival",
                    ContextKind::Usage => "usage",
                    _ => continue,
                };
                parts.push(format!("({} {})", tag, hexes(&strs(v))));
            }
            // rendering must not fail either
            let _ = e.render().to_string();
            parts.join(" ")
        }
    }
}

fn dym(a: &[Sx]) -> String {
    let tok = a[0].bytes();
    let mut cmd = Command::new("p").disable_help_subcommand(true).disable_help_flag(true);
    for c in a[1].args() {
        cmd = cmd.subcommand(Command::new(c.string()));
    }
    match cmd.try_get_matches_from(vec![OsString::from("p"), OsString::from_vec(tok)]) {
        Ok(_) => "matched".into(),
        Err(e) => {
            if e.kind() != ErrorKind::InvalidSubcommand {
                return format!("other {}", kind_name(e.kind()));
            }
            match e.get(ContextKind::SuggestedSubcommand) {
                Some(v) => format!("({})", hexes(&strs(v))),
                None => "()".into(),
            }
        }
    }
}

fn flag(a: &[Sx]) -> String {
    let mut env = EnvGuard(vec![]);
    let cmd = build_cmd_with(a[0].args(), &mut env, &|a, _| a, &|c, _| c);
    let mut argv = vec![OsString::from("prog")];
    let mut f = b"--".to_vec();
    f.extend(a[1].args()[0].bytes());
    argv.push(OsString::from_vec(f));
    argv.extend(argv_of(&a[2]));
    match cmd.try_get_matches_from(argv) {
        Ok(_) => "matched".into(),
        Err(e) => {
            if e.kind() != ErrorKind::UnknownArgument {
                return format!("other {}", kind_name(e.kind()));
            }
            if let Some(ContextValue::String(s)) = e.get(ContextKind::SuggestedArg) {
                return format!("(flag {} none)", hex(s.trim_start_matches('-').as_bytes()));
            }
            if let Some(v) = e.get(ContextKind::Suggested) {
                for h in strs(v) {
                    // "'<sub> --<flag>' exists"
                    if let Some(rest) = h.strip_suffix("' exists") {
                        if let Some(body) = rest.strip_prefix('\'') {
                            if let Some((sub, fl)) = body.split_once(" --") {
                                return format!("(flag {} {})", hex(fl.as_bytes()), hex(sub.as_bytes()));
                            }
                        }
                    }
                }
            }
            "none".into()
        }
    }
}

/// Returns `Some(result)` when `head` is a mode of this file.
pub fn dispatch(head: &str, args: &[Sx]) -> Option<String> {
    match head {
        "c10-kinds" => Some(kinds(args)),
        "c10-sugg" => Some(sugg(args)),
        "c10-dym" => Some(dym(args)),
        "c10-flag" => Some(flag(args)),
        _ => None,
    }
}
