//! Implementation runner for the `man` area (C19): build a `clap::Command` from the man spec of the
//! case, render it with the real `clap_mangen::Man`, print the page as hex.
//!
//! Case: `(man <spec>)`; a spec is `(cmd item ...)`, see `build_cmd` for the items.  The harness also renders
//! the spec's twin (`twin_of`: same tree, innocuous text) for the direct oracle.
//! Result: `(page x<hex>) (det true|false) (twin x<hex>)`; `INVALID <msg>` when clap's debug assertions
//! reject the command in `build` (not a valid command); a panic in clap_mangen is printed by main.rs as
//! `PANIC <msg>`, a panic while rendering only the twin as `(twin PANIC)`.
use crate::hex;
use crate::sexp::Sx;
use clap::builder::{PossibleValue, PossibleValuesParser};
use clap::{Arg, ArgAction, Command};
use std::panic::{catch_unwind, AssertUnwindSafe};

fn s(x: &Sx) -> String {
    String::from_utf8(x.bytes()).expect("spec strings are UTF-8")
}
fn ch(x: &Sx) -> char {
    let t = s(x);
    let mut it = t.chars();
    let c = it.next().expect("short: one char");
    assert!(it.next().is_none(), "short: one char");
    c
}

fn build_pv(items: &[Sx]) -> PossibleValue {
    let mut name = String::new();
    let mut help = None;
    let mut hide = false;
    for it in items {
        let l = it.args();
        match it.head() {
            "name" => name = s(&l[0]),
            "help" => help = Some(s(&l[0])),
            "hide" => hide = true,
            h => panic!("harness: unknown pv item {h}"),
        }
    }
    let mut pv = PossibleValue::new(name).hide(hide);
    if let Some(h) = help {
        pv = pv.help(h);
    }
    pv
}

fn build_arg(items: &[Sx]) -> Arg {
    let mut id = String::new();
    for it in items {
        if it.head() == "id" {
            id = s(&it.args()[0]);
        }
    }
    let mut a = Arg::new(id);
    let mut pvs: Vec<PossibleValue> = vec![];
    for it in items {
        let l = it.args();
        a = match it.head() {
            "id" => a,
            "short" => a.short(ch(&l[0])),
            "long" => a.long(s(&l[0])),
            "action" => a.action(match l[0].sym() {
                "set" => ArgAction::Set,
                "append" => ArgAction::Append,
                "settrue" => ArgAction::SetTrue,
                "setfalse" => ArgAction::SetFalse,
                "count" => ArgAction::Count,
                k => panic!("harness: unknown action {k}"),
            }),
            "num-args" => {
                let lo = l[0].num() as usize;
                if l[1].sym() == "max" {
                    a.num_args(lo..)
                } else {
                    a.num_args(lo..=(l[1].num() as usize))
                }
            }
            "value-names" => a.value_names(l.iter().map(s).collect::<Vec<_>>()),
            "help" => a.help(s(&l[0])),
            "long-help" => a.long_help(s(&l[0])),
            "hide" => a.hide(true),
            "hide-short-help" => a.hide_short_help(true),
            "hide-long-help" => a.hide_long_help(true),
            "hide-env" => a.hide_env(true),
            "hide-default" => a.hide_default_value(true),
            "hide-pvs" => a.hide_possible_values(true),
            "required" => a.required(true),
            "defaults" => a.default_values(l.iter().map(s).collect::<Vec<_>>()),
            "env" => a.env(s(&l[0])),
            "pv" => {
                pvs.push(build_pv(l));
                a
            }
            "heading" => a.help_heading(s(&l[0])),
            h => panic!("harness: unknown arg item {h}"),
        };
    }
    if !pvs.is_empty() {
        a = a.value_parser(PossibleValuesParser::new(pvs));
    }
    a
}

fn build_sub(items: &[Sx]) -> Command {
    let mut name = String::new();
    for it in items {
        if it.head() == "name" {
            name = s(&it.args()[0]);
        }
    }
    let mut c = Command::new(name);
    for it in items {
        let l = it.args();
        c = match it.head() {
            "name" => c,
            "about" => c.about(s(&l[0])),
            "long-about" => c.long_about(s(&l[0])),
            "hide" => c.hide(true),
            h => panic!("harness: unknown sub item {h}"),
        };
    }
    c
}

#[derive(Default)]
struct ManOpts {
    title: Option<String>,
    section: Option<String>,
    date: Option<String>,
    source: Option<String>,
    manual: Option<String>,
}

fn build_cmd(items: &[Sx]) -> (Command, ManOpts) {
    let mut name = String::new();
    for it in items {
        if it.head() == "name" {
            name = s(&it.args()[0]);
        }
    }
    let mut c = Command::new(name);
    let mut m = ManOpts::default();
    for it in items {
        let l = it.args();
        c = match it.head() {
            "name" => c,
            "display-name" => c.display_name(s(&l[0])),
            "bin-name" => c.bin_name(s(&l[0])),
            "version" => c.version(s(&l[0])),
            "long-version" => c.long_version(s(&l[0])),
            "author" => c.author(s(&l[0])),
            "about" => c.about(s(&l[0])),
            "long-about" => c.long_about(s(&l[0])),
            "after-help" => c.after_help(s(&l[0])),
            "after-long-help" => c.after_long_help(s(&l[0])),
            "before-long-help" => c.before_long_help(s(&l[0])),
            "sub-heading" => c.subcommand_help_heading(s(&l[0])),
            "sub-value-name" => c.subcommand_value_name(s(&l[0])),
            "sub-required" => c.subcommand_required(true),
            "no-help-flag" => c.disable_help_flag(true),
            "no-version-flag" => c.disable_version_flag(true),
            "no-help-sub" => c.disable_help_subcommand(true),
            "arg" => c.arg(build_arg(l)),
            "sub" => c.subcommand(build_sub(l)),
            "m-title" => {
                m.title = Some(s(&l[0]));
                c
            }
            "m-section" => {
                m.section = Some(s(&l[0]));
                c
            }
            "m-date" => {
                m.date = Some(s(&l[0]));
                c
            }
            "m-source" => {
                m.source = Some(s(&l[0]));
                c
            }
            "m-manual" => {
                m.manual = Some(s(&l[0]));
                c
            }
            h => panic!("harness: unknown cmd item {h}"),
        };
    }
    (c, m)
}

/// `Err(msg)`: the spec is not a valid command (clap's own debug assertions reject it in `build`).
fn render(spec: &Sx) -> Result<Vec<u8>, String> {
    let (cmd, m) = build_cmd(spec.args());
    let mut probe = cmd.clone();
    if let Err(p) = catch_unwind(AssertUnwindSafe(move || probe.build())) {
        let msg = if let Some(s) = p.downcast_ref::<&str>() {
            s.to_string()
        } else if let Some(s) = p.downcast_ref::<String>() {
            s.clone()
        } else {
            "?".to_string()
        };
        return Err(msg.replace(['\n', '\t'], " "));
    }
    let mut man = clap_mangen::Man::new(cmd);
    if let Some(t) = m.title {
        man = man.title(t);
    }
    if let Some(t) = m.section {
        man = man.section(t);
    }
    if let Some(t) = m.date {
        man = man.date(t);
    }
    if let Some(t) = m.source {
        man = man.source(t);
    }
    if let Some(t) = m.manual {
        man = man.manual(t);
    }
    let mut buf: Vec<u8> = vec![];
    man.render(&mut buf).expect("writing to a Vec");
    Ok(buf)
}

const FREE_TEXT: [&str; 8] = [
    "about", "long-about", "after-help", "after-long-help", "before-long-help", "help", "long-help", "author",
];
const SAFE_SHORTS: &str = "abcdefgijklmnopqrstuvwxyzABCDEFGHIJKLMNOPQRSTUWXYZ0123456789";

/// The same tree with innocuous text in every slot (used by the direct oracle): free text keeps its
/// number of lines and which of them are empty / blank, every other line becomes `xx`; name-like strings
/// are replaced consistently (`n<k>x`: equal strings stay equal, distinct ones distinct, empty stays
/// empty); shorts become safe letters.
fn twin_of(v: &Sx, names: &mut Vec<Vec<u8>>, shorts: &mut Vec<Vec<u8>>) -> Sx {
    let l = match v {
        Sx::List(l) if !l.is_empty() => l,
        _ => return v.clone(),
    };
    let head = v.head();
    let mut out = vec![l[0].clone()];
    match head {
        "cmd" | "arg" | "sub" | "pv" => {
            for x in &l[1..] {
                out.push(twin_of(x, names, shorts));
            }
        }
        "action" | "num-args" => return v.clone(),
        "short" => {
            for x in &l[1..] {
                let b = x.bytes();
                let k = match shorts.iter().position(|y| *y == b) {
                    Some(k) => k,
                    None => {
                        shorts.push(b);
                        shorts.len() - 1
                    }
                };
                let c = SAFE_SHORTS.as_bytes()[k % SAFE_SHORTS.len()];
                out.push(Sx::Bytes(vec![c]));
            }
        }
        h if FREE_TEXT.contains(&h) => {
            for x in &l[1..] {
                let t = s(x);
                let parts: Vec<&str> = t.split('\n').collect();
                let inn: Vec<&str> = parts
                    .iter()
                    .map(|p| if p.is_empty() { "" } else if p.trim().is_empty() { " " } else { "xx" })
                    .collect();
                out.push(Sx::Bytes(inn.join("\n").into_bytes()));
            }
        }
        _ => {
            for x in &l[1..] {
                let b = x.bytes();
                if b.is_empty() {
                    out.push(Sx::Bytes(vec![]));
                    continue;
                }
                let k = match names.iter().position(|y| *y == b) {
                    Some(k) => k,
                    None => {
                        names.push(b);
                        names.len() - 1
                    }
                };
                out.push(Sx::Bytes(format!("n{k}x").into_bytes()));
            }
        }
    }
    Sx::List(out)
}

fn man(args: &[Sx]) -> String {
    if args.is_empty() || args[0].head() != "cmd" {
        return "BADCASE".into();
    }
    // a malformed spec (e.g. produced by the shrinker: an item without its argument) is not a case
    if catch_unwind(AssertUnwindSafe(|| build_cmd(args[0].args()))).is_err() {
        return "BADCASE".into();
    }
    let page = match render(&args[0]) {
        Ok(p) => p,
        Err(msg) => return format!("INVALID {msg}"),
    };
    // determinism: a second, independent build + render of the same spec
    let again = render(&args[0]).unwrap_or_default();
    let mut out = format!("(page {}) (det {})", hex(&page), page == again);
    let twin = twin_of(&args[0], &mut vec![], &mut vec![]);
    match catch_unwind(AssertUnwindSafe(|| render(&twin))) {
        Ok(Ok(t)) => out.push_str(&format!(" (twin {})", hex(&t))),
        Ok(Err(_)) => out.push_str(" (twin INVALID)"),
        Err(_) => out.push_str(" (twin PANIC)"),
    }
    out
}

/// Returns `Some(result)` when `head` is a mode of this area.
pub fn dispatch(head: &str, args: &[Sx]) -> Option<String> {
    match head {
        "man" => Some(man(args)),
        _ => None,
    }
}
