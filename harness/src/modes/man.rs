//! Implementation runner for the `man` area (C19): build a `clap::Command` from the man spec of the
//! case, render it with the real `clap_mangen::Man`, print the page as hex.
//!
//! Case: `(man <spec> [<twin-spec>])`; a spec is `(cmd item ...)`, see `build_cmd` for the items.
//! Result: `(page x<hex>) (det true|false) [(twin x<hex>)]`; a panic anywhere is printed by main.rs as
//! `PANIC <msg>`, a panic while rendering only the twin as `(twin PANIC)`.
use crate::hex;
use crate::sexp::Sx;
use clap::builder::{PossibleValue, PossibleValuesParser};
use clap::{Arg, ArgAction, Command};
use std::panic::{catch_unwind, AssertUnwindSafe};

fn s(x: &Sx) -> String {
    String::from_utf8(x.bytes()).expect("spec strings are UTF-8")
}
fn ch(x: &Sx) -> char {
    let t = s(x);
    let mut it = t.chars();
    let c = it.next().expect("short: one char");
    assert!(it.next().is_none(), "short: one char");
    c
}

fn build_pv(items: &[Sx]) -> PossibleValue {
    let mut name = String::new();
    let mut help = None;
    let mut hide = false;
    for it in items {
        let l = it.args();
        match it.head() {
            "name" => name = s(&l[0]),
            "help" => help = Some(s(&l[0])),
            "hide" => hide = true,
            h => panic!("harness: unknown pv item {h}"),
        }
    }
    let mut pv = PossibleValue::new(name).hide(hide);
    if let Some(h) = help {
        pv = pv.help(h);
    }
    pv
}

fn build_arg(items: &[Sx]) -> Arg {
    let mut id = String::new();
    for it in items {
        if it.head() == "id" {
            id = s(&it.args()[0]);
        }
    }
    let mut a = Arg::new(id);
    let mut pvs: Vec<PossibleValue> = vec![];
    for it in items {
        let l = it.args();
        a = match it.head() {
            "id" => a,
            "short" => a.short(ch(&l[0])),
            "long" => a.long(s(&l[0])),
            "action" => a.action(match l[0].sym() {
                "set" => ArgAction::Set,
                "append" => ArgAction::Append,
                "settrue" => ArgAction::SetTrue,
                "setfalse" => ArgAction::SetFalse,
                "count" => ArgAction::Count,
                k => panic!("harness: unknown action {k}"),
            }),
            "num-args" => {
                let lo = l[0].num() as usize;
                if l[1].sym() == "max" {
                    a.num_args(lo..)
                } else {
                    a.num_args(lo..=(l[1].num() as usize))
                }
            }
            "value-names" => a.value_names(l.iter().map(s).collect::<Vec<_>>()),
            "help" => a.help(s(&l[0])),
            "long-help" => a.long_help(s(&l[0])),
            "hide" => a.hide(true),
            "hide-short-help" => a.hide_short_help(true),
            "hide-long-help" => a.hide_long_help(true),
            "hide-env" => a.hide_env(true),
            "hide-default" => a.hide_default_value(true),
            "hide-pvs" => a.hide_possible_values(true),
            "required" => a.required(true),
            "defaults" => a.default_values(l.iter().map(s).collect::<Vec<_>>()),
            "env" => a.env(s(&l[0])),
            "pv" => {
                pvs.push(build_pv(l));
                a
            }
            "heading" => a.help_heading(s(&l[0])),
            h => panic!("harness: unknown arg item {h}"),
        };
    }
    if !pvs.is_empty() {
        a = a.value_parser(PossibleValuesParser::new(pvs));
    }
    a
}

fn build_sub(items: &[Sx]) -> Command {
    let mut name = String::new();
    for it in items {
        if it.head() == "name" {
            name = s(&it.args()[0]);
        }
    }
    let mut c = Command::new(name);
    for it in items {
        let l = it.args();
        c = match it.head() {
            "name" => c,
            "about" => c.about(s(&l[0])),
            "long-about" => c.long_about(s(&l[0])),
            "hide" => c.hide(true),
            h => panic!("harness: unknown sub item {h}"),
        };
    }
    c
}

#[derive(Default)]
struct ManOpts {
    title: Option<String>,
    section: Option<String>,
    date: Option<String>,
    source: Option<String>,
    manual: Option<String>,
}

fn build_cmd(items: &[Sx]) -> (Command, ManOpts) {
    let mut name = String::new();
    for it in items {
        if it.head() == "name" {
            name = s(&it.args()[0]);
        }
    }
    let mut c = Command::new(name);
    let mut m = ManOpts::default();
    for it in items {
        let l = it.args();
        c = match it.head() {
            "name" => c,
            "display-name" => c.display_name(s(&l[0])),
            "bin-name" => c.bin_name(s(&l[0])),
            "version" => c.version(s(&l[0])),
            "long-version" => c.long_version(s(&l[0])),
            "author" => c.author(s(&l[0])),
            "about" => c.about(s(&l[0])),
            "long-about" => c.long_about(s(&l[0])),
            "after-help" => c.after_help(s(&l[0])),
            "after-long-help" => c.after_long_help(s(&l[0])),
            "before-long-help" => c.before_long_help(s(&l[0])),
            "sub-heading" => c.subcommand_help_heading(s(&l[0])),
            "sub-value-name" => c.subcommand_value_name(s(&l[0])),
            "sub-required" => c.subcommand_required(true),
            "no-help-flag" => c.disable_help_flag(true),
            "no-version-flag" => c.disable_version_flag(true),
            "no-help-sub" => c.disable_help_subcommand(true),
            "arg" => c.arg(build_arg(l)),
            "sub" => c.subcommand(build_sub(l)),
            "m-title" => {
                m.title = Some(s(&l[0]));
                c
            }
            "m-section" => {
                m.section = Some(s(&l[0]));
                c
            }
            "m-date" => {
                m.date = Some(s(&l[0]));
                c
            }
            "m-source" => {
                m.source = Some(s(&l[0]));
                c
            }
            "m-manual" => {
                m.manual = Some(s(&l[0]));
                c
            }
            h => panic!("harness: unknown cmd item {h}"),
        };
    }
    (c, m)
}

fn render(spec: &Sx) -> Vec<u8> {
    let (cmd, m) = build_cmd(spec.args());
    let mut man = clap_mangen::Man::new(cmd);
    if let Some(t) = m.title {
        man = man.title(t);
    }
    if let Some(t) = m.section {
        man = man.section(t);
    }
    if let Some(t) = m.date {
        man = man.date(t);
    }
    if let Some(t) = m.source {
        man = man.source(t);
    }
    if let Some(t) = m.manual {
        man = man.manual(t);
    }
    let mut buf: Vec<u8> = vec![];
    man.render(&mut buf).expect("writing to a Vec");
    buf
}

fn man(args: &[Sx]) -> String {
    let page = render(&args[0]);
    // determinism: a second, independent build + render of the same spec
    let again = render(&args[0]);
    let mut out = format!("(page {}) (det {})", hex(&page), page == again);
    if args.len() > 1 {
        match catch_unwind(AssertUnwindSafe(|| render(&args[1]))) {
            Ok(t) => out.push_str(&format!(" (twin {})", hex(&t))),
            Err(_) => out.push_str(" (twin PANIC)"),
        }
    }
    out
}

/// Returns `Some(result)` when `head` is a mode of this area.
pub fn dispatch(head: &str, args: &[Sx]) -> Option<String> {
    match head {
        "man" => Some(man(args)),
        _ => None,
    }
}
