//! Parser area (C01-C11): build a `clap::Command` from the case's command spec, parse the argv
//! with the real crate, print the canonical result.
use crate::hex;
use crate::sexp::Sx;
use clap::builder::{ArgPredicate, OsStr as ClapOsStr, ValueParser};
use clap::error::ErrorKind;
use clap::{value_parser, Arg, ArgAction, ArgGroup, ArgMatches, Command};
use std::ffi::OsString;
use std::os::unix::ffi::{OsStrExt, OsStringExt};
use std::panic::{catch_unwind, AssertUnwindSafe};

fn s(x: &Sx) -> String {
    String::from_utf8(x.bytes()).expect("spec strings are UTF-8")
}
fn os(x: &Sx) -> OsString {
    OsString::from_vec(x.bytes())
}
fn ch(x: &Sx) -> char {
    char::from_u32(x.num() as u32).expect("char")
}
fn vis(l: &[Sx]) -> bool {
    l.len() > 1 && l[1].sym() == "v"
}

fn vp_of(x: &Sx) -> ValueParser {
    match x {
        Sx::Sym(k) if k == "string" => value_parser!(String),
        Sx::Sym(k) if k == "os" => value_parser!(OsString),
        Sx::Sym(k) if k == "bool" => value_parser!(bool),
        Sx::Sym(k) if k == "count" => value_parser!(u8).into(),
        Sx::List(l) if l[0].sym() == "i64" => value_parser!(i64).range(l[1].inum()..=l[2].inum()).into(),
        Sx::Sym(k) if k == "boolish" => clap::builder::BoolishValueParser::new().into(),
        Sx::Sym(k) if k == "falsey" => clap::builder::FalseyValueParser::new().into(),
        Sx::Sym(k) if k == "nonempty" => clap::builder::NonEmptyStringValueParser::new().into(),
        // (pv (name alias..) (hide name alias..) ..)
        Sx::List(l) if l[0].sym() == "pv" => {
            let pvs: Vec<clap::builder::PossibleValue> = l[1..]
                .iter()
                .map(|x| {
                    let items = x.list();
                    let (hide, items) = match items.first() {
                        Some(Sx::Sym(h)) if h == "hide" => (true, &items[1..]),
                        _ => (false, items),
                    };
                    let mut pv = clap::builder::PossibleValue::new(s(&items[0])).hide(hide);
                    for al in &items[1..] {
                        pv = pv.alias(s(al));
                    }
                    pv
                })
                .collect();
            clap::builder::PossibleValuesParser::new(pvs).into()
        }
        // (int <type> lo hi) = value_parser!(T).range(lo..=hi)
        Sx::List(l) if l[0].sym() == "int" => {
            let (lo, hi) = (l[2].inum(), l[3].inum());
            match l[1].sym() {
                "u8" => value_parser!(u8).range(lo..=hi).into(),
                "i8" => value_parser!(i8).range(lo..=hi).into(),
                "u16" => value_parser!(u16).range(lo..=hi).into(),
                "i16" => value_parser!(i16).range(lo..=hi).into(),
                "u32" => value_parser!(u32).range(lo..=hi).into(),
                "i32" => value_parser!(i32).range(lo..=hi).into(),
                "i64" => value_parser!(i64).range(lo..=hi).into(),
                "u64" => value_parser!(u64).range(l[2].num()..=l[3].num()).into(),
                x => panic!("int type {x}"),
            }
        }
        _ => panic!("vp"),
    }
}

/// environment variables set for the duration of one case
pub struct EnvGuard(pub Vec<String>);
impl Drop for EnvGuard {
    fn drop(&mut self) {
        for k in &self.0 {
            std::env::remove_var(k);
        }
    }
}

pub fn build_arg(items: &[Sx], env: &mut EnvGuard) -> Arg {
    let mut a = Arg::new(s(&items[0]));
    for it in &items[1..] {
        let l = it.args();
        a = match it.head() {
            "short" => a.short(ch(&l[0])),
            "long" => a.long(s(&l[0])),
            "alias" => {
                if vis(l) {
                    a.visible_alias(s(&l[0]))
                } else {
                    a.alias(s(&l[0]))
                }
            }
            "salias" => {
                if vis(l) {
                    a.visible_short_alias(ch(&l[0]))
                } else {
                    a.short_alias(ch(&l[0]))
                }
            }
            "index" => a.index(l[0].num() as usize),
            "action" => a.action(match l[0].sym() {
                "set" => ArgAction::Set,
                "append" => ArgAction::Append,
                "settrue" => ArgAction::SetTrue,
                "setfalse" => ArgAction::SetFalse,
                "count" => ArgAction::Count,
                "help" => ArgAction::Help,
                "helpshort" => ArgAction::HelpShort,
                "helplong" => ArgAction::HelpLong,
                "version" => ArgAction::Version,
                x => panic!("action {x}"),
            }),
            "num" => {
                let lo = l[0].num() as usize;
                match &l[1] {
                    Sx::Sym(k) if k == "inf" => a.num_args(lo..),
                    n => a.num_args(lo..=(n.num() as usize)),
                }
            }
            "names" => {
                let k = l[0].num() as usize;
                a.value_names((0..k).map(|i| format!("N{i}")).collect::<Vec<_>>())
            }
            "delim" => a.value_delimiter(ch(&l[0])),
            "term" => a.value_terminator(s(&l[0])),
            "vp" => a.value_parser(vp_of(&l[0])),
            "flags" => {
                let mut a = a;
                for f in l {
                    a = match f.sym() {
                        "required" => a.required(true),
                        "global" => a.global(true),
                        "last" => a.last(true),
                        "tva" => a.trailing_var_arg(true),
                        "hyphen" => a.allow_hyphen_values(true),
                        "negnum" => a.allow_negative_numbers(true),
                        "reqeq" => a.require_equals(true),
                        "exclusive" => a.exclusive(true),
                        "hide" => a.hide(true),
                        "icase" => a.ignore_case(true),
                        x => panic!("flag {x}"),
                    };
                }
                a
            }
            "default" => a.default_values(l.iter().map(|x| ClapOsStr::from(os(x))).collect::<Vec<_>>()),
            "dmissing" => a.default_missing_values_os(l.iter().map(|x| ClapOsStr::from(os(x))).collect::<Vec<_>>()),
            "dif" => {
                let oid = s(&l[0]);
                let p = match &l[1] {
                    Sx::Sym(k) if k == "present" => ArgPredicate::IsPresent,
                    Sx::List(v) => ArgPredicate::Equals(ClapOsStr::from(os(&v[1]))),
                    _ => panic!("dif"),
                };
                if l.len() > 2 {
                    a.default_value_if(oid, p, ClapOsStr::from(os(&l[2])))
                } else {
                    a.default_value_if(oid, p, clap::builder::Resettable::Reset)
                }
            }
            "env" => {
                let name = s(&l[0]);
                if l.len() > 1 {
                    std::env::set_var(&name, os(&l[1]));
                    env.0.push(name.clone());
                } else {
                    std::env::remove_var(&name);
                }
                a.env(name)
            }
            "conflicts" => a.conflicts_with_all(l.iter().map(s).collect::<Vec<_>>()),
            "overrides" => a.overrides_with_all(l.iter().map(s).collect::<Vec<_>>()),
            "requires" => a.requires_ifs(l.iter().map(|x| (ArgPredicate::IsPresent, s(x))).collect::<Vec<_>>()),
            "requires_if" => a.requires_if(ClapOsStr::from(os(&l[0])), s(&l[1])),
            "r_if" => a.required_if_eq(s(&l[0]), ClapOsStr::from(os(&l[1]))),
            "r_if_all" => a.required_if_eq_all(
                l.iter().map(|p| (s(&p.list()[0]), ClapOsStr::from(os(&p.list()[1])))).collect::<Vec<_>>(),
            ),
            "r_unless" => a.required_unless_present_any(l.iter().map(s).collect::<Vec<_>>()),
            "r_unless_all" => a.required_unless_present_all(l.iter().map(s).collect::<Vec<_>>()),
            "groups" => a.groups(l.iter().map(s).collect::<Vec<_>>()),
            "help" => a.help(s(&l[0])),
            x if x.starts_with("x-") => a, // extension items of other areas (see build_cmd_with)
            x => panic!("arg item {x}"),
        };
    }
    a
}

fn build_group(items: &[Sx]) -> ArgGroup {
    let mut g = ArgGroup::new(s(&items[0]));
    for it in &items[1..] {
        let l = it.args();
        g = match it.head() {
            "args" => g.args(l.iter().map(s).collect::<Vec<_>>()),
            "required" => g.required(true),
            "multiple" => g.multiple(true),
            "requires" => g.requires_all(l.iter().map(s).collect::<Vec<_>>()),
            "conflicts" => g.conflicts_with_all(l.iter().map(s).collect::<Vec<_>>()),
            x => panic!("group item {x}"),
        };
    }
    g
}

pub fn build_cmd(items: &[Sx], env: &mut EnvGuard) -> Command {
    build_cmd_with(items, env, &|a, _| a, &|c, _| c)
}

/// `build_cmd` with extension callbacks: `arg_ext(arg, items of the arg)` and
/// `cmd_ext(command, items of the command)` are applied after the standard items; spec items
/// whose head starts with `x-` are ignored by the standard builder and left to the callbacks.
pub fn build_cmd_with(
    items: &[Sx],
    env: &mut EnvGuard,
    arg_ext: &dyn Fn(Arg, &[Sx]) -> Arg,
    cmd_ext: &dyn Fn(Command, &[Sx]) -> Command,
) -> Command {
    let mut c = Command::new(s(&items[0]));
    for it in &items[1..] {
        let l = it.args();
        c = match it.head() {
            "about" => c.about(s(&l[0])),
            "long_about" => c.long_about(s(&l[0])),
            "version" => c.version(s(&l[0])),
            "long_version" => c.long_version(s(&l[0])),
            "alias" => {
                if vis(l) {
                    c.visible_alias(s(&l[0]))
                } else {
                    c.alias(s(&l[0]))
                }
            }
            "short_flag" => c.short_flag(ch(&l[0])),
            "long_flag" => c.long_flag(s(&l[0])),
            "short_flag_alias" => {
                if vis(l) {
                    c.visible_short_flag_alias(ch(&l[0]))
                } else {
                    c.short_flag_alias(ch(&l[0]))
                }
            }
            "long_flag_alias" => {
                if vis(l) {
                    c.visible_long_flag_alias(s(&l[0]))
                } else {
                    c.long_flag_alias(s(&l[0]))
                }
            }
            "set" => {
                let mut c = c;
                for f in l {
                    c = match f.sym() {
                        "ignore_errors" => c.ignore_errors(true),
                        "args_override_self" => c.args_override_self(true),
                        "dont_delimit_trailing_values" => c.dont_delimit_trailing_values(true),
                        "infer_long_args" => c.infer_long_args(true),
                        "infer_subcommands" => c.infer_subcommands(true),
                        "no_binary_name" => c.no_binary_name(true),
                        "disable_help_flag" => c.disable_help_flag(true),
                        "disable_version_flag" => c.disable_version_flag(true),
                        "disable_help_subcommand" => c.disable_help_subcommand(true),
                        "propagate_version" => c.propagate_version(true),
                        "arg_required_else_help" => c.arg_required_else_help(true),
                        "allow_missing_positional" => c.allow_missing_positional(true),
                        "subcommand_required" => c.subcommand_required(true),
                        "allow_external_subcommands" => c.allow_external_subcommands(true),
                        "args_conflicts_with_subcommands" => c.args_conflicts_with_subcommands(true),
                        "subcommand_precedence_over_arg" => c.subcommand_precedence_over_arg(true),
                        "subcommand_negates_reqs" => c.subcommand_negates_reqs(true),
                        "hide" => c.hide(true),
                        x => panic!("setting {x}"),
                    };
                }
                c
            }
            "ext" => c.external_subcommand_value_parser(vp_of(&l[0])),
            "arg" => c.arg(arg_ext(build_arg(l, env), l)),
            "group" => c.group(build_group(l)),
            "sub" => c.subcommand(build_cmd_with(l[0].args(), env, arg_ext, cmd_ext)),
            x if x.starts_with("x-") => c,
            x => panic!("cmd item {x}"),
        };
    }
    cmd_ext(c, items)
}

pub fn kind_name(k: ErrorKind) -> &'static str {
    match k {
        ErrorKind::InvalidValue => "InvalidValue",
        ErrorKind::UnknownArgument => "UnknownArgument",
        ErrorKind::InvalidSubcommand => "InvalidSubcommand",
        ErrorKind::NoEquals => "NoEquals",
        ErrorKind::ValueValidation => "ValueValidation",
        ErrorKind::TooManyValues => "TooManyValues",
        ErrorKind::TooFewValues => "TooFewValues",
        ErrorKind::WrongNumberOfValues => "WrongNumberOfValues",
        ErrorKind::ArgumentConflict => "ArgumentConflict",
        ErrorKind::MissingRequiredArgument => "MissingRequiredArgument",
        ErrorKind::MissingSubcommand => "MissingSubcommand",
        ErrorKind::InvalidUtf8 => "InvalidUtf8",
        ErrorKind::DisplayHelp => "DisplayHelp",
        ErrorKind::DisplayHelpOnMissingArgumentOrSubcommand => "DisplayHelpOnMissingArgumentOrSubcommand",
        ErrorKind::DisplayVersion => "DisplayVersion",
        ErrorKind::Io => "Io",
        ErrorKind::Format => "Format",
        _ => "Other",
    }
}

pub fn show_matches(m: &ArgMatches) -> String {
    let mut out = String::from("(m");
    for id in m.ids() {
        let id = id.as_str();
        // ids that were propagated into a level where they are not defined make the
        // accessors panic in debug builds: print `?` for those
        let entry = catch_unwind(AssertUnwindSafe(|| {
            let src = match m.value_source(id) {
                Some(clap::parser::ValueSource::DefaultValue) => "default",
                Some(clap::parser::ValueSource::EnvVariable) => "env",
                Some(clap::parser::ValueSource::CommandLine) => "cmdline",
                None => "none",
                _ => "other",
            };
            let idx: Vec<String> = m.indices_of(id).map(|i| i.map(|x| x.to_string()).collect()).unwrap_or_default();
            let occ: Vec<String> = match m.try_get_raw_occurrences(id) {
                Ok(Some(o)) => o
                    .map(|g| format!("({})", g.map(|v| hex(v.as_bytes())).collect::<Vec<_>>().join(" ")))
                    .collect(),
                Ok(None) => vec![],
                Err(_) => vec!["?".into()],
            };
            format!("({} {} ({}) ({}))", hex(id.as_bytes()), src, idx.join(" "), occ.join(" "))
        }));
        out.push(' ');
        match entry {
            Ok(e) => out.push_str(&e),
            Err(_) => out.push_str(&format!("({} ?)", hex(id.as_bytes()))),
        }
    }
    if let Some((name, sm)) = m.subcommand() {
        out.push_str(&format!(" (sub {} {})", hex(name.as_bytes()), show_matches(sm)));
    }
    out.push(')');
    out
}

pub fn show_result(r: Result<ArgMatches, clap::Error>) -> String {
    match r {
        Ok(m) => format!("ok {}", show_matches(&m)),
        Err(e) => {
            let k = e.kind();
            let stream = if e.use_stderr() { "stderr" } else { "stdout" };
            let code = e.exit_code();
            // rendering must never panic (C01); the first line of a help screen identifies the level
            let rendered = e.render().to_string();
            let head = match k {
                ErrorKind::DisplayHelp | ErrorKind::DisplayHelpOnMissingArgumentOrSubcommand => {
                    format!(" {}", hex(rendered.lines().next().unwrap_or("").as_bytes()))
                }
                _ => String::new(),
            };
            format!("err {} {} {}{}", kind_name(k), stream, code, head)
        }
    }
}

/// `(parse (cmd ...) (argv x.. x..))`
pub fn parse(a: &[Sx]) -> String {
    if a.len() != 2 {
        return "badcase".into();
    }
    let mut env = EnvGuard(vec![]);
    let cmd = match catch_unwind(AssertUnwindSafe(|| {
        let c = build_cmd(a[0].args(), &mut env);
        let mut probe = c.clone();
        probe.build();
        c
    })) {
        Ok(c) => c,
        Err(p) => {
            if std::env::var_os("VH_DEBUG_INVALID").is_some() {
                let msg = p.downcast_ref::<String>().cloned().or_else(|| p.downcast_ref::<&str>().map(|s| s.to_string())).unwrap_or_default();
                return format!("INVALID {}", msg.replace(['\n', '\t'], " "));
            }
            return "INVALID".into();
        }
    };
    let argv: Vec<OsString> = a[1].args().iter().map(os).collect();
    show_result(cmd.try_get_matches_from(argv))
}
