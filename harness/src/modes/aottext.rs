//! Implementation runner for the `aottext` area (C17: descriptive text in completion scripts).
//!
//! Modes:
//!   (esc KIND xTEXT)                 -> the real escape function (hook `__verif_escape` /
//!                                       `__verif_single_line`) applied to TEXT: `xHEX` | `not-utf8` | `no-such-kind`
//!   (script SHELL (cmd NAME item*))  -> `(adv xSCRIPT) (inn xSCRIPT)`: the generated script with the
//!                                       texts of the spec, and with every text replaced by innocuous
//!                                       text of the same emptiness ("xx" / ""); for zsh also
//!                                       `(nodq xSCRIPT)`: the texts with every '"' deleted
//!   (strreplace xPAT xREP xS)       -> `str::replace` of Rust std: `xHEX`
//!   (lexport MACHINE STATE xINPUT xEXPECTED) -> EXPECTED as text (the python port's answer, compared
//!                                       by the runner with the extracted Coq lexer's answer)
use crate::sexp::Sx;
use clap::builder::PossibleValue;
use clap::{Arg, ArgAction, Command, ValueHint};

/// Returns `Some(result)` when `head` is a mode of this area.
pub fn dispatch(head: &str, args: &[Sx]) -> Option<String> {
    match head {
        "esc" => Some(esc(args)),
        "script" => Some(script(args)),
        "strreplace" => Some(strreplace(args)),
        "lexport" => Some(match args.get(3) {
            Some(e) => String::from_utf8_lossy(&e.bytes()).into_owned(),
            None => "badcase".into(),
        }),
        _ => None,
    }
}

fn esc(args: &[Sx]) -> String {
    if args.len() != 2 {
        return "badcase".into();
    }
    let kind = args[0].sym();
    let s = match String::from_utf8(args[1].bytes()) {
        Ok(s) => s,
        Err(_) => return "not-utf8".into(),
    };
    let out = if kind == "nushell_single_line" {
        Some(clap_complete_nushell::__verif_single_line(&s))
    } else {
        clap_complete::aot::__verif_escape(kind, &s)
    };
    match out {
        Some(o) => crate::hex(o.as_bytes()),
        None => "no-such-kind".into(),
    }
}

/// (strreplace xPAT xREP xS) -> Rust's `str::replace` itself (the model's `replace` is compared with it)
fn strreplace(args: &[Sx]) -> String {
    if args.len() != 3 {
        return "badcase".into();
    }
    match (String::from_utf8(args[0].bytes()), String::from_utf8(args[1].bytes()), String::from_utf8(args[2].bytes())) {
        (Ok(p), Ok(r), Ok(s)) => crate::hex(s.replace(p.as_str(), &r).as_bytes()),
        _ => "not-utf8".into(),
    }
}

/// How the texts of a spec are instantiated.
#[derive(Clone, Copy, PartialEq)]
enum Texts {
    /// as given
    Adversarial,
    /// innocuous text of the same emptiness
    Innocuous,
    /// as given, with every '"' deleted (used to recognise the known zsh tooltip finding exactly)
    NoDoubleQuote,
}

fn text(t: &Sx, mode: Texts) -> String {
    let b = t.bytes();
    match mode {
        Texts::Innocuous => {
            if b.is_empty() { String::new() } else { "xx".to_string() }
        }
        Texts::Adversarial => String::from_utf8(b).expect("texts are UTF-8"),
        Texts::NoDoubleQuote => {
            let s = String::from_utf8(b).expect("texts are UTF-8");
            let t = s.replace('"', "");
            if t.is_empty() && !s.is_empty() { "x".to_string() } else { t }
        }
    }
}

fn hint(name: &str) -> ValueHint {
    match name {
        "anypath" => ValueHint::AnyPath,
        "file" => ValueHint::FilePath,
        "dir" => ValueHint::DirPath,
        "exe" => ValueHint::ExecutablePath,
        "cmdname" => ValueHint::CommandName,
        "cmdstring" => ValueHint::CommandString,
        "user" => ValueHint::Username,
        "host" => ValueHint::Hostname,
        "url" => ValueHint::Url,
        "email" => ValueHint::EmailAddress,
        "other" => ValueHint::Other,
        _ => ValueHint::Unknown,
    }
}

fn build_arg(spec: &Sx, inn: Texts) -> Arg {
    let items = spec.args();
    let mut a = Arg::new(items[0].sym().to_string());
    let mut takes = false;
    let mut multi = false;
    let mut count = false;
    let mut pvs: Vec<PossibleValue> = vec![];
    for it in &items[1..] {
        let v = it.args();
        match it.head() {
            "short" => a = a.short(v[0].string().chars().next().unwrap()),
            "long" => a = a.long(v[0].sym().to_string()),
            "valias" => a = a.visible_alias(v[0].sym().to_string()),
            "vshort" => a = a.visible_short_alias(v[0].string().chars().next().unwrap()),
            "help" => a = a.help(text(&v[0], inn)),
            "long_help" => a = a.long_help(text(&v[0], inn)),
            "takes" => takes = true,
            "multi" => {
                takes = true;
                multi = true
            }
            "count" => count = true,
            "global" => a = a.global(true),
            "req" => a = a.required(true),
            "last" => a = a.last(true),
            "hide" => a = a.hide(true),
            "hint" => a = a.value_hint(hint(v[0].sym())),
            "pv" | "pvhide" => {
                let mut p = PossibleValue::new(v[0].sym().to_string());
                if v.len() > 1 {
                    p = p.help(text(&v[1], inn));
                }
                if it.head() == "pvhide" {
                    p = p.hide(true);
                }
                pvs.push(p);
            }
            "pos" => {
                takes = true;
            }
            other => panic!("bad arg item {other}"),
        }
    }
    a = if multi {
        a.action(ArgAction::Append).num_args(1..)
    } else if takes {
        a.action(ArgAction::Set)
    } else if count {
        a.action(ArgAction::Count)
    } else {
        a.action(ArgAction::SetTrue)
    };
    if !pvs.is_empty() {
        a = a.value_parser(pvs);
    }
    a
}

fn build_cmd(spec: &Sx, inn: Texts) -> Command {
    let items = spec.args();
    let mut c = Command::new(items[0].sym().to_string());
    for it in &items[1..] {
        let v = it.args();
        match it.head() {
            "about" => c = c.about(text(&v[0], inn)),
            "long_about" => c = c.long_about(text(&v[0], inn)),
            "before_help" => c = c.before_help(text(&v[0], inn)),
            "after_help" => c = c.after_help(text(&v[0], inn)),
            "before_long_help" => c = c.before_long_help(text(&v[0], inn)),
            "after_long_help" => c = c.after_long_help(text(&v[0], inn)),
            "alias" => c = c.visible_alias(v[0].sym().to_string()),
            "version" => c = c.version("1.0"),
            "nohelp" => c = c.disable_help_flag(true).disable_help_subcommand(true),
            "arg" => c = c.arg(build_arg(it, inn)),
            "sub" => c = c.subcommand(build_cmd(&v[0], inn)),
            other => panic!("bad cmd item {other}"),
        }
    }
    c
}

fn generate(shell: &str, mut cmd: Command) -> Vec<u8> {
    use clap_complete::aot::{generate, Shell};
    let mut buf: Vec<u8> = vec![];
    let name = cmd.get_name().to_string();
    match shell {
        "bash" => generate(Shell::Bash, &mut cmd, name, &mut buf),
        "zsh" => generate(Shell::Zsh, &mut cmd, name, &mut buf),
        "fish" => generate(Shell::Fish, &mut cmd, name, &mut buf),
        "powershell" => generate(Shell::PowerShell, &mut cmd, name, &mut buf),
        "elvish" => generate(Shell::Elvish, &mut cmd, name, &mut buf),
        "nushell" => generate(clap_complete_nushell::Nushell, &mut cmd, name, &mut buf),
        other => panic!("bad shell {other}"),
    }
    buf
}

fn script(args: &[Sx]) -> String {
    if args.len() != 2 || args[1].head() != "cmd" {
        return "badcase".into();
    }
    let shell = args[0].sym();
    let adv = generate(shell, build_cmd(&args[1], Texts::Adversarial));
    let inn = generate(shell, build_cmd(&args[1], Texts::Innocuous));
    let mut out = format!("(adv {}) (inn {})", crate::hex(&adv), crate::hex(&inn));
    if shell == "zsh" {
        let alt = generate(shell, build_cmd(&args[1], Texts::NoDoubleQuote));
        out.push_str(&format!(" (nodq {})", crate::hex(&alt)));
    }
    out
}
