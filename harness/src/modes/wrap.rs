//! Text wrapping (C20): textwrap::wrap, display_width, find_words_ascii_space, StyledStr::wrap
//! through the `--cfg clap_verif` hooks of clap_builder.
use crate::hex;
use crate::sexp::Sx;
use clap_builder::__verif as hooks;

fn tagged(tag: &str, items: &[String]) -> String {
    if items.is_empty() {
        format!("({tag})")
    } else {
        format!("({tag} {})", items.join(" "))
    }
}

fn segs(s: &str) -> String {
    let v: Vec<String> = hooks::styled_text_segments(s).iter().map(|(a, b)| format!("({a} {b})")).collect();
    tagged("segments", &v)
}

/// `(probe x<utf8>)`: per distinct character the width the implementation assigns to it
/// (display_width of the one-character string = unicode-width's value, 0 for control characters)
/// and the byte ranges of the text segments `StyledStr::iter_text` yields.
pub fn probe(a: &[Sx]) -> String {
    if a.len() != 1 {
        return "badcase".into();
    }
    let s = a[0].string();
    let mut seen: Vec<char> = vec![];
    let mut ws: Vec<String> = vec![];
    for ch in s.chars() {
        if !seen.contains(&ch) {
            seen.push(ch);
            ws.push(format!("({} {})", ch as u32, hooks::display_width(&ch.to_string())));
        }
    }
    format!("{} {}", tagged("widths", &ws), segs(&s))
}

/// `(wrap x<utf8> WIDTH (widths ...))`: the widths table is for the model side only.
pub fn wrap(a: &[Sx]) -> String {
    if a.len() != 3 {
        return "badcase".into();
    }
    let s = a[0].string();
    let w = a[1].num() as usize;
    let out = hooks::wrap(&s, w);
    let dw = hooks::display_width(&s);
    let mut lines: Vec<String> = vec![];
    for line in s.split_inclusive('\n') {
        let words = hooks::find_words(line);
        let v: Vec<String> = words.iter().map(|x| hex(x.as_bytes())).collect();
        lines.push(format!("({})", v.join(" ")));
    }
    format!("(out {}) (dw {}) {}", hex(out.as_bytes()), dw, tagged("words", &lines))
}

/// `(styled x<utf8 with ANSI sequences> WIDTH (widths ...) (segments (S E) ...))`
pub fn styled(a: &[Sx]) -> String {
    if a.len() != 4 {
        return "badcase".into();
    }
    let s = a[0].string();
    let w = a[1].num() as usize;
    let out = hooks::styled_wrap(&s, w);
    let dw = hooks::styled_display_width(&s);
    format!("(out {}) (sdw {}) {}", hex(out.as_bytes()), dw, segs(&s))
}

/// `(about x<utf8, may contain ANSI sequences> WIDTH)`: the text as `about` of a command rendered with
/// `term_width(WIDTH)`: observation of the same code through the public API (not used by a stream;
/// for replaying a finding by hand).
pub fn about(a: &[Sx]) -> String {
    if a.len() != 2 {
        return "badcase".into();
    }
    let s = a[0].string();
    let w = a[1].num() as usize;
    let mut cmd = clap::Command::new("p").about(s).after_help(a[0].string()).term_width(w).disable_help_flag(true);
    let h = cmd.render_help().ansi().to_string();
    format!("(help {})", hex(h.as_bytes()))
}
