//! clap_lex: OsStrExt helpers, RawArgs cursor (C14) and ParsedArg/ShortFlags (C13).
use crate::sexp::Sx;
use crate::{hex, hexlist};
use clap_lex::OsStrExt as _;
use std::ffi::{OsStr, OsString};
use std::io::SeekFrom;
use std::os::unix::ffi::{OsStrExt, OsStringExt};
use std::panic::{catch_unwind, AssertUnwindSafe};

fn opt<T>(o: Option<T>, f: impl Fn(T) -> String) -> String {
    match o {
        None => "none".into(),
        Some(x) => format!("(some {})", f(x)),
    }
}

pub fn osstr(a: &[Sx]) -> String {
    let hb = a[0].bytes();
    let nb = a[1].bytes();
    let h = OsStr::from_bytes(&hb);
    let n = std::str::from_utf8(&nb).expect("needle must be UTF-8");
    let find = opt(h.find(n), |i| i.to_string());
    let contains = h.contains(n);
    let sw = h.starts_with(n);
    let sp = opt(h.strip_prefix(n), |s| hex(s.as_bytes()));
    let so = opt(h.split_once(n), |(a, b)| format!("{} {}", hex(a.as_bytes()), hex(b.as_bytes())));
    // split panics on an empty needle (documented); a runaway iterator is cut off
    let spl = match catch_unwind(AssertUnwindSafe(|| {
        let mut v: Vec<Vec<u8>> = vec![];
        for p in h.split(n) {
            v.push(p.as_bytes().to_vec());
            if v.len() > hb.len() + 2 {
                return None;
            }
        }
        Some(v)
    })) {
        Err(_) => "panic".to_string(),
        Ok(None) => "outoffuel".to_string(),
        Ok(Some(v)) => hexlist(v.iter().map(|x| x.as_slice())),
    };
    format!("(find {find}) (contains {contains}) (starts_with {sw}) (strip_prefix {sp}) (split_once {so}) (split {spl})")
}

pub fn cursor(a: &[Sx]) -> String {
    let items: Vec<OsString> = a[0].list().iter().map(|x| OsString::from_vec(x.bytes())).collect();
    let mut raw = clap_lex::RawArgs::new(items);
    let mut cur = raw.cursor();
    let mut outs: Vec<String> = vec![];
    for op in a[1].list() {
        let l = op.list();
        let r = catch_unwind(AssertUnwindSafe(|| match op.head() {
            "next" => opt(raw.next_os(&mut cur), |s| hex(s.as_bytes())),
            "peek" => opt(raw.peek_os(&cur), |s| hex(s.as_bytes())),
            "remaining" => {
                let v: Vec<Vec<u8>> = raw.remaining(&mut cur).map(|s| s.as_bytes().to_vec()).collect();
                hexlist(v.iter().map(|x| x.as_slice()))
            }
            "is_end" => raw.is_end(&cur).to_string(),
            "seek_start" => {
                raw.seek(&mut cur, SeekFrom::Start(l[1].num()));
                "unit".into()
            }
            "seek_end" => {
                raw.seek(&mut cur, SeekFrom::End(l[1].inum()));
                "unit".into()
            }
            "seek_cur" => {
                raw.seek(&mut cur, SeekFrom::Current(l[1].inum()));
                "unit".into()
            }
            "insert" => {
                let xs: Vec<OsString> = l[1..].iter().map(|x| OsString::from_vec(x.bytes())).collect();
                raw.insert(&cur, xs);
                "unit".into()
            }
            h => format!("badop-{h}"),
        }));
        match r {
            Ok(s) => outs.push(s),
            Err(_) => {
                outs.push("panic".into());
                break;
            }
        }
    }
    outs.join(" ")
}
