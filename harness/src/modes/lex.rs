//! clap_lex: OsStrExt helpers, RawArgs cursor (C14) and ParsedArg/ShortFlags (C13).
use crate::sexp::Sx;
use crate::{hex, hexlist};
use clap_lex::OsStrExt as _;
use std::ffi::{OsStr, OsString};
use std::io::SeekFrom;
use std::os::unix::ffi::{OsStrExt, OsStringExt};
use std::panic::{catch_unwind, AssertUnwindSafe};

fn opt<T>(o: Option<T>, f: impl Fn(T) -> String) -> String {
    match o {
        None => "none".into(),
        Some(x) => format!("(some {})", f(x)),
    }
}

pub fn osstr(a: &[Sx]) -> String {
    let hb = a[0].bytes();
    let nb = a[1].bytes();
    let h = OsStr::from_bytes(&hb);
    let n = std::str::from_utf8(&nb).expect("needle must be UTF-8");
    let find = opt(h.find(n), |i| i.to_string());
    let contains = h.contains(n);
    let sw = h.starts_with(n);
    let sp = opt(h.strip_prefix(n), |s| hex(s.as_bytes()));
    let so = opt(h.split_once(n), |(a, b)| format!("{} {}", hex(a.as_bytes()), hex(b.as_bytes())));
    // split panics on an empty needle (documented); a runaway iterator is cut off
    let spl = match catch_unwind(AssertUnwindSafe(|| {
        let mut v: Vec<Vec<u8>> = vec![];
        for p in h.split(n) {
            v.push(p.as_bytes().to_vec());
            if v.len() > hb.len() + 2 {
                return None;
            }
        }
        Some(v)
    })) {
        Err(_) => "panic".to_string(),
        Ok(None) => "outoffuel".to_string(),
        Ok(Some(v)) => hexlist(v.iter().map(|x| x.as_slice())),
    };
    format!("(find {find}) (contains {contains}) (starts_with {sw}) (strip_prefix {sp}) (split_once {so}) (split {spl})")
}

pub fn cursor(a: &[Sx]) -> String {
    let items: Vec<OsString> = a[0].list().iter().map(|x| OsString::from_vec(x.bytes())).collect();
    let mut raw = clap_lex::RawArgs::new(items);
    let mut cur = raw.cursor();
    let mut outs: Vec<String> = vec![];
    for op in a[1].list() {
        let l = op.list();
        let r = catch_unwind(AssertUnwindSafe(|| match op.head() {
            "next" => opt(raw.next_os(&mut cur), |s| hex(s.as_bytes())),
            "peek" => opt(raw.peek_os(&cur), |s| hex(s.as_bytes())),
            "remaining" => {
                let v: Vec<Vec<u8>> = raw.remaining(&mut cur).map(|s| s.as_bytes().to_vec()).collect();
                hexlist(v.iter().map(|x| x.as_slice()))
            }
            "is_end" => raw.is_end(&cur).to_string(),
            "seek_start" => {
                raw.seek(&mut cur, SeekFrom::Start(l[1].num()));
                "unit".into()
            }
            "seek_end" => {
                raw.seek(&mut cur, SeekFrom::End(l[1].inum()));
                "unit".into()
            }
            "seek_cur" => {
                raw.seek(&mut cur, SeekFrom::Current(l[1].inum()));
                "unit".into()
            }
            "insert" => {
                let xs: Vec<OsString> = l[1..].iter().map(|x| OsString::from_vec(x.bytes())).collect();
                raw.insert(&cur, xs);
                "unit".into()
            }
            h => format!("badop-{h}"),
        }));
        match r {
            Ok(s) => outs.push(s),
            Err(_) => {
                outs.push("panic".into());
                break;
            }
        }
    }
    outs.join(" ")
}

// ---------------------------------------------------------------- C13: ParsedArg / ShortFlags

fn show_flag(f: Result<char, &OsStr>) -> String {
    match f {
        Ok(c) => format!("(ok {})", c as u32),
        Err(s) => format!("(err {})", hex(s.as_bytes())),
    }
}

/// `(lex x<bytes>)`: every `ParsedArg` method on one argument.
pub fn lex(a: &[Sx]) -> String {
    let raw = clap_lex::RawArgs::new([OsString::from_vec(a[0].bytes())]);
    let mut cur = raw.cursor();
    let arg = raw.next(&mut cur).expect("one argument");
    let to_value = match arg.to_value() {
        Ok(s) => format!("(ok {})", hex(s.as_bytes())),
        Err(s) => format!("(err {})", hex(s.as_bytes())),
    };
    let to_long = match arg.to_long() {
        None => "none".to_string(),
        Some((flag, value)) => {
            let f = match flag {
                Ok(s) => format!("(ok {})", hex(s.as_bytes())),
                Err(s) => format!("(err {})", hex(s.as_bytes())),
            };
            format!("(some {} {})", f, opt(value, |v| hex(v.as_bytes())))
        }
    };
    let to_short = match arg.to_short() {
        None => "none".to_string(),
        Some(sf) => {
            let value = opt(sf.clone().next_value_os(), |v| hex(v.as_bytes()));
            let mut walk = String::new();
            let mut c = sf.clone();
            let mut guard = 0usize;
            while let Some(x) = c.next_flag() {
                walk.push(' ');
                walk.push_str(&show_flag(x));
                guard += 1;
                if guard > a[0].bytes().len() + 2 {
                    walk = " outoffuel".into();
                    break;
                }
            }
            format!("(some (value {value}) (walk{walk}))")
        }
    };
    format!(
        "(is_empty {}) (is_stdio {}) (is_escape {}) (is_neg {}) (is_long {}) (is_short {}) (to_value {}) (to_long {}) (to_short {})",
        arg.is_empty(),
        arg.is_stdio(),
        arg.is_escape(),
        arg.is_negative_number(),
        arg.is_long(),
        arg.is_short(),
        to_value,
        to_long,
        to_short
    )
}

/// `(short x<remainder> (ops...))`: an interleaving of `ShortFlags` calls on the cluster `-<remainder>`.
pub fn short(a: &[Sx]) -> String {
    let rem = a[0].bytes();
    let mut argb = vec![b'-'];
    argb.extend_from_slice(&rem);
    let raw = clap_lex::RawArgs::new([OsString::from_vec(argb)]);
    let mut cur = raw.cursor();
    let arg = raw.next(&mut cur).expect("one argument");
    let mut sf = match arg.to_short() {
        None => return "noshort".into(),
        Some(sf) => sf,
    };
    let mut outs: Vec<String> = vec!["short".into()];
    for op in a[1].list() {
        let l = op.list();
        let r = catch_unwind(AssertUnwindSafe(|| match op.head() {
            "next_flag" => match sf.next_flag() {
                None => "none".to_string(),
                Some(x) => show_flag(x),
            },
            "next_value" => opt(sf.next_value_os(), |v| hex(v.as_bytes())),
            "advance" => match sf.advance_by(l[1].num() as usize) {
                Ok(()) => "ok".to_string(),
                Err(i) => format!("(err {i})"),
            },
            "is_empty" => sf.is_empty().to_string(),
            "is_neg" => sf.is_negative_number().to_string(),
            "clone-and-drain" => {
                let mut c = sf.clone();
                let mut s = String::from("(drain");
                let mut guard = 0usize;
                while let Some(x) = c.next_flag() {
                    s.push(' ');
                    s.push_str(&show_flag(x));
                    guard += 1;
                    if guard > rem.len() + 2 {
                        return "outoffuel".to_string();
                    }
                }
                s.push(')');
                s
            }
            h => format!("badop-{h}"),
        }));
        match r {
            Ok(s) => outs.push(s),
            Err(_) => {
                outs.push("panic".into());
                break;
            }
        }
    }
    outs.join(" ")
}
