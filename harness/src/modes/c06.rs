//! Extra implementation-side modes for property C06 (the shared `parse` mode lives in parse.rs).
//!
//! `(c06 (cmd ...) (argv ...))`        -> the `parse` result, and for an Ok result the value of
//!                                        `ArgMatches::args_present()` at every level of the chain:
//!                                        `ok (m ...) (present true false ...)`
//! `(c06pair (cmd A) (argv ...))`     -> `pair <result A> ;; <result B>` (same argv, same environment;
//!                                        B is A with the `default` / `dif` items of every argument removed)
use crate::modes::parse::{build_cmd, show_result, EnvGuard};
use crate::sexp::Sx;
use clap::ArgMatches;
use std::ffi::OsString;
use std::os::unix::ffi::OsStringExt;
use std::panic::{catch_unwind, AssertUnwindSafe};

fn os(x: &Sx) -> OsString {
    OsString::from_vec(x.bytes())
}

fn present_chain(m: &ArgMatches) -> String {
    let mut v = vec![];
    let mut cur = Some(m);
    while let Some(m) = cur {
        v.push(if m.args_present() { "true" } else { "false" });
        cur = m.subcommand().map(|(_, s)| s);
    }
    format!("(present {})", v.join(" "))
}

fn run_one(cmd_items: &[Sx], argv: &[Sx], with_present: bool) -> String {
    let mut env = EnvGuard(vec![]);
    let cmd = match catch_unwind(AssertUnwindSafe(|| {
        let c = build_cmd(cmd_items, &mut env);
        let mut probe = c.clone();
        probe.build();
        c
    })) {
        Ok(c) => c,
        Err(_) => return "INVALID".into(),
    };
    let argv: Vec<OsString> = argv.iter().map(os).collect();
    let r = cmd.try_get_matches_from(argv);
    let extra = match (&r, with_present) {
        (Ok(m), true) => format!(" {}", present_chain(m)),
        _ => String::new(),
    };
    format!("{}{}", show_result(r), extra)
}

/// the command spec without `(default ..)` and `(dif ..)` items (at every level)
fn strip_defaults(x: &Sx) -> Sx {
    match x {
        Sx::List(l) => Sx::List(
            l.iter()
                .filter(|it| !matches!(it, Sx::List(v) if !v.is_empty() && matches!(&v[0], Sx::Sym(h) if h == "default" || h == "dif")))
                .map(strip_defaults)
                .collect(),
        ),
        other => other.clone(),
    }
}

/// Returns `Some(result)` when `head` is a mode of this file.
pub fn dispatch(head: &str, args: &[Sx]) -> Option<String> {
    match head {
        "c06" => Some(run_one(args[0].args(), args[1].args(), true)),
        "c06pair" => {
            let a = match catch_unwind(AssertUnwindSafe(|| run_one(args[0].args(), args[1].args(), false))) {
                Ok(s) => s,
                Err(_) => "PANIC".into(),
            };
            let stripped = strip_defaults(&args[0]);
            let b = match catch_unwind(AssertUnwindSafe(|| run_one(stripped.args(), args[1].args(), false))) {
                Ok(s) => s,
                Err(_) => "PANIC".into(),
            };
            Some(format!("pair {a} ;; {b}"))
        }
        _ => None,
    }
}
