//! Implementation runner for the `aot` area (C16): ahead-of-time completion generators.
//!
//! `(aot SHELL BIN (cmd NAME item...))` builds the real `clap::Command` from the spec, calls
//! `clap_complete::aot::generate(shell, &mut cmd, bin, &mut buf)` on fresh copies (twice) and on the
//! already built command (once more) and prints
//! `(det true|false) (script x<hex>) (built <dump of the BUILT command through public API>)`.
//! A panic anywhere is caught by `main.rs` and printed as `PANIC <msg>`.
use crate::hex;
use crate::sexp::Sx;
use clap::builder::PossibleValuesParser;
use clap::{Arg, ArgAction, Command, ValueHint};
use clap_complete::aot::{generate, Shell};

fn s(x: &Sx) -> String {
    x.string()
}

fn ch(x: &Sx) -> char {
    x.string().chars().next().expect("non-empty char")
}

fn hint_of(name: &str) -> ValueHint {
    match name {
        "Unknown" => ValueHint::Unknown,
        "Other" => ValueHint::Other,
        "AnyPath" => ValueHint::AnyPath,
        "FilePath" => ValueHint::FilePath,
        "DirPath" => ValueHint::DirPath,
        "ExecutablePath" => ValueHint::ExecutablePath,
        "CommandName" => ValueHint::CommandName,
        "CommandString" => ValueHint::CommandString,
        "CommandWithArguments" => ValueHint::CommandWithArguments,
        "Username" => ValueHint::Username,
        "Hostname" => ValueHint::Hostname,
        "Url" => ValueHint::Url,
        "EmailAddress" => ValueHint::EmailAddress,
        h => panic!("spec: unknown hint {h}"),
    }
}

fn build_arg(items: &[Sx]) -> Arg {
    let mut a = Arg::new(s(&items[0]));
    let mut pvs: Vec<clap::builder::PossibleValue> = vec![];
    let mut has_pvs = false;
    let mut action = ArgAction::Set;
    for it in &items[1..] {
        let l = it.args();
        a = match it.head() {
            "s" => a.short(ch(&l[0])),
            "l" => a.long(s(&l[0])),
            "vsa" => a.visible_short_alias(ch(&l[0])),
            "hsa" => a.short_alias(ch(&l[0])),
            "vla" => a.visible_alias(s(&l[0])),
            "hla" => a.alias(s(&l[0])),
            "act" => {
                action = match l[0].sym() {
                    "set" => ArgAction::Set,
                    "append" => ArgAction::Append,
                    "flag" => ArgAction::SetTrue,
                    "flagfalse" => ArgAction::SetFalse,
                    "count" => ArgAction::Count,
                    x => panic!("spec: unknown action {x}"),
                };
                a
            }
            "num" => a.num_args((l[0].num() as usize)..=(l[1].num() as usize)),
            "pv" => {
                has_pvs = true;
                pvs.push(clap::builder::PossibleValue::new(s(&l[0])));
                a
            }
            "hpv" => {
                has_pvs = true;
                pvs.push(clap::builder::PossibleValue::new(s(&l[0])).hide(true));
                a
            }
            "hint" => a.value_hint(hint_of(l[0].sym())),
            "global" => a.global(true),
            "hide" => a.hide(true),
            "required" => a.required(true),
            h => panic!("spec: unknown arg item {h}"),
        };
    }
    a = a.action(action);
    if has_pvs {
        a = a.value_parser(PossibleValuesParser::new(pvs));
    }
    a
}

pub fn build_cmd(items: &[Sx]) -> Command {
    let mut c = Command::new(s(&items[0]));
    for it in &items[1..] {
        let l = it.args();
        c = match it.head() {
            "va" => c.visible_alias(s(&l[0])),
            "ha" => c.alias(s(&l[0])),
            "hide" => c.hide(true),
            "version" => c.version("1"),
            "propagate-version" => c.propagate_version(true),
            "no-help-flag" => c.disable_help_flag(true),
            "no-version-flag" => c.disable_version_flag(true),
            "no-help-sub" => c.disable_help_subcommand(true),
            "arg" => c.arg(build_arg(l)),
            "cmd" => c.subcommand(build_cmd(l)),
            h => panic!("spec: unknown cmd item {h}"),
        };
    }
    c
}

fn shell_gen(shell: &str, cmd: &mut Command, bin: &str) -> Vec<u8> {
    let mut buf: Vec<u8> = vec![];
    match shell {
        "bash" => generate(Shell::Bash, cmd, bin, &mut buf),
        "zsh" => generate(Shell::Zsh, cmd, bin, &mut buf),
        "fish" => generate(Shell::Fish, cmd, bin, &mut buf),
        "powershell" => generate(Shell::PowerShell, cmd, bin, &mut buf),
        "elvish" => generate(Shell::Elvish, cmd, bin, &mut buf),
        "nushell" => generate(clap_complete_nushell::Nushell, cmd, bin, &mut buf),
        x => panic!("spec: unknown shell {x}"),
    }
    buf
}

fn vis_list<'a>(all: Vec<String>, visible: Vec<String>) -> String {
    let v: Vec<String> = all
        .iter()
        .map(|a| format!("({} {})", if visible.contains(a) { "v" } else { "h" }, hex(a.as_bytes())))
        .collect();
    v.join(" ")
}

fn opt_hex(o: Option<String>) -> String {
    match o {
        Some(x) => hex(x.as_bytes()),
        None => "none".into(),
    }
}

fn dump_arg(a: &Arg) -> String {
    let takes = a.get_num_args().map(|r| r.takes_values()).unwrap_or(false);
    let sa = vis_list(
        a.get_all_short_aliases().unwrap_or_default().iter().map(|c| c.to_string()).collect(),
        a.get_visible_short_aliases().unwrap_or_default().iter().map(|c| c.to_string()).collect(),
    );
    let la = vis_list(
        a.get_all_aliases().unwrap_or_default().iter().map(|c| c.to_string()).collect(),
        a.get_visible_aliases().unwrap_or_default().iter().map(|c| c.to_string()).collect(),
    );
    let pvs = if !takes {
        "none".to_string()
    } else {
        match a.get_value_parser().possible_values() {
            None => "none".to_string(),
            Some(it) => {
                let v: Vec<String> = it
                    .map(|pv| format!("({} {})", if pv.is_hide_set() { "h" } else { "v" }, hex(pv.get_name().as_bytes())))
                    .collect();
                format!("(some{}{})", if v.is_empty() { "" } else { " " }, v.join(" "))
            }
        }
    };
    format!(
        "(arg {} (s {}) (l {}) (sa{}{}) (la{}{}) {} {} (pvs {}) (hint {:?}) {} {})",
        hex(a.get_id().as_str().as_bytes()),
        opt_hex(a.get_short().map(|c| c.to_string())),
        opt_hex(a.get_long().map(|c| c.to_string())),
        if sa.is_empty() { "" } else { " " },
        sa,
        if la.is_empty() { "" } else { " " },
        la,
        if takes { "tv" } else { "fl" },
        if a.is_positional() { "pos" } else { "opt" },
        pvs,
        a.get_value_hint(),
        if a.is_hide_set() { "hidden" } else { "shown" },
        if a.is_global_set() { "global" } else { "local" },
    )
}

fn dump_cmd(c: &Command) -> String {
    let al = vis_list(
        c.get_all_aliases().map(|x| x.to_string()).collect(),
        c.get_visible_aliases().map(|x| x.to_string()).collect(),
    );
    let args: Vec<String> = c.get_arguments().map(dump_arg).collect();
    let subs: Vec<String> = c.get_subcommands().map(dump_cmd).collect();
    format!(
        "(node {} {} {} (al{}{}) (args{}{}) (subs{}{}))",
        hex(c.get_name().as_bytes()),
        opt_hex(c.get_bin_name().map(|x| x.to_string())),
        if c.is_hide_set() { "hidden" } else { "shown" },
        if al.is_empty() { "" } else { " " },
        al,
        if args.is_empty() { "" } else { " " },
        args.join(" "),
        if subs.is_empty() { "" } else { " " },
        subs.join(" "),
    )
}

fn aot(args: &[Sx]) -> String {
    let shell = args[0].sym();
    let bin = s(&args[1]);
    let spec = args[2].args();
    let mut c1 = build_cmd(spec);
    let s1 = shell_gen(shell, &mut c1, &bin);
    let mut c2 = build_cmd(spec);
    let s2 = shell_gen(shell, &mut c2, &bin);
    // once more on the command that is already built
    let s3 = shell_gen(shell, &mut c1, &bin);
    let det = s1 == s2 && s1 == s3;
    // the BUILT command, through public API only
    let mut c3 = build_cmd(spec);
    c3.set_bin_name(bin.clone());
    c3.build();
    format!("(det {det}) (script {}) (built {})", hex(&s1), dump_cmd(&c3))
}

/// Returns `Some(result)` when `head` is a mode of this area.
pub fn dispatch(head: &str, args: &[Sx]) -> Option<String> {
    match head {
        "aot" => Some(aot(args)),
        _ => None,
    }
}
