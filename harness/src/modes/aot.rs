//! Implementation runner for the `aot` area: add the modes of this area to `dispatch`.
use crate::sexp::Sx;

/// Returns `Some(result)` when `head` is a mode of this area.
pub fn dispatch(head: &str, args: &[Sx]) -> Option<String> {
    let _ = (head, args);
    None
}
