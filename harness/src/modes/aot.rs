//! Implementation runner for the `aot` area (C16): ahead-of-time completion generators.
//!
//! `(aot SHELL BIN (cmd NAME item...))` builds the real `clap::Command` from the spec, calls
//! `clap_complete::aot::generate(shell, &mut cmd, bin, &mut buf)` on fresh copies (twice) and on the
//! already built command (once more) and prints
//! `(det true|false) (script x<hex>) (built <dump of the BUILT command through public API>)`.
//! A panic anywhere is caught by `main.rs` and printed as `PANIC <msg>`.
use crate::hex;
use crate::sexp::Sx;
use clap::builder::PossibleValuesParser;
use clap::{Arg, ArgAction, Command, ValueHint};
use clap_complete::aot::{generate, Shell};

fn op(l: &[Sx]) -> &Sx {
    l.first().unwrap_or_else(|| panic!("spec: missing operand"))
}

fn s(x: &Sx) -> String {
    match x {
        Sx::Bytes(b) => String::from_utf8(b.clone()).unwrap_or_else(|_| panic!("spec: not UTF-8")),
        _ => panic!("spec: expected a byte string"),
    }
}

fn ch(x: &Sx) -> char {
    s(x).chars().next().unwrap_or_else(|| panic!("spec: empty char"))
}

fn hint_of(name: &str) -> ValueHint {
    match name {
        "Unknown" => ValueHint::Unknown,
        "Other" => ValueHint::Other,
        "AnyPath" => ValueHint::AnyPath,
        "FilePath" => ValueHint::FilePath,
        "DirPath" => ValueHint::DirPath,
        "ExecutablePath" => ValueHint::ExecutablePath,
        "CommandName" => ValueHint::CommandName,
        "CommandString" => ValueHint::CommandString,
        "CommandWithArguments" => ValueHint::CommandWithArguments,
        "Username" => ValueHint::Username,
        "Hostname" => ValueHint::Hostname,
        "Url" => ValueHint::Url,
        "EmailAddress" => ValueHint::EmailAddress,
        h => panic!("spec: unknown hint {h}"),
    }
}

fn build_arg(items: &[Sx]) -> Arg {
    let mut a = Arg::new(s(op(items)));
    let mut pvs: Vec<clap::builder::PossibleValue> = vec![];
    let mut has_pvs = false;
    let mut action = ArgAction::Set;
    for it in &items[1..] {
        let l = it.args();
        a = match it.head() {
            "s" => a.short(ch(op(l))),
            "l" => a.long(s(op(l))),
            "vsa" => a.visible_short_alias(ch(op(l))),
            "hsa" => a.short_alias(ch(op(l))),
            "vla" => a.visible_alias(s(op(l))),
            "hla" => a.alias(s(op(l))),
            "act" => {
                action = match op(l).sym() {
                    "set" => ArgAction::Set,
                    "append" => ArgAction::Append,
                    "flag" => ArgAction::SetTrue,
                    "flagfalse" => ArgAction::SetFalse,
                    "count" => ArgAction::Count,
                    x => panic!("spec: unknown action {x}"),
                };
                a
            }
            "num" => {
                if l.len() != 2 {
                    panic!("spec: num needs two operands");
                }
                a.num_args((l[0].num() as usize)..=(l[1].num() as usize))
            }
            "pv" => {
                has_pvs = true;
                pvs.push(clap::builder::PossibleValue::new(s(op(l))));
                a
            }
            "hpv" => {
                has_pvs = true;
                pvs.push(clap::builder::PossibleValue::new(s(op(l))).hide(true));
                a
            }
            "hint" => a.value_hint(hint_of(op(l).sym())),
            "global" => a.global(true),
            "hide" => a.hide(true),
            "required" => a.required(true),
            // conflicts_with_all: only the zsh generator reads it (exclusion lists)
            "cx" => a.conflicts_with_all(l.iter().map(|x| s(x)).collect::<Vec<String>>()),
            // round 4: value_names (zsh option specs; Arg::_build's default num_args; bash's Display of a positional),
            // value_terminator and last (zsh positional specs), groups(..) = the ArgGroups _build_self makes (targets of
            // conflicts_with in zsh exclusion lists)
            "vn" => a.value_names(l.iter().map(|x| s(x)).collect::<Vec<String>>()),
            "term" => a.value_terminator(s(op(l))),
            "last" => a.last(true),
            "grp" => a.groups(l.iter().map(|x| s(x)).collect::<Vec<String>>()),
            // descriptive text (read by the generator-model streams that compare whole scripts; not dumped)
            "help" => a.help(s(op(l))),
            h => panic!("spec: unknown arg item {h}"),
        };
    }
    a = a.action(action);
    if has_pvs {
        a = a.value_parser(PossibleValuesParser::new(pvs));
    }
    a
}

pub fn build_cmd(items: &[Sx]) -> Command {
    let mut c = Command::new(s(op(items)));
    for it in &items[1..] {
        let l = it.args();
        c = match it.head() {
            "va" => c.visible_alias(s(op(l))),
            "ha" => c.alias(s(op(l))),
            "hide" => c.hide(true),
            "version" => c.version("1"),
            "propagate-version" => c.propagate_version(true),
            "no-help-flag" => c.disable_help_flag(true),
            "no-version-flag" => c.disable_version_flag(true),
            "no-help-sub" => c.disable_help_subcommand(true),
            "arg" => c.arg(build_arg(l)),
            "cmd" => c.subcommand(build_cmd(l)),
            "about" => c.about(s(op(l))),
            h => panic!("spec: unknown cmd item {h}"),
        };
    }
    c
}

fn shell_gen(shell: &str, cmd: &mut Command, bin: &str) -> Vec<u8> {
    let mut buf: Vec<u8> = vec![];
    match shell {
        "bash" => generate(Shell::Bash, cmd, bin, &mut buf),
        "zsh" => generate(Shell::Zsh, cmd, bin, &mut buf),
        "fish" => generate(Shell::Fish, cmd, bin, &mut buf),
        "powershell" => generate(Shell::PowerShell, cmd, bin, &mut buf),
        "elvish" => generate(Shell::Elvish, cmd, bin, &mut buf),
        "nushell" => generate(clap_complete_nushell::Nushell, cmd, bin, &mut buf),
        x => panic!("spec: unknown shell {x}"),
    }
    buf
}

fn vis_list<'a>(all: Vec<String>, visible: Vec<String>) -> String {
    let v: Vec<String> = all
        .iter()
        .map(|a| format!("({} {})", if visible.contains(a) { "v" } else { "h" }, hex(a.as_bytes())))
        .collect();
    v.join(" ")
}

fn opt_hex(o: Option<String>) -> String {
    match o {
        Some(x) => hex(x.as_bytes()),
        None => "none".into(),
    }
}

fn dump_arg(a: &Arg) -> String {
    let takes = a.get_num_args().map(|r| r.takes_values()).unwrap_or(false);
    let sa = vis_list(
        a.get_all_short_aliases().unwrap_or_default().iter().map(|c| c.to_string()).collect(),
        a.get_visible_short_aliases().unwrap_or_default().iter().map(|c| c.to_string()).collect(),
    );
    let la = vis_list(
        a.get_all_aliases().unwrap_or_default().iter().map(|c| c.to_string()).collect(),
        a.get_visible_aliases().unwrap_or_default().iter().map(|c| c.to_string()).collect(),
    );
    let pvs = if !takes {
        "none".to_string()
    } else {
        match a.get_value_parser().possible_values() {
            None => "none".to_string(),
            Some(it) => {
                let v: Vec<String> = it
                    .map(|pv| format!("({} {})", if pv.is_hide_set() { "h" } else { "v" }, hex(pv.get_name().as_bytes())))
                    .collect();
                format!("(some{}{})", if v.is_empty() { "" } else { " " }, v.join(" "))
            }
        }
    };
    format!(
        "(arg {} (s {}) (l {}) (sa{}{}) (la{}{}) {} {} (num {} {}) (pvs {}) (hint {:?}) {} {})",
        hex(a.get_id().as_str().as_bytes()),
        opt_hex(a.get_short().map(|c| c.to_string())),
        opt_hex(a.get_long().map(|c| c.to_string())),
        if sa.is_empty() { "" } else { " " },
        sa,
        if la.is_empty() { "" } else { " " },
        la,
        if takes { "tv" } else { "fl" },
        if a.is_positional() { "pos" } else { "opt" },
        a.get_num_args().map(|r| r.min_values()).unwrap_or(0),
        a.get_num_args().map(|r| r.max_values()).unwrap_or(0),
        pvs,
        a.get_value_hint(),
        if a.is_hide_set() { "hidden" } else { "shown" },
        if a.is_global_set() { "global" } else { "local" },
    )
}

fn dump_cmd(c: &Command) -> String {
    let al = vis_list(
        c.get_all_aliases().map(|x| x.to_string()).collect(),
        c.get_visible_aliases().map(|x| x.to_string()).collect(),
    );
    let args: Vec<String> = c.get_arguments().map(dump_arg).collect();
    let subs: Vec<String> = c.get_subcommands().map(dump_cmd).collect();
    format!(
        "(node {} {} {} (al{}{}) (args{}{}) (subs{}{}))",
        hex(c.get_name().as_bytes()),
        opt_hex(c.get_bin_name().map(|x| x.to_string())),
        if c.is_hide_set() { "hidden" } else { "shown" },
        if al.is_empty() { "" } else { " " },
        al,
        if args.is_empty() { "" } else { " " },
        args.join(" "),
        if subs.is_empty() { "" } else { " " },
        subs.join(" "),
    )
}

fn run_bash(args: &[&str], input: &[u8], dir: &std::path::Path) -> (bool, Vec<u8>) {
    use std::io::Write as _;
    use std::process::{Command as P, Stdio};
    let mut child = P::new("bash")
        .args(args)
        .current_dir(dir)
        .env_clear()
        .env("PATH", "/usr/bin:/bin")
        .stdin(Stdio::piped())
        .stdout(Stdio::piped())
        .stderr(Stdio::null())
        .spawn()
        .expect("spawn bash");
    let mut stdin = child.stdin.take().unwrap();
    let data = input.to_vec();
    let t = std::thread::spawn(move || {
        let _ = stdin.write_all(&data);
    });
    let out = child.wait_with_output().expect("bash output");
    let _ = t.join();
    (out.status.success(), out.stdout)
}

fn shell_quote(w: &[u8]) -> Vec<u8> {
    let mut o = vec![b'\''];
    for &c in w {
        if c == b'\'' {
            o.extend_from_slice(b"'\\''");
        } else {
            o.push(c);
        }
    }
    o.push(b'\'');
    o
}

/// `bash -n` on the script, then the completion function for every query
/// (COMP_WORDS = the query's words, COMP_CWORD = last index), in an empty directory.
fn bash_exec(script: &[u8], bin: &str, queries: &[Vec<Vec<u8>>]) -> String {
    let dir = std::env::temp_dir().join(format!("vharness-aot-{}", std::process::id()));
    std::fs::create_dir_all(&dir).expect("scratch dir");
    let (ok, _) = run_bash(&["--norc", "--noprofile", "-n"], script, &dir);
    let mut res = format!("(syntax {})", if ok { "ok" } else { "fail" });
    if ok && !queries.is_empty() {
        let mut input = script.to_vec();
        input.extend_from_slice(b"\n__vq() { COMP_WORDS=(\"$@\"); COMP_CWORD=$(( $# - 1 )); COMPREPLY=(); ");
        input.extend_from_slice(&shell_quote(format!("_{bin}").as_bytes()));
        input.extend_from_slice(
            b" \"$1\"; echo \"N ${#COMPREPLY[@]}\"; local r; for r in \"${COMPREPLY[@]}\"; do printf 'R %s\\n' \"$r\"; done; }\n",
        );
        for q in queries {
            input.extend_from_slice(b"__vq");
            for w in q {
                input.push(b' ');
                input.extend_from_slice(&shell_quote(w));
            }
            input.push(b'\n');
        }
        let (_, out) = run_bash(&["--norc", "--noprofile", "-s"], &input, &dir);
        let mut replies: Vec<String> = vec![];
        let mut cur: Option<(usize, Vec<String>)> = None;
        for line in out.split(|&c| c == b'\n') {
            if let Some(n) = line.strip_prefix(b"N ") {
                if let Some((_, v)) = cur.take() {
                    replies.push(format!("(r{}{})", if v.is_empty() { "" } else { " " }, v.join(" ")));
                }
                let n: usize = std::str::from_utf8(n).ok().and_then(|x| x.parse().ok()).unwrap_or(0);
                cur = Some((n, vec![]));
            } else if let Some(r) = line.strip_prefix(b"R ") {
                if let Some((_, v)) = cur.as_mut() {
                    v.push(hex(r));
                }
            }
        }
        if let Some((_, v)) = cur.take() {
            replies.push(format!("(r{}{})", if v.is_empty() { "" } else { " " }, v.join(" ")));
        }
        while replies.len() < queries.len() {
            replies.push("(noreply)".into());
        }
        res.push_str(&format!(" (replies {})", replies.join(" ")));
    } else {
        res.push_str(" (replies)");
    }
    let _ = std::fs::remove_dir(&dir);
    res
}

fn aot(args: &[Sx]) -> String {
    if args.len() < 3 || !matches!(args[1], Sx::Bytes(_)) || args[2].head() != "cmd" {
        return "BADSPEC".into();
    }
    let shell = args[0].sym();
    let bin = s(&args[1]);
    let spec = args[2].args();
    let queries: Vec<Vec<Vec<u8>>> = args[3..]
        .iter()
        .filter(|q| q.head() == "q")
        .map(|q| q.args().iter().map(|w| w.bytes()).collect())
        .collect();
    // "valid command tree": the spec is well-formed and clap's own configuration checks accept it
    // (Command::build runs debug_asserts.rs); the BUILT command is dumped through public API only
    let built = std::panic::catch_unwind(std::panic::AssertUnwindSafe(|| {
        let mut c3 = build_cmd(spec);
        c3.set_bin_name(bin.clone());
        c3.build();
        dump_cmd(&c3)
    }));
    let built = match built {
        Ok(d) => d,
        Err(p) => {
            let msg = p
                .downcast_ref::<String>()
                .cloned()
                .or_else(|| p.downcast_ref::<&str>().map(|x| x.to_string()))
                .unwrap_or_default();
            return if msg.starts_with("spec:") {
                "BADSPEC".into()
            } else {
                format!("INVALID {}", msg.replace(['\n', '\t'], " "))
            };
        }
    };
    let mut c1 = build_cmd(spec);
    let s1 = shell_gen(shell, &mut c1, &bin);
    let mut c2 = build_cmd(spec);
    let s2 = shell_gen(shell, &mut c2, &bin);
    // once more on the command that is already built
    let s3 = shell_gen(shell, &mut c1, &bin);
    let det = s1 == s2 && s1 == s3;
    let exec = if shell == "bash" { bash_exec(&s1, &bin, &queries) } else { "(syntax na) (replies)".to_string() };
    format!("(shell {shell}) (det {det}) (script {}) (built {built}) {exec}", hex(&s1))
}

/// Returns `Some(result)` when `head` is a mode of this area.
pub fn dispatch(head: &str, args: &[Sx]) -> Option<String> {
    match head {
        "aot" => Some(aot(args)),
        _ => None,
    }
}
