//! Extra implementation-side modes for property C05 (the shared `parse` mode lives in parse.rs).
//!
//! `(c05 (cmd ...) (pre x.. ...) (tail x.. ...) (alt x.. ...))` parses, with the real crate, the three
//! argument vectors  A = pre ++ ["--"] ++ tail,  B = pre ++ ["--"] ++ alt,  C = pre ++ ["--"]
//! against the same command and D = pre,
//! and prints the four canonical results separated by ` ;; `.
use crate::modes::parse::{build_cmd, kind_name, show_matches, EnvGuard};
use crate::sexp::Sx;
use std::ffi::OsString;
use std::os::unix::ffi::OsStringExt;
use std::panic::{catch_unwind, AssertUnwindSafe};

fn os(x: &Sx) -> OsString {
    OsString::from_vec(x.bytes())
}

/// like `parse::show_result`, but the error is not rendered (rendering belongs to C12; the help
/// head line is outside this property's projection)
fn show_result(r: Result<clap::ArgMatches, clap::Error>) -> String {
    match r {
        Ok(m) => format!("ok {}", show_matches(&m)),
        Err(e) => {
            let stream = if e.use_stderr() { "stderr" } else { "stdout" };
            format!("err {} {} {}", kind_name(e.kind()), stream, e.exit_code())
        }
    }
}

fn c05(a: &[Sx]) -> String {
    let mut env = EnvGuard(vec![]);
    let cmd = match catch_unwind(AssertUnwindSafe(|| {
        let c = build_cmd(a[0].args(), &mut env);
        let mut probe = c.clone();
        probe.build();
        c
    })) {
        Ok(c) => c,
        Err(_) => return "INVALID".into(),
    };
    let pre: Vec<OsString> = a[1].args().iter().map(os).collect();
    let tail: Vec<OsString> = a[2].args().iter().map(os).collect();
    let alt: Vec<OsString> = a[3].args().iter().map(os).collect();
    let run = |extra: Option<&Vec<OsString>>| -> String {
        let mut argv = pre.clone();
        argv.push(OsString::from("--"));
        if let Some(e) = extra {
            argv.extend(e.iter().cloned());
        }
        let c = cmd.clone();
        match catch_unwind(AssertUnwindSafe(|| show_result(c.try_get_matches_from(argv)))) {
            Ok(s) => s,
            Err(p) => {
                let msg = p
                    .downcast_ref::<String>()
                    .cloned()
                    .or_else(|| p.downcast_ref::<&str>().map(|s| s.to_string()))
                    .unwrap_or_default();
                format!("PANIC {}", msg.replace(['\n', '\t'], " "))
            }
        }
    };
    // D = pre alone (no escape at all): what the options hold "without the tail" in the strict reading
    let bare = {
        let c = cmd.clone();
        let argv = pre.clone();
        match catch_unwind(AssertUnwindSafe(|| show_result(c.try_get_matches_from(argv)))) {
            Ok(s) => s,
            Err(p) => {
                let msg = p
                    .downcast_ref::<String>()
                    .cloned()
                    .or_else(|| p.downcast_ref::<&str>().map(|s| s.to_string()))
                    .unwrap_or_default();
                format!("PANIC {}", msg.replace(['\n', '\t'], " "))
            }
        }
    };
    format!("{} ;; {} ;; {} ;; {}", run(Some(&tail)), run(Some(&alt)), run(None), bare)
}

/// Returns `Some(result)` when `head` is a mode of this file.
pub fn dispatch(head: &str, args: &[Sx]) -> Option<String> {
    match head {
        "c05" => Some(c05(args)),
        _ => None,
    }
}
