//! Extra implementation-side modes for property C01 (the shared `parse` mode lives in parse.rs).
//!
//! `(errctx (cmd ...) (argv x.. x..))`: the `parse` mode's result, and for an error additionally
//! ` ;; msg=<none|raw|formatted> ctx=<Kind:shape,...> rich=<0|1>`:
//!   msg   whether the error carries a message and of which form (`Message::Raw` / `Message::Formatted`); the field is
//!         private, so it is read off the derived `Debug` of `ErrorInner` (field `message:` at nesting depth 1, outside
//!         string literals),
//!   ctx   `Error::context()`: the context kinds in insertion order, each with the variant of its `ContextValue`,
//!   rich  0 when the rendered text is the generic `ErrorKind::as_str()` line (`write_dynamic_context` returned false),
//!         1 otherwise.
//! `Error::render()` runs under the harness' `catch_unwind` (a panic prints `PANIC ...`).
use crate::modes::parse::{build_cmd, show_result, EnvGuard};
use crate::sexp::Sx;
use clap::error::{ContextKind, ContextValue};
use std::ffi::OsString;
use std::os::unix::ffi::OsStringExt;
use std::panic::{catch_unwind, AssertUnwindSafe};

fn os(x: &Sx) -> OsString {
    OsString::from_vec(x.bytes())
}

fn ckind_name(k: ContextKind) -> &'static str {
    match k {
        ContextKind::InvalidSubcommand => "InvalidSubcommand",
        ContextKind::InvalidArg => "InvalidArg",
        ContextKind::PriorArg => "PriorArg",
        ContextKind::ValidSubcommand => "ValidSubcommand",
        ContextKind::ValidValue => "ValidValue",
        ContextKind::InvalidValue => "InvalidValue",
        ContextKind::ActualNumValues => "ActualNumValues",
        ContextKind::ExpectedNumValues => "ExpectedNumValues",
        ContextKind::MinValues => "MinValues",
        ContextKind::SuggestedCommand => "SuggestedCommand",
        ContextKind::SuggestedSubcommand => "SuggestedSubcommand",
        ContextKind::SuggestedArg => "SuggestedArg",
        ContextKind::SuggestedValue => "SuggestedValue",
        ContextKind::TrailingArg => "TrailingArg",
        ContextKind::Suggested => "Suggested",
        ContextKind::Usage => "Usage",
        ContextKind::Custom => "Custom",
        _ => "Other",
    }
}

fn shape(v: &ContextValue) -> &'static str {
    match v {
        ContextValue::None => "none",
        ContextValue::Bool(_) => "bool",
        ContextValue::String(_) => "string",
        ContextValue::Strings(_) => "strings",
        ContextValue::StyledStr(_) => "styled",
        ContextValue::StyledStrs(_) => "styleds",
        ContextValue::Number(_) => "number",
        _ => "other",
    }
}

/// the variant of the private `message` field, from `{:?}` of the error (= derived Debug of ErrorInner)
fn message_form(e: &clap::Error) -> &'static str {
    let dbg = format!("{e:?}");
    let b = dbg.as_bytes();
    let (mut depth, mut in_str, mut i) = (0i32, false, 0usize);
    while i < b.len() {
        let c = b[i];
        if in_str {
            if c == b'\\' {
                i += 1;
            } else if c == b'"' {
                in_str = false;
            }
        } else if c == b'"' {
            in_str = true;
        } else if c == b'{' || c == b'[' || c == b'(' {
            depth += 1;
        } else if c == b'}' || c == b']' || c == b')' {
            depth -= 1;
        } else if depth == 1 && dbg[i..].starts_with("message: ") {
            let rest = &dbg[i + 9..];
            return if rest.starts_with("None") {
                "none"
            } else if rest.starts_with("Some(Raw(") {
                "raw"
            } else if rest.starts_with("Some(Formatted(") {
                "formatted"
            } else {
                "unreadable"
            };
        }
        i += 1;
    }
    "unreadable"
}

fn errctx(a: &[Sx]) -> String {
    if a.len() != 2 {
        return "badcase".into();
    }
    let mut env = EnvGuard(vec![]);
    let cmd = match catch_unwind(AssertUnwindSafe(|| {
        let c = build_cmd(a[0].args(), &mut env);
        let mut probe = c.clone();
        probe.build();
        c
    })) {
        Ok(c) => c,
        Err(_) => return "INVALID".into(),
    };
    let argv: Vec<OsString> = a[1].args().iter().map(os).collect();
    let r = cmd.try_get_matches_from(argv);
    let extra = match &r {
        Ok(_) => String::new(),
        Err(e) => {
            let ctx: Vec<String> = e.context().map(|(k, v)| format!("{}:{}", ckind_name(k), shape(v))).collect();
            let rendered = e.render().to_string();
            let generic = match e.kind().as_str() {
                Some(s) => rendered.starts_with(&format!("error: {s}\n")),
                None => true,
            };
            format!(" ;; msg={} ctx={} rich={}", message_form(e), ctx.join(","), if generic { 0 } else { 1 })
        }
    };
    format!("{}{}", show_result(r), extra)
}

/// Returns `Some(result)` when `head` is a mode of this file.
pub fn dispatch(head: &str, args: &[Sx]) -> Option<String> {
    match head {
        "errctx" => Some(errctx(args)),
        _ => None,
    }
}
