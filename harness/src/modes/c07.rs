//! Extra implementation-side modes for property C07 (the shared `parse` mode lives in parse.rs).
//!
//! `(c07typed (cmd ...) (argv ...))`: parse with the real crate and print, for every argument of the
//! root command, what the *typed* getters named by the property return:
//!   `ok (t (<id> count <get_count>) (<id> flag <get_flag>) (<id> vals <src> (one ..) (many ..) (occ (..) ..)) ...)`
//!   `err <Kind> ...` / `INVALID` exactly as the `parse` mode.
use crate::hex;
use crate::modes::parse::{build_cmd, show_result, EnvGuard};
use crate::sexp::Sx;
use clap::ArgAction;
use std::ffi::OsString;
use std::os::unix::ffi::OsStringExt;
use std::panic::{catch_unwind, AssertUnwindSafe};

fn typed(a: &[Sx]) -> String {
    let mut env = EnvGuard(vec![]);
    let cmd = match catch_unwind(AssertUnwindSafe(|| {
        let c = build_cmd(a[0].args(), &mut env);
        let mut probe = c.clone();
        probe.build();
        c
    })) {
        Ok(c) => c,
        Err(_) => return "INVALID".into(),
    };
    let argv: Vec<OsString> = a[1].args().iter().map(|x| OsString::from_vec(x.bytes())).collect();
    let mut built = cmd.clone();
    built.build();
    let specs: Vec<(String, ArgAction)> =
        built.get_arguments().map(|a| (a.get_id().as_str().to_owned(), a.get_action().clone())).collect();
    match cmd.try_get_matches_from(argv) {
        Err(e) => show_result(Err(e)),
        Ok(m) => {
            let mut out = String::from("ok (t");
            for (id, act) in &specs {
                let idh = hex(id.as_bytes());
                let src = match m.value_source(id) {
                    Some(clap::parser::ValueSource::DefaultValue) => "default",
                    Some(clap::parser::ValueSource::EnvVariable) => "env",
                    Some(clap::parser::ValueSource::CommandLine) => "cmdline",
                    None => "none",
                    _ => "other",
                };
                match act {
                    ArgAction::Count => {
                        let v = catch_unwind(AssertUnwindSafe(|| m.get_count(id)));
                        match v {
                            Ok(n) => out.push_str(&format!(" ({idh} count {src} {n})")),
                            Err(_) => out.push_str(&format!(" ({idh} count {src} panic)")),
                        }
                    }
                    ArgAction::SetTrue | ArgAction::SetFalse => {
                        let v = catch_unwind(AssertUnwindSafe(|| m.get_flag(id)));
                        match v {
                            Ok(b) => out.push_str(&format!(" ({idh} flag {src} {b})")),
                            Err(_) => out.push_str(&format!(" ({idh} flag {src} panic)")),
                        }
                    }
                    ArgAction::Set | ArgAction::Append => {
                        let one = match m.try_get_one::<String>(id) {
                            Ok(Some(s)) => hex(s.as_bytes()),
                            Ok(None) => "none".into(),
                            Err(_) => "?".into(),
                        };
                        let many = match m.try_get_many::<String>(id) {
                            Ok(Some(v)) => v.map(|s| hex(s.as_bytes())).collect::<Vec<_>>().join(" "),
                            Ok(None) => "none".into(),
                            Err(_) => "?".into(),
                        };
                        let occ = match m.try_get_occurrences::<String>(id) {
                            Ok(Some(o)) => o
                                .map(|g| format!("({})", g.map(|s| hex(s.as_bytes())).collect::<Vec<_>>().join(" ")))
                                .collect::<Vec<_>>()
                                .join(" "),
                            Ok(None) => "none".into(),
                            Err(_) => "?".into(),
                        };
                        out.push_str(&format!(" ({idh} vals {src} (one {one}) (many {many}) (occ {occ}))"));
                    }
                    _ => {}
                }
            }
            out.push(')');
            out
        }
    }
}

/// Returns `Some(result)` when `head` is a mode of this file.
pub fn dispatch(head: &str, args: &[Sx]) -> Option<String> {
    match head {
        "c07typed" => Some(typed(args)),
        _ => None,
    }
}
