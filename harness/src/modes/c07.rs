//! Extra implementation-side modes for property C07 (the shared `parse` mode lives in parse.rs).
use crate::sexp::Sx;

/// Returns `Some(result)` when `head` is a mode of this file.
pub fn dispatch(head: &str, args: &[Sx]) -> Option<String> {
    let _ = (head, args);
    None
}
