//! Implementation-side runner: reads a case file (one S-expression per line), runs the real
//! clap crates built from /repo's working tree under `catch_unwind`, prints `<idx>\t<result>`.
mod modes;
mod sexp;

use sexp::Sx;
use std::io::{BufRead, Write};
use std::panic::{catch_unwind, AssertUnwindSafe};

pub fn hex(b: &[u8]) -> String {
    let mut s = String::with_capacity(1 + 2 * b.len());
    s.push('x');
    for c in b {
        s.push_str(&format!("{c:02x}"));
    }
    s
}

pub fn hexlist<'a>(l: impl IntoIterator<Item = &'a [u8]>) -> String {
    let v: Vec<String> = l.into_iter().map(hex).collect();
    format!("({})", v.join(" "))
}

fn dispatch(sx: &Sx) -> String {
    let args = &sx.list()[1..];
    match sx.head() {
        "osstr" => modes::lex::osstr(args),
        "cursor" => modes::lex::cursor(args),
        "parse" => modes::parse::parse(args),
        "lex" => modes::lex::lex(args),
        "short" => modes::lex::short(args),
        "int" => modes::value::int(args),
        "bool" => modes::value::boolean(args),
        "possible" => modes::value::possible(args),
        "enum" => modes::value::enumeration(args),
        "store" => modes::value::store(args),
        "probe" => modes::wrap::probe(args),
        "wrap" => modes::wrap::wrap(args),
        "styled" => modes::wrap::styled(args),
        "about" => modes::wrap::about(args),
        m => {
            // areas developed independently: each owns its file under modes/ and claims its modes there
            let areas: [fn(&str, &[Sx]) -> Option<String>; 17] = [
                modes::help::dispatch,
                modes::aot::dispatch,
                modes::aottext::dispatch,
                modes::dynamic::dispatch,
                modes::man::dispatch,
                modes::derive::dispatch,
                modes::history::dispatch,
                modes::c01::dispatch,
                modes::c02::dispatch,
                modes::c03::dispatch,
                modes::c05::dispatch,
                modes::c06::dispatch,
                modes::c07::dispatch,
                modes::c08::dispatch,
                modes::c09::dispatch,
                modes::c10::dispatch,
                modes::c11::dispatch,
            ];
            for f in areas {
                if let Some(r) = f(m, args) {
                    return r;
                }
            }
            format!("unknown-mode {m}")
        }
    }
}

fn main() {
    let path = std::env::args().nth(1).expect("usage: vharness <casefile>");
    std::panic::set_hook(Box::new(|_| {}));
    // watchdog: a case that does not return within the limit ends the process with status 124; every
    // finished case has been flushed, so the runner knows which case it was and re-runs the rest
    let limit = std::env::var("VH_CASE_TIMEOUT").ok().and_then(|s| s.parse::<u64>().ok()).unwrap_or(20);
    let started = std::sync::Arc::new(std::sync::Mutex::new(std::time::Instant::now()));
    {
        let started = started.clone();
        std::thread::spawn(move || loop {
            std::thread::sleep(std::time::Duration::from_millis(200));
            if started.lock().unwrap().elapsed().as_secs() >= limit {
                std::process::exit(124);
            }
        });
    }
    let f = std::io::BufReader::new(std::fs::File::open(path).expect("open case file"));
    let out = std::io::stdout();
    let mut out = std::io::BufWriter::new(out.lock());
    for (i, line) in f.lines().enumerate() {
        let line = line.expect("read");
        *started.lock().unwrap() = std::time::Instant::now();
        let res = match sexp::parse(&line) {
            Err(e) => format!("harness-error {e}"),
            Ok(sx) => match catch_unwind(AssertUnwindSafe(|| dispatch(&sx))) {
                Ok(s) => s,
                Err(p) => {
                    let msg = if let Some(s) = p.downcast_ref::<&str>() {
                        s.to_string()
                    } else if let Some(s) = p.downcast_ref::<String>() {
                        s.clone()
                    } else {
                        "?".to_string()
                    };
                    format!("PANIC {}", msg.replace(['\n', '\t'], " "))
                }
            },
        };
        writeln!(out, "{i}\t{res}").unwrap();
        out.flush().unwrap();
    }
}
