//! Minimal S-expression reader: atoms are symbols, decimals, and hex byte strings `x<hex>`.
#[derive(Debug, Clone, PartialEq)]
pub enum Sx {
    Sym(String),
    Num(u64),
    INum(i64),
    Bytes(Vec<u8>),
    List(Vec<Sx>),
}

pub fn parse(line: &str) -> Result<Sx, String> {
    let b = line.as_bytes();
    let mut i = 0;
    let v = parse_at(b, &mut i)?;
    skip_ws(b, &mut i);
    if i != b.len() {
        return Err(format!("trailing input at {i}"));
    }
    Ok(v)
}

fn skip_ws(b: &[u8], i: &mut usize) {
    while *i < b.len() && (b[*i] == b' ' || b[*i] == b'\t') {
        *i += 1;
    }
}

fn parse_at(b: &[u8], i: &mut usize) -> Result<Sx, String> {
    skip_ws(b, i);
    if *i >= b.len() {
        return Err("eof".into());
    }
    if b[*i] == b'(' {
        *i += 1;
        let mut items = vec![];
        loop {
            skip_ws(b, i);
            if *i >= b.len() {
                return Err("unclosed".into());
            }
            if b[*i] == b')' {
                *i += 1;
                return Ok(Sx::List(items));
            }
            items.push(parse_at(b, i)?);
        }
    }
    let start = *i;
    while *i < b.len() && !matches!(b[*i], b' ' | b'\t' | b'(' | b')') {
        *i += 1;
    }
    let tok = std::str::from_utf8(&b[start..*i]).map_err(|e| e.to_string())?;
    if let Some(hex) = tok.strip_prefix('x') {
        if hex.len() % 2 == 0 && hex.bytes().all(|c| c.is_ascii_hexdigit()) {
            let mut out = Vec::with_capacity(hex.len() / 2);
            for k in (0..hex.len()).step_by(2) {
                out.push(u8::from_str_radix(&hex[k..k + 2], 16).unwrap());
            }
            return Ok(Sx::Bytes(out));
        }
    }
    if !tok.is_empty() && tok.bytes().all(|c| c.is_ascii_digit()) {
        return tok.parse().map(Sx::Num).map_err(|e| e.to_string());
    }
    if tok.len() > 1 && tok.starts_with('-') && tok[1..].bytes().all(|c| c.is_ascii_digit()) {
        return tok.parse().map(Sx::INum).map_err(|e| e.to_string());
    }
    Ok(Sx::Sym(tok.to_owned()))
}

impl Sx {
    pub fn list(&self) -> &[Sx] {
        match self {
            Sx::List(v) => v,
            _ => &[],
        }
    }
    pub fn head(&self) -> &str {
        match self.list().first() {
            Some(Sx::Sym(s)) => s,
            _ => "",
        }
    }
    pub fn bytes(&self) -> Vec<u8> {
        match self {
            Sx::Bytes(b) => b.clone(),
            _ => vec![],
        }
    }
    pub fn string(&self) -> String {
        String::from_utf8(self.bytes()).expect("spec strings are UTF-8")
    }
    pub fn inum(&self) -> i64 {
        match self {
            Sx::Num(n) => *n as i64,
            Sx::INum(n) => *n,
            _ => 0,
        }
    }
    pub fn sym(&self) -> &str {
        match self {
            Sx::Sym(s) => s,
            _ => "",
        }
    }
    pub fn args(&self) -> &[Sx] {
        let l = self.list();
        if l.is_empty() { l } else { &l[1..] }
    }
    pub fn num(&self) -> u64 {
        match self {
            Sx::Num(n) => *n,
            _ => 0,
        }
    }
}
