#!/bin/sh
# Build the whole framework from files on disk, offline: Coq theories, extracted model drivers, Rust harness.
set -e
cd "$(dirname "$0")"
export CARGO_NET_OFFLINE=true
[ -f translators/tables.py ] && python3 translators/tables.py
( cd coq && sh gen_project.sh && timeout 3000 make -j16 )
for d in ocaml/*_driver.ml; do a="$(basename "$d" _driver.ml)"; sh ocaml/build.sh "$a"; done
cp -n /repo/Cargo.lock harness/Cargo.lock 2>/dev/null || true
( cd harness && RUSTFLAGS="--cfg clap_verif -A warnings" cargo build --offline --quiet )
echo setup-ok
