(* Model driver for property C09.  Same case format and the same model function as the parser
   area ([Parser.parse_top]); the only difference is the printing of a successful result: an entry
   whose id is not defined (argument or group) by the command of the level it sits in is printed
   `(<id> ?)`, exactly as harness/src/modes/parse.rs prints the entries the real accessors refuse
   in a debug build (a global defined only in a subcommand also lands in the matches of the levels
   above it, DESIGN 7-O; the property speaks only of the levels at or below the defining command). *)
open Conv
open Spec
open Show

let src_name = function
  | Some Matcher.SDefault -> "default" | Some Matcher.SEnv -> "env" | Some Matcher.SCmdLine -> "cmdline"
  | None -> "none"

let defined (c : Cmd.cmd) (i : Cmd.id) : bool =
  i = [] ||
  Stdlib.List.exists (fun a -> a.Cmd.a_id = i) c.Cmd.c_args ||
  Stdlib.List.exists (fun g -> g.Cmd.g_id = i) c.Cmd.c_groups

(* [c]: the built command whose ids are valid at this level (for the matches of an external
   subcommand: the parent, because the real code creates them with ArgMatcher::new(self.cmd));
   [node]: the command to look subcommands up in, None below an external subcommand *)
let rec show_masked (c : Cmd.cmd) (node : Cmd.cmd option) (m : Matcher.matches) : string =
  let Matcher.Matches (args, sub) = m in
  let entries = Stdlib.List.map (fun (i, ma) ->
      let open Matcher in
      if not (defined c i) then Printf.sprintf "(%s ?)" (hex i) else
      Printf.sprintf "(%s %s (%s) (%s))" (hex i) (src_name ma.m_source)
        (String.concat " " (Stdlib.List.map (fun x -> Z.to_string (z_of_n x)) ma.m_indices))
        (String.concat " " (Stdlib.List.map (fun g -> "(" ^ String.concat " " (Stdlib.List.map hex g) ^ ")") ma.m_raw))) args in
  let subs = match sub with
    | None -> ""
    | Some (name, sm) ->
      (* the matches of an external subcommand carry Id::EXTERNAL ("") *)
      let Matcher.Matches (sargs, _) = sm in
      let is_ext = Stdlib.List.exists (fun (i, _) -> i = []) sargs in
      let next = match node with Some n when not is_ext -> Cmd.find_subcommand n name | _ -> None in
      let s = match next with
        | Some sc -> show_masked sc (Some sc) sm
        | None -> show_masked c None sm in
      Printf.sprintf " (sub %s %s)" (hex name) s in
  "(m" ^ (if entries = [] then "" else " " ^ String.concat " " entries) ^ subs ^ ")"

let run_parse (a : Sx.t list) : string =
  match a with
  | [cmd; argv] ->
    let c = build_cmd (Sx.args cmd) in
    let argv = Stdlib.List.map bs (Sx.args argv) in
    (match Parser.parse_top c argv with
     | Parser.OOk m ->
       let built = Build.build_recursive (nat_of_int 12) c in
       "ok " ^ show_masked built (Some built) m
     | o -> show_outcome o)
  | _ -> "badcase"

let () =
  let lines = Sx.read_lines Sys.argv.(1) in
  Stdlib.List.iteri (fun i line ->
    let res =
      try
        let sx = Sx.parse line in
        match Sx.head sx with
        | "parse" -> run_parse (Sx.args sx)
        | m -> "unknown-mode " ^ m
      with e -> "driver-error " ^ Printexc.to_string e in
    print_string (string_of_int i); print_char '\t'; print_endline res) lines
