(* Model driver for the re-entrancy area (C11): one command state driven through a history of
   by-reference calls ([ReentrancyModel.step]), then the final parse on the reused state, on the
   fresh definition and on a definition built beforehand.  Prints what harness/src/modes/history.rs
   prints, without the rendered texts. *)
open Conv
open Spec
open Show

let opt_hex = function Some b -> hex b | None -> "-"

let rec show_state (c : Cmd.cmd) : string =
  let open Cmd in
  let ids = String.concat " " (Stdlib.List.map (fun a -> hex a.a_id) c.c_args) in
  let subs = String.concat "" (Stdlib.List.map (fun s -> " " ^ show_state s) c.c_subs) in
  Printf.sprintf "(n %s %s %s (%s)%s)" (hex c.c_name) (opt_hex c.c_bin_name) (opt_hex c.c_display_name) ids subs

let show_names (l : ReentrancyModel.vnames list) : string =
  String.concat " " (Stdlib.List.map (fun (((node, name), bin), disp) ->
      Printf.sprintf "(%s %s %s %s)" (if node then "node" else "help") (hex name) (opt_hex bin) (opt_hex disp)) l)

exception Panicked
exception Stop

let op_of (s : Sx.t) : ReentrancyModel.op =
  let open ReentrancyModel in
  match Sx.head s with
  | "parse" -> ParseMut (Stdlib.List.map bs (Sx.args s))
  | "build" -> Build
  | "help" -> RenderHelp
  | "longhelp" -> RenderLongHelp
  | "usage" -> RenderUsage
  | "clone" -> Clone
  | "sugg" -> SuggBuild (Stdlib.List.map bs (Sx.args s))
  | x -> failwith ("op " ^ x)

let is_panic (o : Parser.outcome) = match o with
  | Parser.OPanicked _ -> true
  | _ -> false
let show_out (o : Parser.outcome) = if is_panic o then "PANIC" else show_outcome o

let run_hist (a : Sx.t list) : string =
  match a with
  | [cmd; ops; argv] ->
    let c = build_cmd (Sx.args cmd) in
    if not (Valid.valid c) then "INVALID" else begin
      let argv = Stdlib.List.map bs (Sx.args argv) in
      let buf = Buffer.create 1024 in
      Buffer.add_string buf "steps";
      let cur = ref c in
      let panicked = ref false in
      (try
        Stdlib.List.iter (fun osx ->
          let o = op_of osx in
          let (c', ob) = ReentrancyModel.step !cur o in
          (match ob with
           | ReentrancyModel.OParse (out, _) when is_panic out ->
             (* the same call on a fresh definition *)
             let fresh_panics = (match ReentrancyModel.step c o with
                 | (_, ReentrancyModel.OParse (out', _)) -> is_panic out'
                 | _ -> false) in
             Buffer.add_string buf (Printf.sprintf " (%s (PANIC %s) (n x - - ()))" (Sx.head osx) (if fresh_panics then "PANIC" else "fine"));
             panicked := true;
             raise Stop
           | _ -> ());
          cur := c';
          let obs = match ob with
            | ReentrancyModel.OParse (out, names) -> show_outcome out ^ " names " ^ show_names names
            | ReentrancyModel.ORender (_, _, _) -> "r"
            | ReentrancyModel.OUnit -> "unit" in
          Buffer.add_string buf (Printf.sprintf " (%s (%s) %s)" (Sx.head osx) obs (show_state c'))) (Sx.args ops)
      with Stop -> ());
      if !panicked then cur := c;
      let fin (c : Cmd.cmd) =
        let ((out, tr), c') = ReentrancyModel.parse_mut c argv in
        if is_panic out then ("PANIC", c)
        else (show_outcome out ^ " names " ^ show_names (Stdlib.List.map ReentrancyModel.visit_names tr), c') in
      let (reused, end_c) = fin !cur in
      let (fresh, fresh_c) = fin c in
      let (built, _) = fin (ReentrancyModel.build_op c) in
      Buffer.add_string buf (Printf.sprintf " final (reused %s) (fresh %s) (fresh2 %s) (cloned %s) (built %s) (byval %s) (end %s) (freshend %s)"
        reused fresh fresh fresh built fresh (show_state end_c) (show_state fresh_c));
      Buffer.contents buf
    end
  | _ -> "badcase"

let run_build2 (a : Sx.t list) : string =
  match a with
  | [cmd] ->
    let c = build_cmd (Sx.args cmd) in
    if not (Valid.valid c) then "INVALID" else
      let c1 = ReentrancyModel.build_op c in
      let c2 = ReentrancyModel.build_op c1 in
      Printf.sprintf "(first %s) (second %s)" (show_state c1) (show_state c2)
  | _ -> "badcase"

let () =
  let lines = Sx.read_lines Sys.argv.(1) in
  Stdlib.List.iteri (fun i line ->
    let res =
      try
        let sx = Sx.parse line in
        match Sx.head sx with
        | "hist" -> run_hist (Sx.args sx)
        | "build2" -> run_build2 (Sx.args sx)
        | m -> "unknown-mode " ^ m
      with e -> "driver-error " ^ Printexc.to_string e in
    print_string (string_of_int i); print_char '\t'; print_endline res) lines
