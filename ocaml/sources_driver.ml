(* Model driver for property C06 (area "sources"): the parser model run on the same case
   formats as harness/src/modes/c06.rs.
     (c06 (cmd ...) (argv ...))           -> parse result [+ (present b ...) per level on Ok]
     (c06pair (cmd A) (argv ...))         -> pair <result A> ;; <result B>, B = A without its
                                             (default ..) / (dif ..) items *)
open Conv
open Spec
open Show

(* The implementation cannot report on an id that was propagated into a level which does not
   define it (ArgMatches accessors panic on ids that are not valid for the level): such entries are
   printed `(id ?)` by the harness.  The same entries of the model are masked here, using the model's
   own built command of each level. *)
let rec mask_undefined (c : Cmd.cmd) (m : Matcher.matches) : string =
  let Matcher.Matches (args, sub) = m in
  let defined i = Cmd.id_exists c i in
  let entries = Stdlib.List.map (fun (i, ma) ->
      if defined i then
        let open Matcher in
        Printf.sprintf "(%s %s (%s) (%s))" (hex i) (src_name ma.m_source)
          (String.concat " " (Stdlib.List.map (fun x -> Z.to_string (z_of_n x)) ma.m_indices))
          (String.concat " " (Stdlib.List.map (fun g -> "(" ^ String.concat " " (Stdlib.List.map hex g) ^ ")") ma.m_raw))
      else Printf.sprintf "(%s ?)" (hex i)) args in
  let subs = match sub with
    | None -> ""
    | Some (name, sm) ->
      let is_ext = match sm with
        | Matcher.Matches (a, _) -> Stdlib.List.exists (fun (i, _) -> i = []) a in
      let inner = match (if is_ext then None else Build.build_subcommand c name) with
        | Some sc -> mask_undefined sc sm
        | None -> show_matches sm in
      Printf.sprintf " (sub %s %s)" (hex name) inner in
  "(m" ^ (if entries = [] then "" else " " ^ String.concat " " entries) ^ subs ^ ")"

let run (cmd : Sx.t) (argv : Sx.t) (with_present : bool) : string =
  let c = build_cmd (Sx.args cmd) in
  let argv = Stdlib.List.map bs (Sx.args argv) in
  let o = Parser.parse_top c argv in
  let shown = match o with
    | Parser.OOk m -> "ok " ^ mask_undefined (Build.build_self c) m
    | _ -> show_outcome o in
  let extra = match o with
    | Parser.OOk m when with_present ->
      let chain = Present.present_chain (Parser.matches_depth m) m in
      " (present " ^ String.concat " " (Stdlib.List.map (fun b -> if b then "true" else "false") chain) ^ ")"
    | _ -> "" in
  shown ^ extra

let rec strip_defaults (x : Sx.t) : Sx.t = match x with
  | Sx.L l ->
    Sx.L (Stdlib.List.map strip_defaults
            (Stdlib.List.filter (fun it -> match it with
               | Sx.L (Sx.Sym ("default" | "dif") :: _) -> false
               | _ -> true) l))
  | other -> other

let () =
  let lines = Sx.read_lines Sys.argv.(1) in
  Stdlib.List.iteri (fun i line ->
    let res =
      try
        let sx = Sx.parse line in
        match Sx.head sx, Sx.args sx with
        | "c06", [cmd; argv] -> run cmd argv true
        | "parse", [cmd; argv] -> run cmd argv false
        | "c06pair", [a; argv] -> "pair " ^ run a argv false ^ " ;; " ^ run (strip_defaults a) argv false
        | m, _ -> "unknown-mode " ^ m
      with e -> "driver-error " ^ Printexc.to_string e in
    print_string (string_of_int i); print_char '\t'; print_endline res) lines
