(* Model driver for property C06 (area "sources"): the parser model run on the same case
   formats as harness/src/modes/c06.rs.
     (c06 (cmd ...) (argv ...))           -> parse result [+ (present b ...) per level on Ok]
     (c06pair (cmd A) (cmd B) (argv ...)) -> pair <result A> ;; <result B> *)
open Conv
open Spec
open Show

let run (cmd : Sx.t) (argv : Sx.t) (with_present : bool) : string =
  let c = build_cmd (Sx.args cmd) in
  let argv = Stdlib.List.map bs (Sx.args argv) in
  let o = Parser.parse_top c argv in
  let extra = match o with
    | Parser.OOk m when with_present ->
      let chain = Present.present_chain (Parser.matches_depth m) m in
      " (present " ^ String.concat " " (Stdlib.List.map (fun b -> if b then "true" else "false") chain) ^ ")"
    | _ -> "" in
  show_outcome o ^ extra

let () =
  let lines = Sx.read_lines Sys.argv.(1) in
  Stdlib.List.iteri (fun i line ->
    let res =
      try
        let sx = Sx.parse line in
        match Sx.head sx, Sx.args sx with
        | "c06", [cmd; argv] -> run cmd argv true
        | "parse", [cmd; argv] -> run cmd argv false
        | "c06pair", [a; b; argv] -> "pair " ^ run a argv false ^ " ;; " ^ run b argv false
        | m, _ -> "unknown-mode " ^ m
      with e -> "driver-error " ^ Printexc.to_string e in
    print_string (string_of_int i); print_char '\t'; print_endline res) lines
