(* Model driver for C01's stream `errctx`: [Parser.parse_top] as in the parse driver, and for an error outcome
   the signature of the rich errors it stands for ([RenderLink.error_signature]): one alternative per
   constructor the parse path uses for that kind, printed as
     msg=<none|raw|formatted> ctx=<Kind:shape,...> rich=<0|1>      (alternatives separated by " / "). *)
open Conv
open Spec
open Show

let ckind_names = [| "InvalidSubcommand"; "InvalidArg"; "PriorArg"; "ValidSubcommand"; "ValidValue"; "InvalidValue";
                     "ActualNumValues"; "ExpectedNumValues"; "MinValues"; "SuggestedCommand"; "SuggestedSubcommand";
                     "SuggestedArg"; "SuggestedValue"; "TrailingArg"; "Suggested"; "Usage"; "Custom" |]
let shape_names = [| "none"; "bool"; "string"; "strings"; "styled"; "styleds"; "number" |]
let msg_names = [| "none"; "raw"; "formatted" |]
let idx n = Z.to_int (z_of_n n)

let show_sig (e : Errors.error) : string =
  let alts = RenderLink.error_signature_table e in
  String.concat " / " (Stdlib.List.map (fun ((m, ctx), rich) ->
    Printf.sprintf "msg=%s ctx=%s rich=%d" msg_names.(idx m)
      (String.concat "," (Stdlib.List.map (fun (k, s) -> ckind_names.(idx k) ^ ":" ^ shape_names.(idx s)) ctx))
      (if rich then 1 else 0)) alts)

let run (a : Sx.t list) : string =
  match a with
  | [cmd; argv] ->
    let c = build_cmd (Sx.args cmd) in
    let argv = Stdlib.List.map bs (Sx.args argv) in
    let o = Parser.parse_top c argv in
    let base = show_outcome_masked c o in
    (match o with
     | Parser.OErr e -> base ^ " ;; " ^ show_sig e
     | _ -> base)
  | _ -> "badcase"

let () =
  let lines = Sx.read_lines Sys.argv.(1) in
  Stdlib.List.iteri (fun i line ->
    let res =
      try
        let sx = Sx.parse line in
        match Sx.head sx with
        | "errctx" -> run (Sx.args sx)
        | m -> "unknown-mode " ^ m
      with e -> "driver-error " ^ Printexc.to_string e in
    print_string (string_of_int i); print_char '\t'; print_endline res) lines
