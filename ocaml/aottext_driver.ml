(* Model driver for the aottext area (C17): escape functions and shell lexer models. *)
open Conv

let encode (cps : BinNums.coq_N list) : BinNums.coq_N list =
  Stdlib.List.concat (Stdlib.List.map Utf8.utf8_encode cps)

let run_esc (a : Sx.t list) : string =
  match a with
  | [k; t] ->
    let b = bs_of_ints (Sx.bytes t) in
    if not (Utf8.utf8_valid b) then "not-utf8" else
    let s = Utf8.decode b in
    let out = match Sx.sym k with
      | "fish_string" -> Some (EscapeModel.fish_escape_string s false)
      | "fish_string_comma" -> Some (EscapeModel.fish_escape_string s true)
      | "fish_help" -> Some (EscapeModel.fish_escape_help s)
      | "fish_double_quoted" -> Some (EscapeModel.fish_escape_double_quoted s)
      | "zsh_help" -> Some (EscapeModel.zsh_escape_help s)
      | "zsh_value" -> Some (EscapeModel.zsh_escape_value s)
      | "powershell_string" -> Some (EscapeModel.powershell_escape_string s)
      | "powershell_help" -> Some (EscapeModel.powershell_escape_help s)
      | "elvish_string" -> Some (EscapeModel.elvish_escape_string s)
      | "elvish_help" -> Some (EscapeModel.elvish_escape_help s)
      | "nushell_single_line" -> Some (EscapeModel.nushell_single_line s)
      | _ -> None in
    (match out with Some o -> hex (encode o) | None -> "no-such-kind")
  | _ -> "badcase"

let run_strreplace (a : Sx.t list) : string =
  match a with
  | [p; r; s] ->
    let d x = bs_of_ints (Sx.bytes x) in
    if not (Utf8.utf8_valid (d p) && Utf8.utf8_valid (d r) && Utf8.utf8_valid (d s)) then "not-utf8" else
    hex (encode (EscapeModel.replace (Utf8.decode (d p)) (Utf8.decode (d r)) (Utf8.decode (d s))))
  | _ -> "badcase"

let show_ev (e : ShellLex.ev) : string =
  let n c = Z.format "%x" (z_of_n c) in
  match e with
  | ShellLex.Lit c -> "L" ^ n c
  | ShellLex.Qm c -> "Q" ^ n c
  | ShellLex.Str c -> "S" ^ n c
  | ShellLex.Act c -> "A" ^ n c

let show_run name_of step st0 (s : BinNums.coq_N list) : string =
  let f = ShellLex.final step st0 s and e = ShellLex.events step st0 s in
  name_of f ^ "|" ^ String.concat "." (Stdlib.List.map show_ev e)

let fish_states = ShellLex.[ "FB", FB; "FW", FW; "FBS", FBS; "FSQ", FSQ; "FSQB", FSQB; "FDQ", FDQ; "FDQB", FDQB; "FC", FC ]
let sh_states = ShellLex.[ "ZB", ZB; "ZW", ZW; "ZBS", ZBS; "ZSQ", ZSQ; "ZDQ", ZDQ; "ZDQB", ZDQB; "ZC", ZC ]
let zs_states = ShellLex.[ "ZsPre", ZsPre; "ZsPreB", ZsPreB; "ZsDescr", ZsDescr; "ZsDescrB", ZsDescrB; "ZsField", ZsField; "ZsFieldB", ZsFieldB ]
let ps_states = ShellLex.[ "PB", PB; "PW", PW; "PSQ", PSQ; "PSQQ", PSQQ; "PDQ", PDQ; "PDQQ", PDQQ; "PDQB", PDQB; "PC", PC ]
let el_states = ShellLex.[ "EB", EB; "EW", EW; "ESQ", ESQ; "ESQQ", ESQQ; "EDQ", EDQ; "EDQB", EDQB; "EC", EC ]
let nu_states = ShellLex.[ "NB", NB; "NW", NW; "NSQ", NSQ; "NBT", NBT; "NDQ", NDQ; "NDQB", NDQB; "NC", NC ]

let with_states tbl step st s =
  let name_of x = fst (Stdlib.List.find (fun (_, y) -> y = x) tbl) in
  match Stdlib.List.assoc_opt st tbl with
  | None -> "no-such-state"
  | Some st0 -> show_run name_of step st0 s

let run_lexport (a : Sx.t list) : string =
  match a with
  | m :: st :: inp :: _ ->
    let b = bs_of_ints (Sx.bytes inp) in
    if not (Utf8.utf8_valid b) then "not-utf8" else
    let s = Utf8.decode b and st = Sx.sym st in
    (match Sx.sym m with
     | "fish" -> with_states fish_states ShellLex.fish_step st s
     | "sh" -> with_states sh_states ShellLex.sh_step st s
     | "zspec" -> with_states zs_states ShellLex.zspec_step st s
     | "powershell" -> with_states ps_states ShellLex.ps_step st s
     | "elvish" -> with_states el_states ShellLex.el_step st s
     | "nushell" -> with_states nu_states ShellLex.nu_step st s
     | _ -> "no-such-machine")
  | _ -> "badcase"

let () =
  let ic = open_in Sys.argv.(1) in
  let i = ref 0 in
  (try
     while true do
       let line = input_line ic in
       let res =
         try
           let sx = Sx.parse line in
           match Sx.head sx with
           | "esc" -> run_esc (Sx.args sx)
           | "lexport" -> run_lexport (Sx.args sx)
           | "strreplace" -> run_strreplace (Sx.args sx)
           | m -> "unknown-mode " ^ m
         with e -> "driver-error " ^ Printexc.to_string e in
       Printf.printf "%d\t%s\n" !i res;
       incr i
     done
   with End_of_file -> ());
  close_in ic
