(* Model driver for the `dynamic` area (C18): builds a [Cmd.cmd] from the case's command spec
   (common_parse/spec.ml), collects the possible-value side table from the `(x-pv ...)` items,
   runs [EngineModel.complete_model], prints the canonical result (same text as
   harness/src/modes/dynamic.rs; the model does not apply the final display-order sort, the
   projection in vp/props/c18.py compares multisets). *)
open Conv
open Spec

(* (x-pv (xNAME h|v)...) items of every arg in the tree: arg id -> values *)
let rec collect_pv (items : Sx.t list) acc =
  Stdlib.List.fold_left (fun acc it ->
    match Sx.head it with
    | "arg" ->
      let l = Sx.args it in
      let id = bs (Stdlib.List.hd l) in
      Stdlib.List.fold_left (fun acc x ->
        if Sx.head x = "x-pv" then
          let pvs = Stdlib.List.map (fun p -> match p with
              | Sx.L [nm; Sx.Sym "h"] -> (bs nm, true)
              | Sx.L [nm; _] -> (bs nm, false)
              | Sx.L [nm] -> (bs nm, false)
              | _ -> failwith "x-pv") (Sx.args x) in
          acc @ [(id, pvs)]
        else acc) acc (Stdlib.List.tl l)
    | "sub" -> collect_pv (Sx.args (Stdlib.List.hd (Sx.args it))) acc
    | _ -> acc) acc (match items with _ :: t -> t | [] -> [])

(* sort data of the final sort (stream `order`): `(x-ord n)` / `(x-heading xH)` on an arg -> (IdArg id, (heading, order));
   `(x-ord n)` on a subcommand -> (IdCmd name, (None, order)) *)
let rec collect_ord (items : Sx.t list) acc =
  match items with
  | [] -> acc
  | _ :: rest ->
    Stdlib.List.fold_left (fun acc it ->
      match Sx.head it with
      | "arg" ->
        let l = Sx.args it in
        let id = bs (Stdlib.List.hd l) in
        let ord = Stdlib.List.fold_left (fun o x -> if Sx.head x = "x-ord" then Some (n_of_z (Sx.num (Stdlib.List.hd (Sx.args x)))) else o) None (Stdlib.List.tl l) in
        let hd = Stdlib.List.fold_left (fun o x -> if Sx.head x = "x-heading" then Some (bs (Stdlib.List.hd (Sx.args x))) else o) None (Stdlib.List.tl l) in
        (match ord, hd with
         | None, None -> acc
         | _ -> acc @ [(EngineModel.IdArg id, (hd, (match ord with Some n -> n | None -> n_of_z (Z.of_int 999))))])
      | "sub" ->
        let sub = Sx.args (Stdlib.List.hd (Sx.args it)) in
        let name = bs (Stdlib.List.hd sub) in
        let ord = Stdlib.List.fold_left (fun o x -> if Sx.head x = "x-ord" then Some (n_of_z (Sx.num (Stdlib.List.hd (Sx.args x)))) else o) None (Stdlib.List.tl sub) in
        let acc = (match ord with Some n -> acc @ [(EngineModel.IdCmd name, (None, n))] | None -> acc) in
        collect_ord sub acc
      | _ -> acc) acc rest

let show_cres (r : EngineModel.cres) : string =
  match r with
  | EngineModel.CPanic site -> "PANIC site " ^ Z.to_string (z_of_n site)
  | EngineModel.CErr -> "err"
  | EngineModel.CInvalid -> "INVALID"
  | EngineModel.CFuel -> "OUTOFFUEL"
  | EngineModel.COk l ->
    "ok" ^ Stdlib.String.concat "" (Stdlib.List.map (fun (c : EngineModel.cand) ->
      " (" ^ hex c.EngineModel.cd_value ^ " " ^ (if c.EngineModel.cd_hidden then "h" else "v") ^ ")") l)

let show_state (s : EngineModel.pstate) = match s with
  | EngineModel.ValueDone -> "ValueDone"
  | EngineModel.Pos (_, _) -> "Pos"
  | EngineModel.Opt (_, _) -> "Opt"

let run_dyn (a : Sx.t list) : string =
  match a with
  | cmd :: argv :: idx :: _ ->
    let c = build_cmd (Sx.args cmd) in
    let tbl = collect_pv (Sx.args cmd) [] in
    let argv = Stdlib.List.map bs (Sx.args argv) in
    show_cres (EngineModel.complete_model tbl c argv (n_of_z (Sx.num idx)))
  | _ -> "badcase"

(* `(dynorder ...)`: [complete_model_ord] - the candidates in the order of the final stable sort *)
let run_order (a : Sx.t list) : string =
  match a with
  | cmd :: argv :: idx :: _ ->
    let c = build_cmd (Sx.args cmd) in
    let tbl = collect_pv (Sx.args cmd) [] in
    let ot = collect_ord (Sx.args cmd) [] in
    let argv = Stdlib.List.map bs (Sx.args argv) in
    show_cres (EngineOrder.complete_model_ord ot tbl c argv (n_of_z (Sx.num idx)))
  | _ -> "badcase"

(* `(dynstate ...)`: where the shadow parse stands when complete_arg is called (coverage matrix) *)
let run_state (a : Sx.t list) : string =
  match a with
  | cmd :: argv :: idx :: _ ->
    let c = build_cmd (Sx.args cmd) in
    let argv = Stdlib.List.map bs (Sx.args argv) in
    (match EngineModel.build_full (EngineModel.build_fuel c) c with
     | EngineModel.BOk b ->
       (match EngineModel.start_walk b argv (n_of_z (Sx.num idx)) with
        | EngineModel.WAt (_, cur, _, st, esc, _) ->
          "at " ^ hex cur.Cmd.c_name ^ " " ^ show_state st ^ (if esc then " escaped" else " plain")
        | EngineModel.WEnd -> "end"
        | EngineModel.WPanic s -> "panic " ^ Z.to_string (z_of_n s)
        | EngineModel.WFuel -> "fuel")
     | EngineModel.BInvalid -> "INVALID"
     | EngineModel.BFuel -> "OUTOFFUEL")
  | _ -> "badcase"

let () =
  let lines = Sx.read_lines Sys.argv.(1) in
  Stdlib.List.iteri (fun i line ->
    let res =
      try
        let sx = Sx.parse line in
        match Sx.head sx with
        | "dyn" | "dynaccept" -> run_dyn (Sx.args sx)
        | "dynorder" -> run_order (Sx.args sx)
        | "dynstate" -> run_state (Sx.args sx)
        | m -> "unknown-mode " ^ m
      with e -> "driver-error " ^ Printexc.to_string e in
    print_string (string_of_int i); print_char '\t'; print_endline res) lines
