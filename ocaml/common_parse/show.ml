(* Shared by every driver whose extraction contains Parse.Parser: canonical printing of matches and outcomes. *)
open Conv
let src_name = function
  | Some Matcher.SDefault -> "default" | Some Matcher.SEnv -> "env" | Some Matcher.SCmdLine -> "cmdline"
  | None -> "none"

let rec show_matches (m : Matcher.matches) : string =
  let Matcher.Matches (args, sub) = m in
  let entries = Stdlib.List.map (fun (i, ma) ->
      let open Matcher in
      Printf.sprintf "(%s %s (%s) (%s))" (hex i) (src_name ma.m_source)
        (String.concat " " (Stdlib.List.map (fun x -> Z.to_string (z_of_n x)) ma.m_indices))
        (String.concat " " (Stdlib.List.map (fun g -> "(" ^ String.concat " " (Stdlib.List.map hex g) ^ ")") ma.m_raw))) args in
  let subs = match sub with
    | None -> ""
    | Some (name, sm) -> Printf.sprintf " (sub %s %s)" (hex name) (show_matches sm) in
  "(m" ^ (if entries = [] then "" else " " ^ String.concat " " entries) ^ subs ^ ")"

let kind_name (k : Errors.ekind) : string = match k with
  | Errors.EInvalidValue -> "InvalidValue" | Errors.EUnknownArgument -> "UnknownArgument"
  | Errors.EInvalidSubcommand -> "InvalidSubcommand" | Errors.ENoEquals -> "NoEquals"
  | Errors.EValueValidation -> "ValueValidation" | Errors.ETooManyValues -> "TooManyValues"
  | Errors.ETooFewValues -> "TooFewValues" | Errors.EWrongNumberOfValues -> "WrongNumberOfValues"
  | Errors.EArgumentConflict -> "ArgumentConflict" | Errors.EMissingRequiredArgument -> "MissingRequiredArgument"
  | Errors.EMissingSubcommand -> "MissingSubcommand" | Errors.EInvalidUtf8 -> "InvalidUtf8"
  | Errors.EDisplayHelp -> "DisplayHelp" | Errors.EDisplayHelpOnMissing -> "DisplayHelpOnMissingArgumentOrSubcommand"
  | Errors.EDisplayVersion -> "DisplayVersion" | Errors.EIo -> "Io" | Errors.EFormat -> "Format"

let show_outcome (o : Parser.outcome) : string = match o with
  | Parser.OOk m -> "ok " ^ show_matches m
  | Parser.OErr e ->
    let open Errors in
    let k = kind_name e.e_kind in
    let alt = match e.e_alt with Some a -> "|" ^ kind_name a | None -> "" in
    let stderr = if Errors.use_stderr e.e_kind then "stderr" else "stdout" in
    let code = Z.to_string (z_of_coqz (Errors.exit_code e.e_kind)) in
    let head = match e.e_kind with
      | EDisplayHelp | EDisplayHelpOnMissing -> " " ^ hex e.e_cmd
      | _ -> "" in
    Printf.sprintf "err %s%s %s %s%s" k alt stderr code head
  | Parser.OPanicked s -> "PANIC site " ^ Z.to_string (z_of_n s)
  | Parser.OOutOfFuel -> "OUTOFFUEL"
  | Parser.OInvalidConfig -> "INVALID"

(* An entry whose id is not defined (argument or group) by the command of the level it sits in is
   printed `(<id> ?)`, exactly as harness/src/modes/parse.rs prints the entries the real accessors
   refuse in a debug build (a global defined only in a subcommand also lands in the matches of the
   levels above it).  [c]: the built command whose ids are valid at this level; [node]: the command
   to look subcommands up in, None below an external subcommand. *)
let defined (c : Cmd.cmd) (i : Cmd.id) : bool =
  i = [] ||
  Stdlib.List.exists (fun a -> a.Cmd.a_id = i) c.Cmd.c_args ||
  Stdlib.List.exists (fun g -> g.Cmd.g_id = i) c.Cmd.c_groups

let rec show_masked (c : Cmd.cmd) (node : Cmd.cmd option) (m : Matcher.matches) : string =
  let Matcher.Matches (args, sub) = m in
  let entries = Stdlib.List.map (fun (i, ma) ->
      let open Matcher in
      if not (defined c i) then Printf.sprintf "(%s ?)" (hex i) else
      Printf.sprintf "(%s %s (%s) (%s))" (hex i) (src_name ma.m_source)
        (String.concat " " (Stdlib.List.map (fun x -> Z.to_string (z_of_n x)) ma.m_indices))
        (String.concat " " (Stdlib.List.map (fun g -> "(" ^ String.concat " " (Stdlib.List.map hex g) ^ ")") ma.m_raw))) args in
  let subs = match sub with
    | None -> ""
    | Some (name, sm) ->
      let Matcher.Matches (sargs, _) = sm in
      let is_ext = Stdlib.List.exists (fun (i, _) -> i = []) sargs in
      let next = match node with Some n when not is_ext -> Cmd.find_subcommand n name | _ -> None in
      let s = match next with
        | Some sc -> show_masked sc (Some sc) sm
        | None -> show_masked c None sm in
      Printf.sprintf " (sub %s %s)" (hex name) s in
  "(m" ^ (if entries = [] then "" else " " ^ String.concat " " entries) ^ subs ^ ")"

let show_outcome_masked (c : Cmd.cmd) (o : Parser.outcome) : string = match o with
  | Parser.OOk m ->
    let built = Build.build_recursive (Conv.nat_of_int 12) c in
    "ok " ^ show_masked built (Some built) m
  | o -> show_outcome o
