(* Shared by every driver whose extraction contains Parse.Parser: canonical printing of matches and outcomes. *)
open Conv
let src_name = function
  | Some Matcher.SDefault -> "default" | Some Matcher.SEnv -> "env" | Some Matcher.SCmdLine -> "cmdline"
  | None -> "none"

let rec show_matches (m : Matcher.matches) : string =
  let Matcher.Matches (args, sub) = m in
  let entries = Stdlib.List.map (fun (i, ma) ->
      let open Matcher in
      Printf.sprintf "(%s %s (%s) (%s))" (hex i) (src_name ma.m_source)
        (String.concat " " (Stdlib.List.map (fun x -> Z.to_string (z_of_n x)) ma.m_indices))
        (String.concat " " (Stdlib.List.map (fun g -> "(" ^ String.concat " " (Stdlib.List.map hex g) ^ ")") ma.m_raw))) args in
  let subs = match sub with
    | None -> ""
    | Some (name, sm) -> Printf.sprintf " (sub %s %s)" (hex name) (show_matches sm) in
  "(m" ^ (if entries = [] then "" else " " ^ String.concat " " entries) ^ subs ^ ")"

let kind_name (k : Errors.ekind) : string = match k with
  | Errors.EInvalidValue -> "InvalidValue" | Errors.EUnknownArgument -> "UnknownArgument"
  | Errors.EInvalidSubcommand -> "InvalidSubcommand" | Errors.ENoEquals -> "NoEquals"
  | Errors.EValueValidation -> "ValueValidation" | Errors.ETooManyValues -> "TooManyValues"
  | Errors.ETooFewValues -> "TooFewValues" | Errors.EWrongNumberOfValues -> "WrongNumberOfValues"
  | Errors.EArgumentConflict -> "ArgumentConflict" | Errors.EMissingRequiredArgument -> "MissingRequiredArgument"
  | Errors.EMissingSubcommand -> "MissingSubcommand" | Errors.EInvalidUtf8 -> "InvalidUtf8"
  | Errors.EDisplayHelp -> "DisplayHelp" | Errors.EDisplayHelpOnMissing -> "DisplayHelpOnMissingArgumentOrSubcommand"
  | Errors.EDisplayVersion -> "DisplayVersion" | Errors.EIo -> "Io" | Errors.EFormat -> "Format"

let show_outcome (o : Parser.outcome) : string = match o with
  | Parser.OOk m -> "ok " ^ show_matches m
  | Parser.OErr e ->
    let open Errors in
    let k = kind_name e.e_kind in
    let alt = match e.e_alt with Some a -> "|" ^ kind_name a | None -> "" in
    let stderr = if Errors.use_stderr e.e_kind then "stderr" else "stdout" in
    let code = Z.to_string (z_of_coqz (Errors.exit_code e.e_kind)) in
    let head = match e.e_kind with
      | EDisplayHelp | EDisplayHelpOnMissing -> " " ^ hex e.e_cmd
      | _ -> "" in
    Printf.sprintf "err %s%s %s %s%s" k alt stderr code head
  | Parser.OPanicked s -> "PANIC site " ^ Z.to_string (z_of_n s)
  | Parser.OOutOfFuel -> "OUTOFFUEL"
  | Parser.OInvalidConfig -> "INVALID"

