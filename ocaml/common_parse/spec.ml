(* Shared by every driver whose extraction contains Parse.Cmd: builds a [Cmd.cmd] from a
   `(cmd ...)` command spec (items whose head starts with "x-" are ignored). *)
open Conv

let bs (s : Sx.t) = bs_of_ints (Sx.bytes s)
let n (s : Sx.t) = n_of_z (Sx.num s)
let vis (l : Sx.t list) = match l with [_; Sx.Sym "v"] -> true | _ -> false

let action_of = function
  | "set" -> Cmd.ASet | "append" -> Cmd.AAppend | "settrue" -> Cmd.ASetTrue
  | "setfalse" -> Cmd.ASetFalse | "count" -> Cmd.ACount | "help" -> Cmd.AHelp
  | "helpshort" -> Cmd.AHelpShort | "helplong" -> Cmd.AHelpLong | "version" -> Cmd.AVersion
  | x -> failwith ("action " ^ x)

let usize_max = Z.of_string "18446744073709551615"

let vp_of (s : Sx.t) : Cmd.vparser = match s with
  | Sx.Sym "string" -> Cmd.VPString
  | Sx.Sym "os" -> Cmd.VPOsString
  | Sx.Sym "bool" -> Cmd.VPBool
  | Sx.Sym "count" -> Cmd.VPCount
  | Sx.L [Sx.Sym "i64"; lo; hi] -> Cmd.VPI64 (z_of_z (Sx.num lo), z_of_z (Sx.num hi))
  | Sx.Sym "boolish" -> Cmd.VPBoolish
  | Sx.Sym "falsey" -> Cmd.VPFalsey
  | Sx.Sym "nonempty" -> Cmd.VPNonEmpty
  (* (pv (name alias..) (hide name alias..) ..): the [ignore_case] the parser works with is the
     argument's flag, filled in at the end of [build_arg]; [false] for an external-subcommand parser *)
  | Sx.L (Sx.Sym "pv" :: pvs) ->
    let one (x : Sx.t) = match x with
      | Sx.L (Sx.Sym "hide" :: n :: al) ->
        ({ PossibleValues.pv_name = bs n; PossibleValues.pv_aliases = Stdlib.List.map bs al }, true)
      | Sx.L (n :: al) ->
        ({ PossibleValues.pv_name = bs n; PossibleValues.pv_aliases = Stdlib.List.map bs al }, false)
      | _ -> failwith "pv" in
    Cmd.VPPossible (false, Stdlib.List.map one pvs)
  | Sx.L [Sx.Sym "int"; Sx.Sym t; lo; hi] ->
    let t = match t with
      | "u8" -> ValueBase.U8 | "i8" -> ValueBase.I8 | "u16" -> ValueBase.U16 | "i16" -> ValueBase.I16
      | "u32" -> ValueBase.U32 | "i32" -> ValueBase.I32 | "u64" -> ValueBase.U64 | "i64" -> ValueBase.I64
      | x -> failwith ("int type " ^ x) in
    Cmd.VPRanged (t, z_of_z (Sx.num lo), z_of_z (Sx.num hi))
  | _ -> failwith "vp"

let build_arg (items : Sx.t list) : Cmd.arg =
  let id = bs (Stdlib.List.hd items) in
  let a = ref (Cmd.arg_new id) in
  Stdlib.List.iter (fun it ->
    let args = Sx.args it in
    let open Cmd in
    match Sx.head it with
    | "short" -> a := { !a with a_short = Some (n (Stdlib.List.hd args)) }
    | "long" -> a := { !a with a_long = Some (bs (Stdlib.List.hd args)) }
    | "alias" -> a := { !a with a_aliases = !a.a_aliases @ [(bs (Stdlib.List.hd args), vis args)] }
    | "salias" -> a := { !a with a_short_aliases = !a.a_short_aliases @ [(n (Stdlib.List.hd args), vis args)] }
    | "index" -> a := { !a with a_index = Some (n (Stdlib.List.hd args)) }
    | "action" -> a := { !a with a_action = Some (action_of (Sx.sym (Stdlib.List.hd args))) }
    | "num" ->
      let lo = n (Stdlib.List.hd args) in
      let hi = match Stdlib.List.nth args 1 with Sx.Sym "inf" -> n_of_z usize_max | x -> n x in
      a := { !a with a_num = Some { vmin = lo; vmax = hi } }
    | "names" -> a := { !a with a_nvalnames = n (Stdlib.List.hd args) }
    | "delim" -> a := { !a with a_delim = Some (n (Stdlib.List.hd args)) }
    | "term" -> a := { !a with a_term = Some (bs (Stdlib.List.hd args)) }
    | "vp" -> a := { !a with a_vp = Some (vp_of (Stdlib.List.hd args)) }
    | "flags" ->
      Stdlib.List.iter (fun f -> match Sx.sym f with
        | "required" -> a := { !a with a_required = true }
        | "global" -> a := { !a with a_global = true }
        | "last" -> a := { !a with a_last = true }
        | "tva" -> a := { !a with a_tva = true }
        | "hyphen" -> a := { !a with a_hyphen = true }
        | "negnum" -> a := { !a with a_negnum = true }
        | "reqeq" -> a := { !a with a_req_eq = true }
        | "exclusive" -> a := { !a with a_exclusive = true }
        | "hide" -> a := { !a with a_hide = true }
        | "icase" -> a := { !a with a_ignore_case = true }
        | x -> failwith ("flag " ^ x)) args
    | "default" -> a := { !a with a_default = Stdlib.List.map bs args }
    | "dmissing" -> a := { !a with a_default_missing = Stdlib.List.map bs args }
    | "dif" ->
      (* (dif ID present [xD]) | (dif ID (eq xV) [xD]) *)
      let oid = bs (Stdlib.List.hd args) in
      let p = match Stdlib.List.nth args 1 with
        | Sx.Sym "present" -> PIsPresent
        | Sx.L [Sx.Sym "eq"; v] -> PEquals (bs v)
        | _ -> failwith "dif" in
      let d = match args with [_; _; d] -> Some (bs d) | _ -> None in
      a := { !a with a_default_ifs = !a.a_default_ifs @ [((oid, p), d)] }
    | "env" -> (match args with
        | [_; v] -> a := { !a with a_env = Some (bs v) }
        | _ -> ())
    | "conflicts" -> a := { !a with a_blacklist = !a.a_blacklist @ Stdlib.List.map bs args }
    | "overrides" -> a := { !a with a_overrides = !a.a_overrides @ Stdlib.List.map bs args }
    | "requires" -> a := { !a with a_requires = !a.a_requires @ Stdlib.List.map (fun x -> (PIsPresent, bs x)) args }
    | "requires_if" -> (match args with
        | [v; i] -> a := { !a with a_requires = !a.a_requires @ [(PEquals (bs v), bs i)] }
        | _ -> failwith "requires_if")
    | "r_if" -> (match args with
        | [i; v] -> a := { !a with a_r_ifs = !a.a_r_ifs @ [(bs i, bs v)] }
        | _ -> failwith "r_if")
    | "r_if_all" ->
      a := { !a with a_r_ifs_all = !a.a_r_ifs_all @ Stdlib.List.map (fun p -> match p with
          | Sx.L [i; v] -> (bs i, bs v) | _ -> failwith "r_if_all") args }
    | "r_unless" -> a := { !a with a_r_unless = !a.a_r_unless @ Stdlib.List.map bs args }
    | "r_unless_all" -> a := { !a with a_r_unless_all = !a.a_r_unless_all @ Stdlib.List.map bs args }
    | "groups" -> a := { !a with a_groups = !a.a_groups @ Stdlib.List.map bs args }
    | "help" -> a := { !a with a_help = Some (bs (Stdlib.List.hd args)) }
    | x when String.length x > 2 && String.sub x 0 2 = "x-" -> ()
    | x -> failwith ("arg item " ^ x)) (Stdlib.List.tl items);
  (* [PossibleValuesParser::parse_ref] reads [arg.is_ignore_case_set()] *)
  (match !a.Cmd.a_vp with
   | Some (Cmd.VPPossible (_, pvs)) -> a := { !a with Cmd.a_vp = Some (Cmd.VPPossible (!a.Cmd.a_ignore_case, pvs)) }
   | _ -> ());
  !a

let build_group (items : Sx.t list) : Cmd.group =
  let g = ref (Cmd.group_new (bs (Stdlib.List.hd items))) in
  Stdlib.List.iter (fun it ->
    let args = Sx.args it in
    let open Cmd in
    match Sx.head it with
    | "args" -> g := { !g with g_args = !g.g_args @ Stdlib.List.map bs args }
    | "required" -> g := { !g with g_required = true }
    | "multiple" -> g := { !g with g_multiple = true }
    | "requires" -> g := { !g with g_requires = !g.g_requires @ Stdlib.List.map bs args }
    | "conflicts" -> g := { !g with g_conflicts = !g.g_conflicts @ Stdlib.List.map bs args }
    | x -> failwith ("group item " ^ x)) (Stdlib.List.tl items);
  !g

(* builder methods: which AppSettings they set, and whether through global_setting *)
let apply_setting (c : Cmd.cmd) (name : string) : Cmd.cmd =
  let open Cmd in
  let both f = { c with c_set = f c.c_set; c_gset = f c.c_gset } in
  let local f = { c with c_set = f c.c_set } in
  match name with
  | "ignore_errors" -> both (fun s -> { s with s_ignore_errors = true })
  | "args_override_self" -> both (fun s -> { s with s_args_override_self = true })
  | "dont_delimit_trailing_values" -> both (fun s -> { s with s_dont_delimit_trailing = true })
  | "infer_long_args" -> both (fun s -> { s with s_infer_long = true })
  | "infer_subcommands" -> both (fun s -> { s with s_infer_sub = true })
  | "no_binary_name" -> both (fun s -> { s with s_no_binary_name = true })
  | "disable_help_flag" -> both (fun s -> { s with s_disable_help_flag = true })
  | "disable_version_flag" -> both (fun s -> { s with s_disable_version_flag = true })
  | "disable_help_subcommand" -> both (fun s -> { s with s_disable_help_sub = true })
  | "propagate_version" -> both (fun s -> { s with s_propagate_version = true })
  | "arg_required_else_help" -> local (fun s -> { s with s_arg_required_else_help = true })
  | "allow_missing_positional" -> local (fun s -> { s with s_allow_missing_pos = true })
  | "subcommand_required" -> local (fun s -> { s with s_sub_required = true })
  | "allow_external_subcommands" -> local (fun s -> { s with s_allow_external = true })
  | "args_conflicts_with_subcommands" -> local (fun s -> { s with s_args_negate_subs = true })
  | "subcommand_precedence_over_arg" -> local (fun s -> { s with s_sub_precedence = true })
  | "subcommand_negates_reqs" -> local (fun s -> { s with s_subs_negate_reqs = true })
  | "hide" -> local (fun s -> { s with s_hidden = true })
  | x -> failwith ("setting " ^ x)

let rec build_cmd (items : Sx.t list) : Cmd.cmd =
  let c = ref (Cmd.cmd_new (bs (Stdlib.List.hd items))) in
  Stdlib.List.iter (fun it ->
    let args = Sx.args it in
    let open Cmd in
    match Sx.head it with
    | "about" -> c := { !c with c_about = Some (bs (Stdlib.List.hd args)) }
    | "long_about" -> c := { !c with c_long_about = Some (bs (Stdlib.List.hd args)) }
    | "version" -> c := { !c with c_version = Some (bs (Stdlib.List.hd args)) }
    | "long_version" -> c := { !c with c_long_version = Some (bs (Stdlib.List.hd args)) }
    | "alias" -> c := { !c with c_aliases = !c.c_aliases @ [(bs (Stdlib.List.hd args), vis args)] }
    | "short_flag" -> c := { !c with c_short_flag = Some (n (Stdlib.List.hd args)) }
    | "long_flag" -> c := { !c with c_long_flag = Some (bs (Stdlib.List.hd args)) }
    | "short_flag_alias" -> c := { !c with c_short_flag_aliases = !c.c_short_flag_aliases @ [(n (Stdlib.List.hd args), vis args)] }
    | "long_flag_alias" -> c := { !c with c_long_flag_aliases = !c.c_long_flag_aliases @ [(bs (Stdlib.List.hd args), vis args)] }
    | "set" -> Stdlib.List.iter (fun s -> c := apply_setting !c (Sx.sym s)) args
    | "ext" -> c := { !c with c_ext_vp = Some (vp_of (Stdlib.List.hd args)) }
    | "arg" -> c := { !c with c_args = !c.c_args @ [build_arg args] }
    | "group" -> c := { !c with c_groups = !c.c_groups @ [build_group args] }
    | "sub" -> c := { !c with c_subs = !c.c_subs @ [build_cmd (Sx.args (Stdlib.List.hd args))] }
    | x when String.length x > 2 && String.sub x 0 2 = "x-" -> ()
    | x -> failwith ("cmd item " ^ x)) (Stdlib.List.tl items);
  !c

