(* Model driver for property C08: `(respell (cmd ..) (argv A..) (argv B..))` runs [Parser.parse_top]
   on both spellings and prints `<result A> ### <result B>`; `(parse (cmd ..) (argv ..))` as in the
   parse driver.  Ids that reach a level of the matches where they are not defined (globals
   propagated upwards) are printed as `(id ?)`, which is all the implementation can report on them
   in a debug build (ArgMatches::verify_arg). *)
open Conv
open Spec
open Show

let entry_str (i, ma) =
  let open Matcher in
  Printf.sprintf "(%s %s (%s) (%s))" (hex i) (src_name ma.m_source)
    (String.concat " " (Stdlib.List.map (fun x -> Z.to_string (z_of_n x)) ma.m_indices))
    (String.concat " " (Stdlib.List.map (fun g -> "(" ^ String.concat " " (Stdlib.List.map hex g) ^ ")") ma.m_raw))

(* [c] = the built command of this level *)
let rec show_masked (c : Cmd.cmd) (m : Matcher.matches) : string =
  let Matcher.Matches (args, sub) = m in
  let valid i =
    i = [] || (match Cmd.find_arg c i with Some _ -> true | None -> false)
    || (match Cmd.find_group c i with Some _ -> true | None -> false) in
  let entries = Stdlib.List.map (fun (i, ma) ->
      if valid i then entry_str (i, ma) else Printf.sprintf "(%s ?)" (hex i)) args in
  let subs = match sub with
    | None -> ""
    | Some (name, sm) ->
      let sc = match Cmd.find_subcommand c name with
        | Some sc0 -> (match Build.build_subcommand c sc0.Cmd.c_name with Some sc -> sc | None -> c)
        | None -> c in
      Printf.sprintf " (sub %s %s)" (hex name) (show_masked sc sm) in
  "(m" ^ (if entries = [] then "" else " " ^ String.concat " " entries) ^ subs ^ ")"

let show_one (c : Cmd.cmd) argv : string =
  match Parser.parse_top c argv with
  | Parser.OOk m -> "ok " ^ show_masked (Build.build_self c) m
  | o -> show_outcome o

let argv_of (a : Sx.t) = Stdlib.List.map bs (Sx.args a)

let run_respell (a : Sx.t list) : string =
  match a with
  | [cmd; va; vb] ->
    let c = build_cmd (Sx.args cmd) in
    show_one c (argv_of va) ^ " ### " ^ show_one c (argv_of vb)
  | _ -> "badcase"

let run_parse (a : Sx.t list) : string =
  match a with
  | [cmd; argv] -> show_one (build_cmd (Sx.args cmd)) (argv_of argv)
  | _ -> "badcase"

let () =
  let lines = Sx.read_lines Sys.argv.(1) in
  Stdlib.List.iteri (fun i line ->
    let res =
      try
        let sx = Sx.parse line in
        match Sx.head sx with
        | "respell" -> run_respell (Sx.args sx)
        | "parse" -> run_parse (Sx.args sx)
        | m -> "unknown-mode " ^ m
      with e -> "driver-error " ^ Printexc.to_string e in
    print_string (string_of_int i); print_char '\t'; print_endline res) lines
