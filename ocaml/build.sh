#!/bin/sh
# usage: ocaml/build.sh <area>   -- extract coq/extract/Extract<Area>.v and build ocaml/bin/<area>
# Re-extracts only when a .vo or the Extract file is newer than the binary.
set -e
cd "$(dirname "$0")"
area="$1"
Area="$(echo "$area" | awk '{print toupper(substr($0,1,1)) substr($0,2)}')"
ext="../coq/extract/Extract${Area}.v"
bin="bin/${area}"
mkdir -p bin "gen/${area}"
if [ -x "$bin" ] && [ -z "$(find ../coq/theories "$ext" common common_parse "${area}_driver.ml" -newer "$bin" \( -name '*.vo' -o -name '*.v' -o -name '*.ml' \) 2>/dev/null | grep -v '\.v$' ; find "$ext" "${area}_driver.ml" common common_parse -newer "$bin" 2>/dev/null)" ]; then
  exit 0
fi
rm -rf "gen/${area}"; mkdir -p "gen/${area}"
( cd "gen/${area}" && coqc -Q ../../../coq/theories ClapModel "../../$ext" >/dev/null && rm -f Extract*.vo Extract*.glob .Extract*.aux ../../../coq/extract/*.vo ../../../coq/extract/*.glob ../../../coq/extract/.*.aux 2>/dev/null; true )
cp common/sx.ml common/conv.ml "${area}_driver.ml" "gen/${area}/"
# drivers of areas whose extraction contains the command model share the spec reader / result printer
[ -f "gen/${area}/Cmd.ml" ] && cp common_parse/spec.ml "gen/${area}/"
[ -f "gen/${area}/Parser.ml" ] && cp common_parse/show.ml "gen/${area}/"
cd "gen/${area}"
rm -f *.mli
files="$(ocamlfind ocamldep -sort *.ml)"
ocamlfind ocamlopt -O2 -w -a -package zarith -linkpkg $files -o "../../bin/${area}" 2>/dev/null || ocamlfind ocamlopt -w -a -package zarith -linkpkg $files -o "../../bin/${area}"
