(* Model driver for the man area (C19): reads a case file, prints "<idx>\t<result>" per line.
   Case: (man <spec> [<twin-spec>]) -- the model renders the first spec only and prints
   "(page x<hex>) (det true)" or "PANIC <site>". *)
open Conv

let bs (x : Sx.t) = bs_of_ints (Sx.bytes x)
let arg1 it = match Sx.args it with a :: _ -> a | [] -> failwith "missing argument"

let build_pv (items : Sx.t list) : ManModel.mpv =
  let name = ref [] and help = ref None and hide = ref false in
  Stdlib.List.iter (fun it -> match Sx.head it with
    | "name" -> name := bs (arg1 it)
    | "help" -> help := Some (bs (arg1 it))
    | "hide" -> hide := true
    | h -> failwith ("unknown pv item " ^ h)) items;
  { ManModel.pv_name = !name; pv_help = !help; pv_hide = !hide }

let build_arg (items : Sx.t list) : ManModel.marg =
  let a = ref { ManModel.a_id = []; a_short = None; a_long = None; a_action = ManModel.ASet; a_num_args = None;
                a_value_names = []; a_help = None; a_long_help = None; a_hide = false;
                a_hide_short_help = false; a_hide_long_help = false; a_hide_env = false;
                a_hide_default = false; a_hide_pvs = false; a_required = false; a_defaults = [];
                a_env = None; a_pvs = []; a_heading = None } in
  Stdlib.List.iter (fun it ->
    let r = !a in
    a := (match Sx.head it with
    | "id" -> { r with ManModel.a_id = bs (arg1 it) }
    | "short" -> { r with ManModel.a_short = Some (bs (arg1 it)) }
    | "long" -> { r with ManModel.a_long = Some (bs (arg1 it)) }
    | "action" -> { r with ManModel.a_action = (match Sx.sym (arg1 it) with
        | "set" -> ManModel.ASet | "append" -> ManModel.AAppend | "settrue" -> ManModel.ASetTrue
        | "setfalse" -> ManModel.ASetFalse | "count" -> ManModel.ACount
        | k -> failwith ("unknown action " ^ k)) }
    | "num-args" -> (match Sx.args it with
        | [lo; hi] ->
          let hi = (match hi with Sx.Sym "max" -> None | _ -> Some (n_of_z (Sx.num hi))) in
          { r with ManModel.a_num_args = Some (n_of_z (Sx.num lo), hi) }
        | _ -> failwith "num-args")
    | "value-names" -> { r with ManModel.a_value_names = Stdlib.List.map bs (Sx.args it) }
    | "help" -> { r with ManModel.a_help = Some (bs (arg1 it)) }
    | "long-help" -> { r with ManModel.a_long_help = Some (bs (arg1 it)) }
    | "hide" -> { r with ManModel.a_hide = true }
    | "hide-short-help" -> { r with ManModel.a_hide_short_help = true }
    | "hide-long-help" -> { r with ManModel.a_hide_long_help = true }
    | "hide-env" -> { r with ManModel.a_hide_env = true }
    | "hide-default" -> { r with ManModel.a_hide_default = true }
    | "hide-pvs" -> { r with ManModel.a_hide_pvs = true }
    | "required" -> { r with ManModel.a_required = true }
    | "defaults" -> { r with ManModel.a_defaults = Stdlib.List.map bs (Sx.args it) }
    | "env" -> { r with ManModel.a_env = Some (bs (arg1 it)) }
    | "pv" -> { r with ManModel.a_pvs = r.ManModel.a_pvs @ [build_pv (Sx.args it)] }
    | "heading" -> { r with ManModel.a_heading = Some (bs (arg1 it)) }
    | h -> failwith ("unknown arg item " ^ h))) items;
  !a

let build_sub (items : Sx.t list) : ManModel.msub =
  let s = ref { ManModel.s_name = []; s_about = None; s_long_about = None; s_hide = false } in
  Stdlib.List.iter (fun it ->
    let r = !s in
    s := (match Sx.head it with
    | "name" -> { r with ManModel.s_name = bs (arg1 it) }
    | "about" -> { r with ManModel.s_about = Some (bs (arg1 it)) }
    | "long-about" -> { r with ManModel.s_long_about = Some (bs (arg1 it)) }
    | "hide" -> { r with ManModel.s_hide = true }
    | h -> failwith ("unknown sub item " ^ h))) items;
  !s

let build_cmd (items : Sx.t list) : ManModel.mcmd * ManModel.moverrides =
  let c = ref { ManModel.c_name = []; c_display_name = None; c_bin_name = None; c_version = None;
                c_long_version = None; c_author = None; c_about = None; c_long_about = None;
                c_after_help = None; c_after_long_help = None; c_before_long_help = None;
                c_sub_heading = None; c_sub_value_name = None; c_sub_required = false;
                c_no_help_flag = false; c_no_version_flag = false; c_no_help_sub = false;
                c_args = []; c_subs = [] } in
  let o = ref { ManModel.o_title = None; o_section = None; o_date = None; o_source = None; o_manual = None } in
  Stdlib.List.iter (fun it ->
    let r = !c in
    let v () = Some (bs (arg1 it)) in
    match Sx.head it with
    | "name" -> c := { r with ManModel.c_name = bs (arg1 it) }
    | "display-name" -> c := { r with ManModel.c_display_name = v () }
    | "bin-name" -> c := { r with ManModel.c_bin_name = v () }
    | "version" -> c := { r with ManModel.c_version = v () }
    | "long-version" -> c := { r with ManModel.c_long_version = v () }
    | "author" -> c := { r with ManModel.c_author = v () }
    | "about" -> c := { r with ManModel.c_about = v () }
    | "long-about" -> c := { r with ManModel.c_long_about = v () }
    | "after-help" -> c := { r with ManModel.c_after_help = v () }
    | "after-long-help" -> c := { r with ManModel.c_after_long_help = v () }
    | "before-long-help" -> c := { r with ManModel.c_before_long_help = v () }
    | "sub-heading" -> c := { r with ManModel.c_sub_heading = v () }
    | "sub-value-name" -> c := { r with ManModel.c_sub_value_name = v () }
    | "sub-required" -> c := { r with ManModel.c_sub_required = true }
    | "no-help-flag" -> c := { r with ManModel.c_no_help_flag = true }
    | "no-version-flag" -> c := { r with ManModel.c_no_version_flag = true }
    | "no-help-sub" -> c := { r with ManModel.c_no_help_sub = true }
    | "arg" -> c := { r with ManModel.c_args = r.ManModel.c_args @ [build_arg (Sx.args it)] }
    | "sub" -> c := { r with ManModel.c_subs = r.ManModel.c_subs @ [build_sub (Sx.args it)] }
    | "m-title" -> o := { !o with ManModel.o_title = v () }
    | "m-section" -> o := { !o with ManModel.o_section = v () }
    | "m-date" -> o := { !o with ManModel.o_date = v () }
    | "m-source" -> o := { !o with ManModel.o_source = v () }
    | "m-manual" -> o := { !o with ManModel.o_manual = v () }
    | h -> failwith ("unknown cmd item " ^ h)) items;
  (!c, !o)

let site = function
  | ManModel.NumArgsNotBuilt -> "built"
  | ManModel.VersionUnwrap -> "called `Option::unwrap()` on a `None` value"

let run_man (a : Sx.t list) : string =
  match a with
  | spec :: _ when Sx.head spec = "cmd" ->
    let (c, o) = build_cmd (Sx.args spec) in
    (match ManModel.man_page c o with
     | ManModel.Ok page -> "(page " ^ hex page ^ ") (det true)"
     | ManModel.Panic s -> "PANIC " ^ site s)
  | _ -> "BADCASE"

let () =
  let lines = Sx.read_lines Sys.argv.(1) in
  Stdlib.List.iteri (fun i line ->
    let res =
      try
        let sx = Sx.parse line in
        match Sx.head sx with
        | "man" -> run_man (Sx.args sx)
        | m -> "unknown-mode " ^ m
      with e -> "driver-error " ^ Printexc.to_string e in
    print_string (string_of_int i); print_char '\t'; print_endline res) lines
