(* Model driver for the help area (C12): reads a case file, prints "<idx>\t<result>" per line.
   `(help (cmd ...) (width N) (which short|long|usage|(flag-h p..)|(flag-help p..)|(sub-help p..)))`
   The command spec is the standard `(cmd ...)` format restricted to the items the help model
   knows, plus the `x-` extension items of this area; display_width is the byte length (the
   generators use ASCII). *)
open Conv

let bs (s : Sx.t) = bs_of_ints (Sx.bytes s)
let n (s : Sx.t) = n_of_z (Sx.num s)
let hd = Stdlib.List.hd
let usize_max = Z.of_string "18446744073709551615"

let action_of = function
  | "set" -> Cmd.ASet | "append" -> Cmd.AAppend | "settrue" -> Cmd.ASetTrue
  | "setfalse" -> Cmd.ASetFalse | "count" -> Cmd.ACount | "help" -> Cmd.AHelp
  | "helpshort" -> Cmd.AHelpShort | "helplong" -> Cmd.AHelpLong | "version" -> Cmd.AVersion
  | x -> failwith ("action " ^ x)

let vis (args : Sx.t list) = match args with [_; Sx.Sym "v"] -> true | _ -> false

let build_arg (items : Sx.t list) : UsageModel.harg =
  let open UsageModel in
  let id = bs (hd items) in
  let act = ref None in
  Stdlib.List.iter (fun it -> if Sx.head it = "action" then act := Some (action_of (Sx.sym (hd (Sx.args it))))) (Stdlib.List.tl items);
  let act = match !act with Some a -> a | None -> failwith "help specs give every arg an explicit action" in
  let a = ref (harg_new id act) in
  Stdlib.List.iter (fun it ->
    let args = Sx.args it in
    match Sx.head it with
    | "short" -> a := { !a with ha_short = Some (n (hd args)) }
    | "long" -> a := { !a with ha_long = Some (bs (hd args)) }
    | "index" -> a := { !a with ha_index = Some (n (hd args)) }
    | "action" -> ()
    | "num" ->
      let lo = n (hd args) in
      let hi = match Stdlib.List.nth args 1 with Sx.Sym "inf" -> n_of_z usize_max | x -> n x in
      a := { !a with ha_num = Some { Cmd.vmin = lo; Cmd.vmax = hi } }
    | "flags" ->
      Stdlib.List.iter (fun f -> match Sx.sym f with
        | "required" -> a := { !a with ha_required = true }
        | "last" -> a := { !a with ha_last = true }
        | "reqeq" -> a := { !a with ha_req_eq = true }
        | "hide" -> a := { !a with ha_hide = true }
        | "global" -> a := { !a with ha_global = true }
        | x -> failwith ("help area: unsupported arg flag " ^ x)) args
    | "help" | "x-help" -> a := { !a with ha_help = Some (bs (hd args)) }
    | "x-long-help" -> a := { !a with ha_long_help = Some (bs (hd args)) }
    | "x-heading" -> a := { !a with ha_heading = Some (bs (hd args)) }
    | "x-hide" -> a := { !a with ha_hide = true }
    | "x-hide-short" -> a := { !a with ha_hide_short = true }
    | "x-hide-long" -> a := { !a with ha_hide_long = true }
    | "x-hide-pv" -> a := { !a with ha_hide_pv = true }
    | "x-next-line" -> a := { !a with ha_next_line = true }
    | "x-order" -> a := { !a with ha_disp_ord = Some (n (hd args)) }
    | "x-valname" -> a := { !a with ha_valnames = !a.ha_valnames @ Stdlib.List.map bs args }
    | "alias" -> a := { !a with ha_aliases = !a.ha_aliases @ [(bs (hd args), vis args)] }
    | "salias" -> a := { !a with ha_short_aliases = !a.ha_short_aliases @ [(n (hd args), vis args)] }
    | "default" -> a := { !a with ha_defaults = Stdlib.List.map bs args }
    | "env" -> (match args with
        | [nm; v] -> a := { !a with ha_env = Some (bs nm, Some (bs v)) }
        | [nm] -> a := { !a with ha_env = Some (bs nm, None) }
        | _ -> failwith "env item")
    | "x-hide-env" -> a := { !a with ha_hide_env = true }
    | "x-hide-env-values" -> a := { !a with ha_hide_env_values = true }
    | "x-hide-default" -> a := { !a with ha_hide_default = true }
    | "requires" -> a := { !a with ha_requires = !a.ha_requires @ Stdlib.List.map (fun x -> (Cmd.PIsPresent, bs x)) args }
    | "requires_if" -> (match args with
        | [v; i] -> a := { !a with ha_requires = !a.ha_requires @ [(Cmd.PEquals (bs v), bs i)] }
        | _ -> failwith "requires_if")
    | "x-pv" ->
      let pv = ref { pv_name = bs (hd args); pv_help = None; pv_hide = false } in
      Stdlib.List.iter (fun e -> match e with
        | Sx.Sym "hide" -> pv := { !pv with pv_hide = true }
        | Sx.Bytes _ -> pv := { !pv with pv_help = Some (bs e) }
        | _ -> failwith "x-pv item") (Stdlib.List.tl args);
      a := { !a with ha_pvs = !a.ha_pvs @ [!pv] }
    | x -> failwith ("help area: unsupported arg item " ^ x)) (Stdlib.List.tl items);
  !a

let rec build_cmd (items : Sx.t list) : UsageModel.hcmd =
  let open UsageModel in
  let c = ref (hcmd_new (bs (hd items))) in
  let args = ref [] and subs = ref [] in
  let gset f = c := { !c with hc_set = f !c.hc_set; hc_gset = f !c.hc_gset } in
  Stdlib.List.iter (fun it ->
    let l = Sx.args it in
    match Sx.head it with
    | "about" -> c := { !c with hc_about = Some (bs (hd l)) }
    | "long_about" -> c := { !c with hc_long_about = Some (bs (hd l)) }
    | "version" | "long_version" -> c := { !c with hc_version = true }
    | "short_flag" -> c := { !c with hc_short_flag = Some (n (hd l)) }
    | "long_flag" -> c := { !c with hc_long_flag = Some (bs (hd l)) }
    | "set" ->
      Stdlib.List.iter (fun f -> match Sx.sym f with
        | "disable_help_flag" -> gset (fun s -> { s with hs_no_help_flag = true })
        | "disable_version_flag" -> gset (fun s -> { s with hs_no_version_flag = true })
        | "disable_help_subcommand" -> gset (fun s -> { s with hs_no_help_sub = true })
        | "subcommand_required" -> c := { !c with hc_sub_required = true }
        | "subcommand_negates_reqs" -> c := { !c with hc_negates_reqs = true }
        | "args_conflicts_with_subcommands" -> c := { !c with hc_args_conflicts = true }
        | "allow_external_subcommands" -> c := { !c with hc_allow_external = true }
        | "hide" -> c := { !c with hc_hide = true }
        | x -> failwith ("help area: unsupported setting " ^ x)) l
    | "arg" ->
      if !subs <> [] then failwith "help specs list every arg before the subcommands";
      args := !args @ [BArg (build_arg l)]
    | "x-next-heading" -> args := !args @ [BNextHeading (match l with h :: _ -> Some (bs h) | [] -> None)]
    | "sub" -> subs := !subs @ [build_cmd (Sx.args (hd l))]
    | "group" -> c := { !c with hc_groups = !c.hc_groups @ [Spec.build_group l] }
    | "x-sub-valname" -> c := { !c with hc_sub_value_name = Some (bs (hd l)) }
    | "x-sub-heading" -> c := { !c with hc_sub_heading = Some (bs (hd l)) }
    | "x-template" -> c := { !c with hc_template = Some (bs (hd l)) }
    | "x-next-line" -> gset (fun s -> { s with hs_next_line = true })
    | "x-order" -> c := { !c with hc_disp_ord = Some (n (hd l)) }
    | "x-flatten-help" -> c := { !c with hc_flatten = true }
    | x -> failwith ("help area: unsupported cmd item " ^ x)) (Stdlib.List.tl items);
  cmd_with_items !c !args !subs

let dw (s : BinNums.coq_N list) = UsageModel.len s

let toks (l : BinNums.coq_N list list) = String.concat " " (Stdlib.List.map hex l)

(* split on spaces (and newlines), dropping empty pieces *)
let split_sp (s : BinNums.coq_N list) : BinNums.coq_N list list =
  let ints = ints_of_bs s in
  let out = ref [] and cur = ref [] in
  let flush () = if !cur <> [] then (out := Stdlib.List.rev !cur :: !out; cur := []) in
  Stdlib.List.iter (fun c -> if c = 32 || c = 10 then flush () else cur := c :: !cur) ints;
  flush ();
  Stdlib.List.map bs_of_ints (Stdlib.List.rev !out)

let show_usage (pieces : BinNums.coq_N list list) =
  "(usage " ^ toks (Stdlib.List.concat (Stdlib.List.map split_sp pieces)) ^ ")"

let show_row (r : HelpModel.row) =
  let open HelpModel in
  let col = if r.r_nl then "nl" else Z.to_string (z_of_n (row_col r)) in
  Printf.sprintf "(row %s %s (pv %s) (spec %s))" (hex (row_key r.r_left)) col (toks r.r_pvs) (toks (split_sp r.r_spec))

let show_screen (s : HelpModel.screen) =
  let open HelpModel in
  let about = match s.scr_about with
    | Some a -> (match split_sp a with t :: _ -> hex t | [] -> "none")
    | None -> "none" in
  let secs = Stdlib.List.map (fun sec ->
    " (sec " ^ hex sec.s_title ^ String.concat "" (Stdlib.List.map (fun r -> " " ^ show_row r) sec.s_rows) ^ ")") s.scr_sections in
  Printf.sprintf "ok (about %s) %s%s" about (show_usage s.scr_usage) (String.concat "" secs)

(* a rendered custom template, projected like the harness projects the text: the about, the usage tokens, and
   one `(sec TITLE rows..)` per row-writing tag, TITLE being the last non-empty line (without its colon) of the
   literal text in front of the tag *)
let last_title (s : BinNums.coq_N list) : string =
  let txt = Stdlib.String.concat "" (Stdlib.List.map (fun c -> Stdlib.String.make 1 (Char.chr c)) (ints_of_bs s)) in
  let lines = Stdlib.List.filter (fun l -> Stdlib.String.trim l <> "") (Stdlib.String.split_on_char '\n' txt) in
  match Stdlib.List.rev lines with
  | l :: _ ->
    let l = Stdlib.String.trim l in
    let l = if l <> "" && l.[Stdlib.String.length l - 1] = ':' then Stdlib.String.sub l 0 (Stdlib.String.length l - 1) else l in
    hex (bs_of_ints (Stdlib.List.init (Stdlib.String.length l) (fun i -> Char.code l.[i])))
  | [] -> "x"

let show_template (ps : HelpModel.tpiece list) =
  let open HelpModel in
  let about = ref "none" and usage = ref "(nousage)" and secs = Buffer.create 256 and prev = ref [] in
  Stdlib.List.iter (fun p ->
    (match p with
     | TPText s -> prev := s
     | TPAbout (Some a) -> (match split_sp a with t :: _ -> about := hex t | [] -> ())
     | TPAbout None -> ()
     | TPUsage u -> usage := show_usage u
     | TPOptions rows | TPPositionals rows | TPSubcommands rows ->
       Buffer.add_string secs (" (sec " ^ last_title !prev ^ String.concat "" (Stdlib.List.map (fun r -> " " ^ show_row r) rows) ^ ")")
     | TPAllArgs ss ->
       Stdlib.List.iter (fun sec ->
         Buffer.add_string secs (" (sec " ^ hex sec.s_title ^ String.concat "" (Stdlib.List.map (fun r -> " " ^ show_row r) sec.s_rows) ^ ")")) ss
     | _ -> ())) ps;
  Printf.sprintf "ok (about %s) %s%s" !about !usage (Buffer.contents secs)

let render_any (c : UsageModel.hcmd) (use_long : bool) width =
  match HelpModel.render_help_template dw c use_long width with
  | None -> "PANIC"
  | Some (Some ps) -> show_template ps
  | Some None -> (match HelpModel.render_help dw c use_long width with Some s -> show_screen s | None -> "PANIC")

(* ---- round 5: flatten_help.  A case whose tree has `(x-flatten-help)` somewhere goes through HelpFlatten; the usage
   block is printed as the exact text ("Usage: " + the lines joined by "\n       "), every section with the first word
   of its about (`none` for the sections of write_all_args) ---- *)
let rec has_flatten (c : UsageModel.hcmd) =
  c.UsageModel.hc_flatten || Stdlib.List.exists has_flatten c.UsageModel.hc_subs

let s_usage_colon = bs_of_ints [85; 115; 97; 103; 101; 58; 32]
let show_usage_text (lines : BinNums.coq_N list list list) =
  "(usagetext " ^ hex (s_usage_colon @ HelpFlatten.usage_text lines) ^ ")"

let show_fscreen (s : HelpFlatten.fscreen) =
  let open HelpFlatten in
  let word a = match split_sp a with t :: _ -> hex t | [] -> "none" in
  let about = match s.fsc_about with Some a -> word a | None -> "none" in
  let rows rs = String.concat "" (Stdlib.List.map (fun r -> " " ^ show_row r) rs) in
  let secs = Stdlib.List.map (fun sec ->
    " (sec " ^ hex sec.HelpModel.s_title ^ " none" ^ rows sec.HelpModel.s_rows ^ ")") s.fsc_sections in
  let fsecs = Stdlib.List.map (fun f ->
    " (sec " ^ hex f.fs_title ^ " " ^ word f.fs_about ^ rows f.fs_rows ^ ")") s.fsc_flat in
  Printf.sprintf "ok (about %s) %s%s%s" about (show_usage_text s.fsc_usage) (String.concat "" secs) (String.concat "" fsecs)

let has_help_arg (c : UsageModel.hcmd) =
  Stdlib.List.exists (fun a -> a.UsageModel.ha_id = UsageModel.s_help) c.UsageModel.hc_args

let run_help (a : Sx.t list) : string =
  match a with
  | [cmd; w; which] ->
    let c = build_cmd (Sx.args cmd) in
    let width = n (hd (Sx.args w)) in
    let flat = has_flatten c in
    let render_any c ul width =
      if flat then (match HelpFlatten.render_help_flat dw c ul width with Some s -> show_fscreen s | None -> "PANIC")
      else render_any c ul width in
    (match hd (Sx.args which) with
     | Sx.Sym "usage" when flat ->
       (match HelpFlatten.render_usage_flat c with Some u -> "ok " ^ show_usage_text u | None -> "PANIC")
     | Sx.Sym "short" -> render_any c false width
     | Sx.Sym "long" -> render_any c true width
     | Sx.Sym "usage" -> (match HelpModel.render_usage c with Some u -> "ok " ^ show_usage u | None -> "PANIC")
     | Sx.L (Sx.Sym kind :: path) ->
       let path = Stdlib.List.map bs path in
       let root = UsageModel.h_build_self { c with UsageModel.hc_bin_name = Some c.UsageModel.hc_name } in
       (* is the flag / the help subcommand available where it is used? *)
       let avail = match kind with
         | "sub-help" ->
           Some (Stdlib.List.exists (fun s -> s.UsageModel.hc_name = UsageModel.s_help) root.UsageModel.hc_subs)
         | _ -> (match UsageModel.level_walk root path with
             | Some (Some lv) -> Some (has_help_arg lv)
             | Some None -> Some false
             | None -> None) in
       (match avail with
        | None -> "PANIC"
        | Some false -> "err"
        | Some true ->
          let use_long = kind <> "flag-h" in
          if flat then
            (match HelpFlatten.help_at_flat dw c path use_long width with
             | Some (Some s) -> show_fscreen s
             | Some None -> "err"
             | None -> "PANIC")
          else
          (match HelpModel.help_at dw c path use_long width with
           | Some (Some s) -> show_screen s
           | Some None -> "err"
           | None -> "PANIC"))
     | _ -> "badcase")
  | _ -> "badcase"

let () =
  let lines = Sx.read_lines Sys.argv.(1) in
  Stdlib.List.iteri (fun i line ->
    let res =
      try
        let sx = Sx.parse line in
        match Sx.head sx with
        | "help" -> run_help (Sx.args sx)
        | "helpf32" -> "f32"
        | m -> "unknown-mode " ^ m
      with e -> "driver-error " ^ Printexc.to_string e in
    print_string (string_of_int i); print_char '\t'; print_endline res) lines
