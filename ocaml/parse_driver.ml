(* Model driver for the parser area: builds a [Cmd.cmd] from the case's command spec
   (common_parse/spec.ml), runs [Parser.parse_top], prints the canonical result (common_parse/show.ml). *)
open Conv
open Spec
open Show

let run_parse (a : Sx.t list) : string =
  match a with
  | [cmd; argv] ->
    let c = build_cmd (Sx.args cmd) in
    let argv = Stdlib.List.map bs (Sx.args argv) in
    show_outcome_masked c (Parser.parse_top c argv)
  | _ -> "badcase"

let () =
  let lines = Sx.read_lines Sys.argv.(1) in
  Stdlib.List.iteri (fun i line ->
    let res =
      try
        let sx = Sx.parse line in
        match Sx.head sx with
        | "parse" -> run_parse (Sx.args sx)
        | m -> "unknown-mode " ^ m
      with e -> "driver-error " ^ Printexc.to_string e in
    print_string (string_of_int i); print_char '\t'; print_endline res) lines
