(* Model driver for the text-wrapping area (C20): reads a case file, prints "<idx>\t<result>" per line.
   ch_width is the finite table given in the case (widths the implementation's unicode-width
   reported, default 1); utf8_len is WrapModel.utf8_len_std; UTF-8 decoding/encoding are the
   extracted Utf8.decode / WrapModel.encode. *)
open Conv

let nstr n = Z.to_string (z_of_n n)
let tagged tag items = if items = [] then "(" ^ tag ^ ")" else "(" ^ tag ^ " " ^ String.concat " " items ^ ")"

let table (sx : Sx.t) =
  Stdlib.List.map (fun p -> match Sx.list p with
    | [c; w] -> (n_of_z (Sx.num c), n_of_z (Sx.num w))
    | _ -> failwith "bad widths entry") (Sx.args sx)

let decode (b : int list) = Utf8.decode (bs_of_ints b)
let enc s = hex (WrapModel.encode s)

let run_wrap (a : Sx.t list) : string =
  match a with
  | [s; w; tbl] ->
    let chw = WrapModel.table_width (table tbl) in
    let s = decode (Sx.bytes s) and w = n_of_z (Sx.num w) in
    let out = WrapModel.wrap chw WrapModel.utf8_len_std s w in
    let dw = WrapModel.display_width chw s in
    let lines = Stdlib.List.map (fun l ->
      "(" ^ String.concat " " (Stdlib.List.map enc (WrapModel.find_words l)) ^ ")") (WrapModel.split_inclusive s) in
    Printf.sprintf "(out %s) (dw %s) %s" (enc out) (nstr dw) (tagged "words" lines)
  | _ -> "badcase"

let run_styled (a : Sx.t list) : string =
  match a with
  | [s; w; tbl; segs] ->
    let chw = WrapModel.table_width (table tbl) in
    let w = n_of_z (Sx.num w) in
    let ranges = Stdlib.List.map (fun p -> match Sx.list p with
      | [a; b] -> (Z.to_int (Sx.num a), Z.to_int (Sx.num b))
      | _ -> failwith "bad segment") (Sx.args segs) in
    let nranges = Stdlib.List.map (fun (a, b) -> (nat_of_int a, nat_of_int b)) ranges in
    let pieces = WrapModel.pieces_of_ranges (bs_of_ints (Sx.bytes s)) Datatypes.O nranges in
    let pieces = Stdlib.List.map (fun (t, b) -> (t, Utf8.decode b)) pieces in
    let out = WrapModel.styled_wrap chw WrapModel.utf8_len_std pieces w in
    let dw = WrapModel.styled_display_width chw pieces in
    Printf.sprintf "(out %s) (sdw %s) %s" (enc out) (nstr dw)
      (tagged "segments" (Stdlib.List.map (fun (a, b) -> Printf.sprintf "(%d %d)" a b) ranges))
  | _ -> "badcase"

let () =
  let lines = Sx.read_lines Sys.argv.(1) in
  Stdlib.List.iteri (fun i line ->
    let res =
      try
        let sx = Sx.parse line in
        match Sx.head sx with
        | "wrap" -> run_wrap (Sx.args sx)
        | "styled" -> run_styled (Sx.args sx)
        | m -> "unknown-mode " ^ m
      with e -> "driver-error " ^ Printexc.to_string e in
    print_string (string_of_int i); print_char '\t'; print_endline res) lines
