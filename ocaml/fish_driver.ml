(* Model driver for the fish area (C16/C17): the byte-exact model of clap_complete's fish generator.
   (aot fish BIN (cmd NAME item...))   -> (script x<hex>) | PANIC | OUTOFFUEL        (spec format of the aot area, no texts)
   (script fish (cmd NAME item...))    -> (adv x<hex>) (inn x<hex>)                  (spec format of the aottext area)
   any other shell                     -> other-shell *)
open Conv

let bytes_of (x : Sx.t) = bs_of_ints (Sx.bytes x)
let bytes_of_string (s : string) = bs_of_ints (Stdlib.List.init (String.length s) (fun i -> Char.code s.[i]))
let sym_bytes (x : Sx.t) = match x with Sx.Sym s -> bytes_of_string s | _ -> []   (* harness: .sym() of a non-symbol is "" *)

(* ---- the aot spec format (ocaml/aot_driver.ml) ---- *)
let hint_of = function
  | "Unknown" -> AotTree.HUnknown | "Other" -> AotTree.HOther | "AnyPath" -> AotTree.HAnyPath
  | "FilePath" -> AotTree.HFilePath | "DirPath" -> AotTree.HDirPath
  | "ExecutablePath" -> AotTree.HExecutablePath | "CommandName" -> AotTree.HCommandName
  | "CommandString" -> AotTree.HCommandString | "CommandWithArguments" -> AotTree.HCommandWithArguments
  | "Username" -> AotTree.HUsername | "Hostname" -> AotTree.HHostname | "Url" -> AotTree.HUrl
  | "EmailAddress" -> AotTree.HEmailAddress
  | h -> failwith ("unknown hint " ^ h)

let build_arg (items : Sx.t list) : AotTree.arg =
  let id = bytes_of (Stdlib.List.hd items) in
  let short = ref None and long = ref None and sa = ref [] and la = ref [] in
  let act = ref AotTree.ASet and num = ref None and pvs = ref [] and has_pvs = ref false in
  let hint = ref None and glob = ref false and hide = ref false and req = ref false in
  let x_vn = ref [] and x_term = ref None and x_last = ref false and x_cx = ref [] and x_grp = ref [] in
  Stdlib.List.iter (fun it ->
    let l = Sx.args it in
    match Sx.head it with
    | "s" -> short := Some (bytes_of (Stdlib.List.hd l))
    | "l" -> long := Some (bytes_of (Stdlib.List.hd l))
    | "vsa" -> sa := (bytes_of (Stdlib.List.hd l), true) :: !sa
    | "hsa" -> sa := (bytes_of (Stdlib.List.hd l), false) :: !sa
    | "vla" -> la := (bytes_of (Stdlib.List.hd l), true) :: !la
    | "hla" -> la := (bytes_of (Stdlib.List.hd l), false) :: !la
    | "act" -> act := (match Sx.sym (Stdlib.List.hd l) with
        | "set" -> AotTree.ASet | "append" -> AotTree.AAppend | "flag" -> AotTree.ASetTrue
        | "flagfalse" -> AotTree.ASetFalse | "count" -> AotTree.ACount
        | x -> failwith ("unknown action " ^ x))
    | "num" -> (match l with
        | [a; b] -> num := Some (n_of_z (Sx.num a), n_of_z (Sx.num b))
        | _ -> failwith "num")
    | "pv" -> has_pvs := true; pvs := { AotTree.pv_name = bytes_of (Stdlib.List.hd l); pv_hide = false } :: !pvs
    | "hpv" -> has_pvs := true; pvs := { AotTree.pv_name = bytes_of (Stdlib.List.hd l); pv_hide = true } :: !pvs
    | "hint" -> hint := Some (hint_of (Sx.sym (Stdlib.List.hd l)))
    | "global" -> glob := true
    | "hide" -> hide := true
    | "required" -> req := true
    | "vn" -> x_vn := !x_vn @ Stdlib.List.map bytes_of l        (* value_names *)
    | "term" -> x_term := Some (bytes_of (Stdlib.List.hd l))                 (* value_terminator *)
    | "last" -> x_last := true
    | "cx" -> x_cx := !x_cx @ Stdlib.List.map bytes_of l        (* conflicts_with_all: ids in the order given *)
    | "grp" -> x_grp := !x_grp @ Stdlib.List.map bytes_of l     (* groups(..) *)
    | h -> failwith ("unknown arg item " ^ h)) (Stdlib.List.tl items);
  { AotTree.a_id = id; a_short = !short; a_long = !long;
    a_short_aliases = Stdlib.List.rev !sa; a_aliases = Stdlib.List.rev !la;
    a_action = !act; a_num = !num;
    a_pvs = (if !has_pvs then Some (Stdlib.List.rev !pvs) else None);
    a_hint = !hint; a_global = !glob; a_hide = !hide; a_required = !req;
    a_value_names = !x_vn; a_terminator = !x_term; a_last = !x_last; a_blacklist = !x_cx; a_groups = !x_grp }

let rec build_cmd (items : Sx.t list) : AotTree.cmd =
  let name = bytes_of (Stdlib.List.hd items) in
  let al = ref [] and args = ref [] and subs = ref [] and hide = ref false and version = ref false in
  let dhf = ref false and dvf = ref false and dhs = ref false and pver = ref false in
  Stdlib.List.iter (fun it ->
    let l = Sx.args it in
    match Sx.head it with
    | "va" -> al := (bytes_of (Stdlib.List.hd l), true) :: !al
    | "ha" -> al := (bytes_of (Stdlib.List.hd l), false) :: !al
    | "hide" -> hide := true
    | "version" -> version := true
    | "propagate-version" -> pver := true
    | "no-help-flag" -> dhf := true
    | "no-version-flag" -> dvf := true
    | "no-help-sub" -> dhs := true
    | "arg" -> args := build_arg l :: !args
    | "cmd" -> subs := build_cmd l :: !subs
    | h -> failwith ("unknown cmd item " ^ h)) (Stdlib.List.tl items);
  let st = { AotTree.s_dhf = !dhf; s_dvf = !dvf; s_dhs = !dhs; s_pver = !pver } in
  { AotTree.c_name = name; c_aliases = Stdlib.List.rev !al; c_args = Stdlib.List.rev !args;
    c_subs = Stdlib.List.rev !subs; c_bin = None; c_hide = !hide; c_version = !version;
    c_set = st; c_gset = st }

let run_aot (a : Sx.t list) : string =
  match a with
  | shell :: bin :: spec :: _ ->
    if Sx.sym shell <> "fish" then "other-shell" else
    let c = build_cmd (Sx.args spec) and bin = bytes_of bin in
    (match AotTree.build (AotTree.set_bin_name c bin) with
     | None -> "OUTOFFUEL"
     | Some _ ->
       (match FishModel.generate_fish c FishModel.cd0 bin with
        | Some s -> "(script " ^ hex s ^ ")"
        | None -> "PANIC"))
  | _ -> "badcase"

(* ---- the aottext spec format (harness/src/modes/aottext.rs) ---- *)
let hint2 = function
  | "anypath" -> AotTree.HAnyPath | "file" -> AotTree.HFilePath | "dir" -> AotTree.HDirPath
  | "exe" -> AotTree.HExecutablePath | "cmdname" -> AotTree.HCommandName | "cmdstring" -> AotTree.HCommandString
  | "user" -> AotTree.HUsername | "host" -> AotTree.HHostname | "url" -> AotTree.HUrl
  | "email" -> AotTree.HEmailAddress | "other" -> AotTree.HOther | _ -> AotTree.HUnknown

(* the first character (UTF-8) of a byte string: [.chars().next().unwrap()] *)
let first_char (b : int list) : int list =
  match b with
  | [] -> failwith "empty char"
  | c :: _ ->
    let n = if c < 0x80 then 1 else if c < 0xe0 then 2 else if c < 0xf0 then 3 else 4 in
    Stdlib.List.filteri (fun i _ -> i < n) b

let usize_max = Z.pred (Z.shift_left Z.one 64)

let text_arg v = match v with t :: _ -> bytes_of t | [] -> []

let build_arg2 (spec : Sx.t) : AotTree.arg * FishModel.adesc =
  let items = Sx.args spec in
  let id = sym_bytes (Stdlib.List.hd items) in
  let short = ref None and long = ref None and sa = ref [] and la = ref [] in
  let takes = ref false and multi = ref false and count = ref false in
  let pvs = ref [] and pvh = ref [] and hint = ref None in
  let glob = ref false and hide = ref false and req = ref false in
  let x_vn = ref [] and x_term = ref None and x_last = ref false and x_cx = ref [] and x_grp = ref [] in
  let help = ref None and long_help = ref false in
  Stdlib.List.iter (fun it ->
    let v = Sx.args it in
    match Sx.head it with
    | "short" -> short := Some (bs_of_ints (first_char (Sx.bytes (Stdlib.List.hd v))))
    | "long" -> long := Some (sym_bytes (Stdlib.List.hd v))
    | "valias" -> la := (sym_bytes (Stdlib.List.hd v), true) :: !la
    | "vshort" -> sa := (bs_of_ints (first_char (Sx.bytes (Stdlib.List.hd v))), true) :: !sa
    | "help" -> help := Some (text_arg v)
    | "long_help" -> long_help := true
    | "takes" -> takes := true
    | "multi" -> takes := true; multi := true
    | "count" -> count := true
    | "global" -> glob := true
    | "req" -> req := true
    | "last" -> x_last := true
    | "hide" -> hide := true
    | "hint" -> hint := Some (hint2 (Sx.sym (Stdlib.List.hd v)))
    | "pv" | "pvhide" ->
      pvs := { AotTree.pv_name = sym_bytes (Stdlib.List.hd v); pv_hide = (Sx.head it = "pvhide") } :: !pvs;
      pvh := (match v with _ :: t :: _ -> Some (bytes_of t) | _ -> None) :: !pvh
    | "pos" -> takes := true
    | h -> failwith ("bad arg item " ^ h)) (Stdlib.List.tl items);
  let action, num =
    if !multi then AotTree.AAppend, Some (n_of_z Z.one, n_of_z usize_max)
    else if !takes then AotTree.ASet, None
    else if !count then AotTree.ACount, None
    else AotTree.ASetTrue, None in
  ({ AotTree.a_id = id; a_short = !short; a_long = !long;
     a_short_aliases = Stdlib.List.rev !sa; a_aliases = Stdlib.List.rev !la;
     a_action = action; a_num = num;
     a_pvs = (if !pvs = [] then None else Some (Stdlib.List.rev !pvs));
     a_hint = !hint; a_global = !glob; a_hide = !hide; a_required = !req;
    a_value_names = !x_vn; a_terminator = !x_term; a_last = !x_last; a_blacklist = !x_cx; a_groups = !x_grp },
   { FishModel.ad_help = !help; ad_long = !long_help; ad_pvh = Stdlib.List.rev !pvh })

let rec build_cmd2 (spec : Sx.t) : AotTree.cmd * FishModel.cdesc =
  let items = Sx.args spec in
  let name = sym_bytes (Stdlib.List.hd items) in
  let al = ref [] and args = ref [] and subs = ref [] and version = ref false and nohelp = ref false in
  let about = ref None and lg = ref false in
  Stdlib.List.iter (fun it ->
    let v = Sx.args it in
    match Sx.head it with
    | "about" -> about := Some (text_arg v)
    | "long_about" | "before_long_help" | "after_long_help" -> lg := true
    | "before_help" | "after_help" -> ()
    | "alias" -> al := (sym_bytes (Stdlib.List.hd v), true) :: !al
    | "version" -> version := true
    | "nohelp" -> nohelp := true
    | "arg" -> args := build_arg2 it :: !args
    | "sub" -> subs := build_cmd2 (Stdlib.List.hd v) :: !subs
    | h -> failwith ("bad cmd item " ^ h)) (Stdlib.List.tl items);
  let args = Stdlib.List.rev !args and subs = Stdlib.List.rev !subs in
  let st = { AotTree.s_dhf = !nohelp; s_dvf = false; s_dhs = !nohelp; s_pver = false } in
  ({ AotTree.c_name = name; c_aliases = Stdlib.List.rev !al; c_args = Stdlib.List.map fst args;
     c_subs = Stdlib.List.map fst subs; c_bin = None; c_hide = false; c_version = !version;
     c_set = st; c_gset = st },
   { FishModel.cd_about = !about; cd_long = !lg; cd_args = Stdlib.List.map snd args;
     cd_subs = Stdlib.List.map snd subs })

let run_script (a : Sx.t list) : string =
  match a with
  | [shell; spec] when Sx.head spec = "cmd" ->
    if Sx.sym shell <> "fish" then "other-shell" else
    let (c, d) = build_cmd2 spec in
    let bin = c.AotTree.c_name in
    let gen d = match FishModel.generate_fish c d bin with Some s -> hex s | None -> "PANIC" in
    "(adv " ^ gen d ^ ") (inn " ^ gen (FishModel.innocuous_desc d) ^ ")"
  | _ -> "badcase"

let () =
  let lines = Sx.read_lines Sys.argv.(1) in
  Stdlib.List.iteri (fun i line ->
    let res =
      try
        let sx = Sx.parse line in
        match Sx.head sx with
        | "aot" -> run_aot (Sx.args sx)
        | "script" -> run_script (Sx.args sx)
        | m -> "unknown-mode " ^ m
      with e -> "driver-error " ^ Printexc.to_string e in
    print_string (string_of_int i); print_char '\t'; print_endline res) lines
