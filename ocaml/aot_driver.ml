(* Model driver for the aot area (C16): reads a case file, prints "<idx>\t<result>" per line.
   (aot SHELL BIN (cmd NAME item...)) -> (det true) (script x<hex>|none) (built <dump>) | PANIC *)
open Conv

let bytes_of (x : Sx.t) = bs_of_ints (Sx.bytes x)

let hint_of = function
  | "Unknown" -> AotTree.HUnknown | "Other" -> AotTree.HOther | "AnyPath" -> AotTree.HAnyPath
  | "FilePath" -> AotTree.HFilePath | "DirPath" -> AotTree.HDirPath
  | "ExecutablePath" -> AotTree.HExecutablePath | "CommandName" -> AotTree.HCommandName
  | "CommandString" -> AotTree.HCommandString | "CommandWithArguments" -> AotTree.HCommandWithArguments
  | "Username" -> AotTree.HUsername | "Hostname" -> AotTree.HHostname | "Url" -> AotTree.HUrl
  | "EmailAddress" -> AotTree.HEmailAddress
  | h -> failwith ("unknown hint " ^ h)

let hint_name = function
  | AotTree.HUnknown -> "Unknown" | AotTree.HOther -> "Other" | AotTree.HAnyPath -> "AnyPath"
  | AotTree.HFilePath -> "FilePath" | AotTree.HDirPath -> "DirPath"
  | AotTree.HExecutablePath -> "ExecutablePath" | AotTree.HCommandName -> "CommandName"
  | AotTree.HCommandString -> "CommandString" | AotTree.HCommandWithArguments -> "CommandWithArguments"
  | AotTree.HUsername -> "Username" | AotTree.HHostname -> "Hostname" | AotTree.HUrl -> "Url"
  | AotTree.HEmailAddress -> "EmailAddress"

let build_arg (items : Sx.t list) : AotTree.arg =
  let id = bytes_of (Stdlib.List.hd items) in
  let short = ref None and long = ref None and sa = ref [] and la = ref [] in
  let act = ref AotTree.ASet and num = ref None and pvs = ref [] and has_pvs = ref false in
  let hint = ref None and glob = ref false and hide = ref false and req = ref false in
  let x_vn = ref [] and x_term = ref None and x_last = ref false and x_cx = ref [] and x_grp = ref [] in
  Stdlib.List.iter (fun it ->
    let l = Sx.args it in
    match Sx.head it with
    | "s" -> short := Some (bytes_of (Stdlib.List.hd l))
    | "l" -> long := Some (bytes_of (Stdlib.List.hd l))
    | "vsa" -> sa := (bytes_of (Stdlib.List.hd l), true) :: !sa
    | "hsa" -> sa := (bytes_of (Stdlib.List.hd l), false) :: !sa
    | "vla" -> la := (bytes_of (Stdlib.List.hd l), true) :: !la
    | "hla" -> la := (bytes_of (Stdlib.List.hd l), false) :: !la
    | "act" -> act := (match Sx.sym (Stdlib.List.hd l) with
        | "set" -> AotTree.ASet | "append" -> AotTree.AAppend | "flag" -> AotTree.ASetTrue
        | "flagfalse" -> AotTree.ASetFalse | "count" -> AotTree.ACount
        | x -> failwith ("unknown action " ^ x))
    | "num" -> (match l with
        | [a; b] -> num := Some (n_of_z (Sx.num a), n_of_z (Sx.num b))
        | _ -> failwith "num")
    | "pv" -> has_pvs := true; pvs := { AotTree.pv_name = bytes_of (Stdlib.List.hd l); pv_hide = false } :: !pvs
    | "hpv" -> has_pvs := true; pvs := { AotTree.pv_name = bytes_of (Stdlib.List.hd l); pv_hide = true } :: !pvs
    | "hint" -> hint := Some (hint_of (Sx.sym (Stdlib.List.hd l)))
    | "global" -> glob := true
    | "hide" -> hide := true
    | "required" -> req := true
    | "vn" -> x_vn := !x_vn @ Stdlib.List.map bytes_of l        (* value_names *)
    | "term" -> x_term := Some (bytes_of (Stdlib.List.hd l))                 (* value_terminator *)
    | "last" -> x_last := true
    | "cx" -> x_cx := !x_cx @ Stdlib.List.map bytes_of l        (* conflicts_with_all: ids in the order given *)
    | "grp" -> x_grp := !x_grp @ Stdlib.List.map bytes_of l     (* groups(..) *)
    | h -> failwith ("unknown arg item " ^ h)) (Stdlib.List.tl items);
  { AotTree.a_id = id; a_short = !short; a_long = !long;
    a_short_aliases = Stdlib.List.rev !sa; a_aliases = Stdlib.List.rev !la;
    a_action = !act; a_num = !num;
    a_pvs = (if !has_pvs then Some (Stdlib.List.rev !pvs) else None);
    a_hint = !hint; a_global = !glob; a_hide = !hide; a_required = !req;
    a_value_names = !x_vn; a_terminator = !x_term; a_last = !x_last; a_blacklist = !x_cx; a_groups = !x_grp }

let rec build_cmd (items : Sx.t list) : AotTree.cmd =
  let name = bytes_of (Stdlib.List.hd items) in
  let al = ref [] and args = ref [] and subs = ref [] and hide = ref false and version = ref false in
  let dhf = ref false and dvf = ref false and dhs = ref false and pver = ref false in
  Stdlib.List.iter (fun it ->
    let l = Sx.args it in
    match Sx.head it with
    | "va" -> al := (bytes_of (Stdlib.List.hd l), true) :: !al
    | "ha" -> al := (bytes_of (Stdlib.List.hd l), false) :: !al
    | "hide" -> hide := true
    | "version" -> version := true
    | "propagate-version" -> pver := true
    | "no-help-flag" -> dhf := true
    | "no-version-flag" -> dvf := true
    | "no-help-sub" -> dhs := true
    | "arg" -> args := build_arg l :: !args
    | "cmd" -> subs := build_cmd l :: !subs
    | h -> failwith ("unknown cmd item " ^ h)) (Stdlib.List.tl items);
  (* every public setter is a global_setting: both the local and the global set *)
  let st = { AotTree.s_dhf = !dhf; s_dvf = !dvf; s_dhs = !dhs; s_pver = !pver } in
  { AotTree.c_name = name; c_aliases = Stdlib.List.rev !al; c_args = Stdlib.List.rev !args;
    c_subs = Stdlib.List.rev !subs; c_bin = None; c_hide = !hide; c_version = !version;
    c_set = st; c_gset = st }

let opt_hex = function Some b -> hex b | None -> "none"
let vis_list l =
  String.concat " " (Stdlib.List.map (fun (a, v) -> "(" ^ (if v then "v" else "h") ^ " " ^ hex a ^ ")") l)
let sp s = if s = "" then "" else " " ^ s

let dump_arg (a : AotTree.arg) : string =
  let takes = AotTree.a_takes_values a in
  let pvs = match AotTree.possible_values a with
    | None -> "none"
    | Some l -> "(some" ^ sp (String.concat " " (Stdlib.List.map (fun pv ->
        "(" ^ (if pv.AotTree.pv_hide then "h" else "v") ^ " " ^ hex pv.AotTree.pv_name ^ ")") l)) ^ ")" in
  Printf.sprintf "(arg %s (s %s) (l %s) (sa%s) (la%s) %s %s (num %s %s) (pvs %s) (hint %s) %s %s)"
    (hex a.AotTree.a_id) (opt_hex a.AotTree.a_short) (opt_hex a.AotTree.a_long)
    (sp (vis_list a.AotTree.a_short_aliases)) (sp (vis_list a.AotTree.a_aliases))
    (if takes then "tv" else "fl") (if AotTree.a_is_positional a then "pos" else "opt")
    (Z.to_string (z_of_n (AotTree.a_min_values a))) (Z.to_string (z_of_n (AotTree.a_max_values a)))
    pvs (hint_name (AotTree.a_get_hint a))
    (if a.AotTree.a_hide then "hidden" else "shown") (if a.AotTree.a_global then "global" else "local")

let rec dump_cmd (c : AotTree.cmd) : string =
  Printf.sprintf "(node %s %s %s (al%s) (args%s) (subs%s))"
    (hex c.AotTree.c_name) (opt_hex c.AotTree.c_bin) (if c.AotTree.c_hide then "hidden" else "shown")
    (sp (vis_list c.AotTree.c_aliases))
    (sp (String.concat " " (Stdlib.List.map dump_arg c.AotTree.c_args)))
    (sp (String.concat " " (Stdlib.List.map dump_cmd c.AotTree.c_subs)))

let run_aot (a : Sx.t list) : string =
  match a with
  | shell :: bin :: spec :: rest ->
    let shell = Sx.sym shell and bin = bytes_of bin in
    let queries = Stdlib.List.filter (fun q -> Sx.head q = "q") rest in
    let c = build_cmd (Sx.args spec) in
    (match AotTree.build (AotTree.set_bin_name c bin) with
     | None -> "OUTOFFUEL"
     | Some b ->
       if shell = "bash" then
         (match BashModel.bash_table b with
          | None -> "PANIC"
          | Some t ->
            let reply q =
              let words = Stdlib.List.map bytes_of (Sx.args q) in
              match BashModel.bash_complete t words with
              | None -> "(unmodelled)"
              | Some l -> "(r" ^ sp (String.concat " " (Stdlib.List.map hex l)) ^ ")" in
            "(shell bash) (det true) (script " ^ hex (BashModel.render t) ^ ") (built " ^ dump_cmd b ^ ") (syntax ok) (replies"
            ^ sp (String.concat " " (Stdlib.List.map reply queries)) ^ ")")
       else "(shell " ^ shell ^ ") (det true) (script none) (built " ^ dump_cmd b ^ ") (syntax na) (replies)")
  | _ -> "badcase"

let () =
  let lines = Sx.read_lines Sys.argv.(1) in
  Stdlib.List.iteri (fun i line ->
    let res =
      try
        let sx = Sx.parse line in
        match Sx.head sx with
        | "aot" -> run_aot (Sx.args sx)
        | m -> "unknown-mode " ^ m
      with e -> "driver-error " ^ Printexc.to_string e in
    print_string (string_of_int i); print_char '\t'; print_endline res) lines
