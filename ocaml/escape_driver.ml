(* Model driver for property C05: `(c05 (cmd ...) (pre ...) (tail ...) (alt ...))` runs
   [Parser.parse_top] on  pre ++ ["--"] ++ tail,  pre ++ ["--"] ++ alt  and  pre ++ ["--"]  and  pre
   and prints the four canonical results separated by " ;; " (same text as harness/src/modes/c05.rs). *)
open Conv
open Spec
open Show

let dashdash = bs_of_ints [45; 45]

let run_c05 (a : Sx.t list) : string =
  match a with
  | [cmd; pre; tail; alt] ->
    let c = build_cmd (Sx.args cmd) in
    let l x = Stdlib.List.map bs (Sx.args x) in
    let pre = l pre and tail = l tail and alt = l alt in
    (match Parser.parse_top c (pre @ [dashdash]) with
     | Parser.OInvalidConfig -> "INVALID"
     | rc ->
       let ra = Parser.parse_top c (pre @ [dashdash] @ tail) in
       let rb = Parser.parse_top c (pre @ [dashdash] @ alt) in
       let rd = Parser.parse_top c pre in
       show_outcome ra ^ " ;; " ^ show_outcome rb ^ " ;; " ^ show_outcome rc ^ " ;; " ^ show_outcome rd)
  | _ -> "badcase"

let () =
  let lines = Sx.read_lines Sys.argv.(1) in
  Stdlib.List.iteri (fun i line ->
    let res =
      try
        let sx = Sx.parse line in
        match Sx.head sx with
        | "c05" -> run_c05 (Sx.args sx)
        | m -> "unknown-mode " ^ m
      with e -> "driver-error " ^ Printexc.to_string e in
    print_string (string_of_int i); print_char '\t'; print_endline res) lines
