(* Model driver for property C10 (area "errors"): the kind -> stream -> exit code table of
   Parse/Errors.v and the suggestion model Errors/Suggest.v, instantiated with the similarity
   table that the case carries (exact rationals computed by the python side). *)
open Conv
open Spec

let kind_name (k : Errors.ekind) : string = match k with
  | Errors.EInvalidValue -> "InvalidValue" | Errors.EUnknownArgument -> "UnknownArgument"
  | Errors.EInvalidSubcommand -> "InvalidSubcommand" | Errors.ENoEquals -> "NoEquals"
  | Errors.EValueValidation -> "ValueValidation" | Errors.ETooManyValues -> "TooManyValues"
  | Errors.ETooFewValues -> "TooFewValues" | Errors.EWrongNumberOfValues -> "WrongNumberOfValues"
  | Errors.EArgumentConflict -> "ArgumentConflict" | Errors.EMissingRequiredArgument -> "MissingRequiredArgument"
  | Errors.EMissingSubcommand -> "MissingSubcommand" | Errors.EInvalidUtf8 -> "InvalidUtf8"
  | Errors.EDisplayHelp -> "DisplayHelp" | Errors.EDisplayHelpOnMissing -> "DisplayHelpOnMissingArgumentOrSubcommand"
  | Errors.EDisplayVersion -> "DisplayVersion" | Errors.EIo -> "Io" | Errors.EFormat -> "Format"

let run_kinds (names : Sx.t list) : string =
  String.concat " " (Stdlib.List.map (fun nm ->
    let name = Sx.sym nm in
    match Stdlib.List.find_opt (fun k -> kind_name k = name) Errors.all_kinds with
    | None -> Printf.sprintf "(%s unknown)" name
    | Some k ->
      (* stream and use_stderr are two functions of the model: both must say the same *)
      let by_stream = (match Errors.kind_stream k with Errors.Stdout -> "stdout" | Errors.Stderr -> "stderr") in
      let by_flag = if Errors.use_stderr k then "stderr" else "stdout" in
      if by_stream <> by_flag then Printf.sprintf "(%s inconsistent)" name
      else Printf.sprintf "(%s %s %s)" name by_flag (Z.to_string (z_of_coqz (Errors.exit_code k)))) names)

(* (sims (xNAME num den) ...) -> similarity of the fixed token with NAME; absent = 0 *)
let sim_of (sims : Sx.t) : BinNums.coq_N list -> BinNums.coq_N list -> QArith_base.coq_Q =
  let tbl = Stdlib.List.map (fun e -> match e with
      | Sx.L [nm; num; den] ->
        (Sx.bytes nm, { QArith_base.coq_Qnum = z_of_z (Sx.num num); QArith_base.coq_Qden = pos_of_z (Sx.num den) })
      | _ -> failwith "sims") (Sx.args sims) in
  fun _ cand ->
    match Stdlib.List.assoc_opt (ints_of_bs cand) tbl with
    | Some q -> q
    | None -> { QArith_base.coq_Qnum = z_of_z Z.zero; QArith_base.coq_Qden = pos_of_z Z.one }

let run_dym (a : Sx.t list) : string = match a with
  | [tok; cands; sims] ->
    let sim = sim_of sims in
    let r = Suggest.did_you_mean sim (bs tok) (Stdlib.List.map bs (Sx.args cands)) in
    "(" ^ String.concat " " (Stdlib.List.map hex r) ^ ")"
  | _ -> "badcase"

let run_flag (a : Sx.t list) : string = match a with
  | [cmd; arg; rem; sims] ->
    let c = Build.build_self (build_cmd (Sx.args cmd)) in
    let sim = sim_of sims in
    (match Suggest.flag_suggestion sim c (bs (Stdlib.List.hd (Sx.args arg))) (Stdlib.List.map bs (Sx.args rem)) with
     | None -> "none"
     | Some (f, None) -> Printf.sprintf "(flag %s none)" (hex f)
     | Some (f, Some s) -> Printf.sprintf "(flag %s %s)" (hex f) (hex s))
  | _ -> "badcase"

let () =
  let lines = Sx.read_lines Sys.argv.(1) in
  Stdlib.List.iteri (fun i line ->
    let res =
      try
        let sx = Sx.parse line in
        match Sx.head sx with
        | "c10-kinds" -> run_kinds (Sx.args sx)
        | "c10-dym" -> run_dym (Sx.args sx)
        | "c10-flag" -> run_flag (Sx.args sx)
        | m -> "unknown-mode " ^ m
      with e -> "driver-error " ^ Printexc.to_string e in
    print_string (string_of_int i); print_char '\t'; print_endline res) lines
