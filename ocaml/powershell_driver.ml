(* Model driver for the powershell area (C16/C17): the byte-exact model of clap_complete's PowerShell generator.
   (aot powershell BIN (cmd NAME item...) ...)   -> (shell powershell) (script x<hex>) | PANIC | OUTOFFUEL | BADSPEC
   (script powershell (cmd NAME item...))        -> (adv x<hex>) (inn x<hex>)      | PANIC | OUTOFFUEL
   Strings of the case file are UTF-8; the model works on Unicode scalar values (extracted Base.Utf8). *)
open Conv

(* ---- the only shell-specific lines of this file ---- *)
let shell_name = "powershell"
(* char::is_uppercase (Unicode property Uppercase) for the ranges the generators draw short options from:
   exact on ASCII, Latin-1, Greek and Cyrillic capitals; everything else is taken as not uppercase *)
let is_uppercase (c : BinNums.coq_N) : bool =
  let c = int_of_n c in
  (c >= 0x41 && c <= 0x5a) || (c >= 0xc0 && c <= 0xde && c <> 0xd7)
  || (c >= 0x391 && c <= 0x3a9 && c <> 0x3a2) || (c >= 0x400 && c <= 0x42f)
let model_generate c t bin = PowershellModel.generate_powershell is_uppercase c t bin
(* ---------------------------------------------------- *)

exception Bad_spec

let decode_ints (l : int list) : BinNums.coq_N list =
  let b = bs_of_ints l in
  if not (Utf8.utf8_valid b) then raise Bad_spec else Utf8.decode b
let ints_of_string (s : string) : int list =
  Stdlib.List.init (Stdlib.String.length s) (fun i -> Char.code (Stdlib.String.get s i))
(* a string operand: hex bytes or a bare symbol *)
let str_of (x : Sx.t) : BinNums.coq_N list =
  match x with
  | Sx.Bytes b -> decode_ints b
  | Sx.Sym s -> decode_ints (ints_of_string s)
  | Sx.Num z -> decode_ints (ints_of_string (Z.to_string z))
  | _ -> raise Bad_spec
let encode (cps : BinNums.coq_N list) : BinNums.coq_N list =
  Stdlib.List.concat (Stdlib.List.map Utf8.utf8_encode cps)
let hd = Stdlib.List.hd

let mk_sets dhf dvf dhs pver = { AotTree.s_dhf = dhf; s_dvf = dvf; s_dhs = dhs; s_pver = pver }

(* ---- the spec format of the aot area (harness/src/modes/aot.rs): no texts ---- *)
let aot_arg (items : Sx.t list) : AotTree.arg =
  let id = str_of (hd items) in
  let short = ref None and long = ref None and sa = ref [] and la = ref [] in
  let act = ref AotTree.ASet and num = ref None and pvs = ref [] and has_pvs = ref false in
  let glob = ref false and hide = ref false and req = ref false in
  let x_vn = ref [] and x_term = ref None and x_last = ref false and x_cx = ref [] and x_grp = ref [] in
  Stdlib.List.iter (fun it ->
    let l = Sx.args it in
    match Sx.head it with
    | "s" -> short := Some (str_of (hd l))
    | "l" -> long := Some (str_of (hd l))
    | "vsa" -> sa := (str_of (hd l), true) :: !sa
    | "hsa" -> sa := (str_of (hd l), false) :: !sa
    | "vla" -> la := (str_of (hd l), true) :: !la
    | "hla" -> la := (str_of (hd l), false) :: !la
    | "act" -> act := (match Sx.sym (hd l) with
        | "set" -> AotTree.ASet | "append" -> AotTree.AAppend | "flag" -> AotTree.ASetTrue
        | "flagfalse" -> AotTree.ASetFalse | "count" -> AotTree.ACount
        | _ -> raise Bad_spec)
    | "num" -> (match l with
        | [a; b] -> num := Some (n_of_z (Sx.num a), n_of_z (Sx.num b))
        | _ -> raise Bad_spec)
    | "pv" -> has_pvs := true; pvs := { AotTree.pv_name = str_of (hd l); pv_hide = false } :: !pvs
    | "hpv" -> has_pvs := true; pvs := { AotTree.pv_name = str_of (hd l); pv_hide = true } :: !pvs
    | "hint" -> ()                    (* not read by this generator *)
    | "global" -> glob := true
    | "hide" -> hide := true
    | "required" -> req := true
    | "vn" -> x_vn := !x_vn @ Stdlib.List.map str_of l        (* value_names *)
    | "term" -> x_term := Some (str_of (hd l))                 (* value_terminator *)
    | "last" -> x_last := true
    | "cx" -> x_cx := !x_cx @ Stdlib.List.map str_of l        (* conflicts_with_all: ids in the order given *)
    | "grp" -> x_grp := !x_grp @ Stdlib.List.map str_of l     (* groups(..) *)
    | _ -> raise Bad_spec) (Stdlib.List.tl items);
  { AotTree.a_id = id; a_short = !short; a_long = !long;
    a_short_aliases = Stdlib.List.rev !sa; a_aliases = Stdlib.List.rev !la;
    a_action = !act; a_num = !num;
    a_pvs = (if !has_pvs then Some (Stdlib.List.rev !pvs) else None);
    a_hint = None; a_global = !glob; a_hide = !hide; a_required = !req;
    a_value_names = !x_vn; a_terminator = !x_term; a_last = !x_last; a_blacklist = !x_cx; a_groups = !x_grp }

let rec aot_cmd (items : Sx.t list) : AotTree.cmd =
  let name = str_of (hd items) in
  let al = ref [] and args = ref [] and subs = ref [] and hide = ref false and version = ref false in
  let dhf = ref false and dvf = ref false and dhs = ref false and pver = ref false in
  Stdlib.List.iter (fun it ->
    let l = Sx.args it in
    match Sx.head it with
    | "va" -> al := (str_of (hd l), true) :: !al
    | "ha" -> al := (str_of (hd l), false) :: !al
    | "hide" -> hide := true
    | "version" -> version := true
    | "propagate-version" -> pver := true
    | "no-help-flag" -> dhf := true
    | "no-version-flag" -> dvf := true
    | "no-help-sub" -> dhs := true
    | "arg" -> args := aot_arg l :: !args
    | "cmd" -> subs := aot_cmd l :: !subs
    | _ -> raise Bad_spec) (Stdlib.List.tl items);
  let st = mk_sets !dhf !dvf !dhs !pver in
  { AotTree.c_name = name; c_aliases = Stdlib.List.rev !al; c_args = Stdlib.List.rev !args;
    c_subs = Stdlib.List.rev !subs; c_bin = None; c_hide = !hide; c_version = !version;
    c_set = st; c_gset = st }

(* ---- the spec format of the aottext area (harness/src/modes/aottext.rs): texts in every slot ---- *)
type tmode = Adversarial | Innocuous
let text (mode : tmode) (x : Sx.t) : BinNums.coq_N list =
  match mode with
  | Adversarial -> str_of x
  | Innocuous -> if Sx.bytes x = [] then [] else decode_ints [120; 120]

let usize_max = Z.pred (Z.shift_left Z.one 64)

let txt_arg (mode : tmode) (spec : Sx.t) : AotTree.arg * TextTree.atext =
  let items = Sx.args spec in
  let id = str_of (hd items) in
  let short = ref None and long = ref None and sa = ref [] and la = ref [] in
  let takes = ref false and multi = ref false and count = ref false in
  let glob = ref false and hide = ref false and req = ref false in
  let x_vn = ref [] and x_term = ref None and x_last = ref false and x_cx = ref [] and x_grp = ref [] in
  let pvs = ref [] and help = ref None and lng = ref false in
  Stdlib.List.iter (fun it ->
    let v = Sx.args it in
    match Sx.head it with
    | "short" -> short := Some (str_of (hd v))
    | "long" -> long := Some (str_of (hd v))
    | "valias" -> la := (str_of (hd v), true) :: !la
    | "vshort" -> sa := (str_of (hd v), true) :: !sa
    | "help" -> help := Some (text mode (hd v))
    | "long_help" -> lng := true
    | "takes" -> takes := true
    | "multi" -> takes := true; multi := true
    | "count" -> count := true
    | "global" -> glob := true
    | "req" -> req := true
    | "last" -> x_last := true
    | "hide" -> hide := true
    | "hint" -> ()
    | "pv" | "pvhide" ->
      let hidden = Sx.head it = "pvhide" in
      if Stdlib.List.length v > 1 && not hidden then lng := true;   (* PossibleValue::should_show_help *)
      pvs := { AotTree.pv_name = str_of (hd v); pv_hide = hidden } :: !pvs
    | "pos" -> takes := true
    | _ -> raise Bad_spec) (Stdlib.List.tl items);
  let action = if !multi then AotTree.AAppend else if !takes then AotTree.ASet
    else if !count then AotTree.ACount else AotTree.ASetTrue in
  ({ AotTree.a_id = id; a_short = !short; a_long = !long;
     a_short_aliases = Stdlib.List.rev !sa; a_aliases = Stdlib.List.rev !la;
     a_action = action; a_num = (if !multi then Some (n_of_int 1, n_of_z usize_max) else None);
     a_pvs = (if !pvs <> [] then Some (Stdlib.List.rev !pvs) else None);
     a_hint = None; a_global = !glob; a_hide = !hide; a_required = !req;
    a_value_names = !x_vn; a_terminator = !x_term; a_last = !x_last; a_blacklist = !x_cx; a_groups = !x_grp },
   { TextTree.at_help = !help; at_long = !lng })

let rec txt_cmd (mode : tmode) (spec : Sx.t) : AotTree.cmd * TextTree.ttree =
  let items = Sx.args spec in
  let name = str_of (hd items) in
  let al = ref [] and args = ref [] and subs = ref [] and version = ref false and nohelp = ref false in
  let about = ref None and lng = ref false in
  Stdlib.List.iter (fun it ->
    let v = Sx.args it in
    match Sx.head it with
    | "about" -> about := Some (text mode (hd v))
    | "long_about" | "before_long_help" | "after_long_help" -> lng := true
    | "before_help" | "after_help" -> ()
    | "alias" -> al := (str_of (hd v), true) :: !al
    | "version" -> version := true
    | "nohelp" -> nohelp := true
    | "arg" -> args := txt_arg mode it :: !args
    | "sub" -> subs := txt_cmd mode (hd v) :: !subs
    | _ -> raise Bad_spec) (Stdlib.List.tl items);
  let st = mk_sets !nohelp false !nohelp false in
  let args = Stdlib.List.rev !args and subs = Stdlib.List.rev !subs in
  ({ AotTree.c_name = name; c_aliases = Stdlib.List.rev !al; c_args = Stdlib.List.map fst args;
     c_subs = Stdlib.List.map fst subs; c_bin = None; c_hide = false; c_version = !version;
     c_set = st; c_gset = st },
   { TextTree.tt_about = !about; tt_long = !lng; tt_args = Stdlib.List.map snd args;
     tt_subs = Stdlib.List.map snd subs })

let out_script c t bin : string option =
  match model_generate c t bin with
  | Some s -> Some (hex (encode s))
  | None -> None

let run_aot (a : Sx.t list) : string =
  match a with
  | shell :: bin :: spec :: _ when Sx.sym shell = shell_name ->
    (try
       let bin = str_of bin in
       let c = aot_cmd (Sx.args spec) in
       (match AotTree.build (AotTree.set_bin_name c bin) with
        | None -> "OUTOFFUEL"
        | Some _ ->
          match out_script c TextTree.tt_none bin with
          | Some s -> "(shell " ^ shell_name ^ ") (script " ^ s ^ ")"
          | None -> "PANIC")
     with Bad_spec -> "BADSPEC")
  | shell :: _ -> "other-shell " ^ Sx.sym shell
  | _ -> "badcase"

let run_script (a : Sx.t list) : string =
  match a with
  | [shell; spec] when Sx.sym shell = shell_name ->
    (try
       let one mode =
         let (c, t) = txt_cmd mode spec in
         out_script c t c.AotTree.c_name in
       (match one Adversarial, one Innocuous with
        | Some adv, Some inn -> "(adv " ^ adv ^ ") (inn " ^ inn ^ ")"
        | _, _ -> "PANIC")
     with Bad_spec -> "BADSPEC")
  | shell :: _ -> "other-shell " ^ Sx.sym shell
  | _ -> "badcase"

let () =
  let lines = Sx.read_lines Sys.argv.(1) in
  Stdlib.List.iteri (fun i line ->
    let res =
      try
        let sx = Sx.parse line in
        match Sx.head sx with
        | "aot" -> run_aot (Sx.args sx)
        | "script" -> run_script (Sx.args sx)
        | m -> "unknown-mode " ^ m
      with e -> "driver-error " ^ Printexc.to_string e in
    print_string (string_of_int i); print_char '\t'; print_endline res) lines
