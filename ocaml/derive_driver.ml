(* Model driver for the derive area (C15): reads the derive input carried by each case line,
   runs the extracted DeriveModel (and the parser model underneath), prints the canonical result
   in exactly the text harness/src/modes/derive.rs prints for the real crates. *)
open Conv
open DeriveModel

let bs (s : Sx.t) = bs_of_ints (Sx.bytes s)
let n (s : Sx.t) = n_of_z (Sx.num s)
let usize_max = Z.of_string "18446744073709551615"
let sl = Stdlib.List.map
let cat = String.concat " "

(* ------------------------------------------------------------------ derive input *)
let rec syn_of (s : Sx.t) : syn_ty = match s with
  | Sx.Sym "path" -> SynPath
  | Sx.Sym "unit" -> SynUnit
  | Sx.L [Sx.Sym "option"; t] -> SynOption (syn_of t)
  | Sx.L [Sx.Sym "vec"; t] -> SynVec (syn_of t)
  | _ -> failwith "syn"

let venum_of (rows : Sx.t list) : venum =
  sl (fun r -> match r with
      | Sx.L (Sx.Sym "v" :: Sx.Sym k :: name :: aliases) ->
        { vv_skip = (k = "skip"); vv_pv = { PossibleValues.pv_name = bs name; pv_aliases = sl bs aliases };
          vv_hide = (k = "hide") }
      | _ -> failwith "venum row") rows

let vty_of (s : Sx.t) : vty = match s with
  | Sx.Sym "bool" -> TBool | Sx.Sym "u8" -> TU8 | Sx.Sym "i64" -> TI64 | Sx.Sym "str" -> TStr
  | Sx.L (Sx.Sym "enum" :: rows) -> TEnum (venum_of rows)
  | _ -> failwith "vty"

let field_of (items : Sx.t list) : field =
  match items with
  | id :: syn :: t :: kind :: attrs ->
    let k = match kind with
      | Sx.L [Sx.Sym "long"; l] -> KLong (bs l)
      | Sx.L [Sx.Sym "short"; c] -> KShort (n c)
      | Sx.Sym "pos" -> KPos
      | _ -> failwith "kind" in
    let f = ref { f_id = bs id; f_syn = syn_of syn; f_t = vty_of t; f_kind = k; f_action = None;
                  f_default = None; f_required = None; f_num = None; f_delim = None; f_icase = false } in
    Stdlib.List.iter (fun a -> match a with
        | Sx.L [Sx.Sym "action"; Sx.Sym "count"] -> f := { !f with f_action = Some Cmd.ACount }
        | Sx.L [Sx.Sym "default"; d] -> f := { !f with f_default = Some (bs d) }
        | Sx.L [Sx.Sym "required"; Sx.Sym b] -> f := { !f with f_required = Some (b = "true") }
        | Sx.L [Sx.Sym "num"; lo; hi] ->
          let hi = match hi with Sx.Sym "inf" -> n_of_z usize_max | x -> n x in
          f := { !f with f_num = Some { Cmd.vmin = n lo; vmax = hi } }
        | Sx.L [Sx.Sym "delim"; d] -> f := { !f with f_delim = Some (n d) }
        | Sx.Sym "icase" -> f := { !f with f_icase = true }
        | _ -> failwith "field attr") attrs;
    !f
  | _ -> failwith "field"

let rec node_of (s : Sx.t) : node = match s with
  | Sx.L (Sx.Sym "arg" :: items) -> NArg (field_of items)
  | Sx.L (Sx.Sym "flatten" :: Sx.Sym o :: gid :: body) -> NFlatten (o = "opt", bs gid, nodes_of body)
  | Sx.L (Sx.Sym "sub" :: Sx.Sym o :: vs) -> NSub (o = "opt", variants_of vs)
  | _ -> failwith "node"
and nodes_of (l : Sx.t list) : nodes = match l with
  | [] -> NNil
  | x :: t -> NCons (node_of x, nodes_of t)
and variants_of (l : Sx.t list) : variants = match l with
  | [] -> VNil
  | Sx.L (Sx.Sym "variant" :: cname :: gid :: body) :: t ->
    let g = match gid with Sx.L [Sx.Sym "gid"; g] -> Some (bs g) | _ -> None in
    VCons (bs cname, g, nodes_of body, variants_of t)
  | _ -> failwith "variant"

let dinput_of (s : Sx.t) : dinput = match s with
  | Sx.L (Sx.Sym "struct" :: name :: gid :: body) -> { d_name = bs name; d_gid = bs gid; d_nodes = nodes_of body }
  | _ -> failwith "struct"

(* ------------------------------------------------------------------ values *)
let show_sval = function
  | SvBool b -> string_of_bool b
  | SvInt z -> Z.to_string (z_of_coqz z)
  | SvStr s -> hex s
  | SvEnum i -> "v" ^ string_of_int (int_of_nat i)
let opt f = function None -> "none" | Some x -> "(some " ^ f x ^ ")"
let vec f l = if l = [] then "(vec)" else "(vec " ^ cat (sl f l) ^ ")"
let rec show_dval (v : dval) : string = match v with
  | DOne x -> show_sval x
  | DUnit -> "unit"
  | DOpt o -> opt show_sval o
  | DOptOpt o -> opt (opt show_sval) o
  | DVec l -> vec show_sval l
  | DOptVec o -> opt (vec show_sval) o
  | DVecVec l -> vec (vec show_sval) l
  | DOptVecVec o -> opt (vec (vec show_sval)) o
  | DStruct fs -> show_struct fs
  | DOptStruct o -> opt show_struct o
  | DEnum (i, fs) -> show_enum (i, fs)
  | DOptEnum o -> opt show_enum o
and show_struct fs = if fs = [] then "(s)" else "(s " ^ cat (sl show_dval fs) ^ ")"
and show_enum (i, fs) =
  let i = string_of_int (int_of_nat i) in
  if fs = [] then "(e " ^ i ^ ")" else "(e " ^ i ^ " " ^ cat (sl show_dval fs) ^ ")"

let sval_of (t : vty) (s : Sx.t) : sval = match t, s with
  | TBool, Sx.Sym "true" -> SvBool true
  | TBool, Sx.Sym "false" -> SvBool false
  | (TU8 | TI64), Sx.Num z -> SvInt (z_of_z z)
  | TStr, Sx.Bytes _ -> SvStr (bs s)
  | TEnum _, Sx.Sym v when String.length v > 1 && v.[0] = 'v' ->
    SvEnum (nat_of_int (int_of_string (String.sub v 1 (String.length v - 1))))
  | _ -> failwith "sval"
let opt_of f (s : Sx.t) = match s with
  | Sx.Sym "none" -> None
  | Sx.L [Sx.Sym "some"; x] -> Some (f x)
  | _ -> failwith "option value"
let vec_of f (s : Sx.t) = match s with
  | Sx.L (Sx.Sym "vec" :: l) -> sl f l
  | _ -> failwith "vec value"

let rec nth_body (vs : variants) (i : int) : nodes = match vs with
  | VNil -> failwith "variant index"
  | VCons (_, _, body, t) -> if i = 0 then body else nth_body t (i - 1)

let rec dval_of (nd : node) (s : Sx.t) : dval = match nd with
  | NArg f ->
    let sv = sval_of f.f_t in
    (match from_syn_ty f.f_syn with
     | TyUnit -> DUnit
     | TyOther -> DOne (sv s)
     | TyOption -> DOpt (opt_of sv s)
     | TyOptionOption -> DOptOpt (opt_of (opt_of sv) s)
     | TyVec -> DVec (vec_of sv s)
     | TyOptionVec -> DOptVec (opt_of (vec_of sv) s)
     | TyVecVec -> DVecVec (vec_of (vec_of sv) s)
     | TyOptionVecVec -> DOptVecVec (opt_of (vec_of (vec_of sv)) s))
  | NFlatten (false, _, body) -> DStruct (struct_of body s)
  | NFlatten (true, _, body) -> DOptStruct (opt_of (struct_of body) s)
  | NSub (false, vs) -> let (i, fs) = enum_of vs s in DEnum (i, fs)
  | NSub (true, vs) -> DOptEnum (opt_of (enum_of vs) s)
and struct_of (body : nodes) (s : Sx.t) : dval list = match s with
  | Sx.L (Sx.Sym "s" :: l) -> fields_of body l
  | _ -> failwith "struct value"
and fields_of (body : nodes) (l : Sx.t list) : dval list = match body, l with
  | NNil, [] -> []
  | NCons (nd, t), x :: r -> dval_of nd x :: fields_of t r
  | _ -> failwith "field count"
and enum_of (vs : variants) (s : Sx.t) = match s with
  | Sx.L (Sx.Sym "e" :: Sx.Num i :: l) ->
    let i = Z.to_int i in (nat_of_int i, fields_of (nth_body vs i) l)
  | _ -> failwith "enum value"

(* ------------------------------------------------------------------ results *)
let kind_name = Show.kind_name
let show_presult = function
  | PValue vs -> "ok " ^ show_struct vs
  | PError k -> "err " ^ kind_name k
  | PPanic s -> "PANIC site " ^ Z.to_string (z_of_n s)
  | PInvalid -> "INVALID"
let show_xres = function
  | XOk vs -> "ok " ^ show_struct vs
  | XErr k -> "err " ^ kind_name k
  | XPanic s -> "PANIC site " ^ Z.to_string (z_of_n s)
let prog = bs_of_ints [112; 114; 111; 103]
let argv_of (s : Sx.t) = prog :: sl bs (Sx.list s)

(* ------------------------------------------------------------------ command dump *)
let action_name = function
  | Cmd.ASet -> "set" | Cmd.AAppend -> "append" | Cmd.ASetTrue -> "settrue" | Cmd.ASetFalse -> "setfalse"
  | Cmd.ACount -> "count" | Cmd.AHelp -> "help" | Cmd.AHelpShort -> "helpshort" | Cmd.AHelpLong -> "helplong"
  | Cmd.AVersion -> "version"
let optn f = function None -> "-" | Some x -> f x
let nstr x = Z.to_string (z_of_n x)
let s_help = bs_of_ints [104; 101; 108; 112]
let s_version = bs_of_ints [118; 101; 114; 115; 105; 111; 110]
let rec dump_cmd (c : Cmd.cmd) : string =
  let open Cmd in
  let args = Stdlib.List.filter (fun a -> a.a_id <> s_help && a.a_id <> s_version) c.c_args in
  let arg a =
    let num = match a.a_num with
      | Some r -> Printf.sprintf "(num %s %s)" (nstr r.vmin)
                    (if Z.equal (z_of_n r.vmax) usize_max then "inf" else nstr r.vmax)
      | None -> "(num none)" in
    Printf.sprintf "(arg %s %s %s %s %s %s %s (default %s) (delim %s) %s)" (hex a.a_id)
      (match a.a_action with Some x -> action_name x | None -> "none") num
      (if a.a_required then "required" else "optional")
      (optn nstr a.a_short) (optn hex a.a_long) (optn nstr a.a_index)
      (cat (sl hex a.a_default)) (optn nstr a.a_delim) (if a.a_ignore_case then "icase" else "case") in
  let grp g =
    Printf.sprintf "(group %s %s %s (%s))" (hex g.g_id) (if g.g_multiple then "multiple" else "single")
      (if g.g_required then "required" else "optional") (cat (sl hex g.g_args)) in
  let set = Printf.sprintf "(set %s %s)" (if c.c_set.s_sub_required then "sub_required" else "-")
      (if c.c_set.s_arg_required_else_help then "arg_required_else_help" else "-") in
  let subs = Stdlib.List.filter (fun s -> s.c_name <> s_help) c.c_subs in
  let sub s = Printf.sprintf "(sub %s %s)" (hex s.c_name) (dump_cmd s) in
  "(" ^ cat (sl arg args @ sl grp c.c_groups @ [set] @ sl sub subs) ^ ")"

(* ------------------------------------------------------------------ tie: parse (print v) ~ matches_of_print v *)
let rec norm_matches (m : Matcher.matches) : string =
  let Matcher.Matches (args, sub) = m in
  let open Matcher in
  let ents = sl (fun (i, ma) ->
      Printf.sprintf "(%s %s %s)" (hex i)
        (match ma.m_source with Some SCmdLine -> "cmdline" | Some SDefault -> "default" | Some SEnv -> "env" | None -> "none")
        (if ma.m_is_group then "group"
         else cat (sl (fun g -> "(" ^ cat (sl hex g) ^ ")") ma.m_raw))) args in
  let ents = Stdlib.List.sort compare ents in
  let s = match sub with None -> "" | Some (nm, sm) -> " (sub " ^ hex nm ^ " " ^ norm_matches sm ^ ")" in
  "(" ^ cat ents ^ s ^ ")"

let tie (d : dinput) (vs : dval list) (argv : BinNums.coq_N list list) : string =
  match matches_of_print d vs with
  | None -> "(tie none)"
  | Some mp ->
    (match Parser.parse_top (derive_cmd d) (prog :: argv) with
     | Parser.OOk m ->
       let a = norm_matches m and b = norm_matches mp in
       if a = b then "(tie ok)" else "(tie bad parsed " ^ a ^ " printed " ^ b ^ ")"
     | _ -> "(tie noparse)")   (* the round trip itself fails; visible in (back ..) on both sides *)

(* ------------------------------------------------------------------ modes *)
let top_nodes (d : dinput) = NFlatten (false, d.d_gid, d.d_nodes)
let value_of (d : dinput) (s : Sx.t) : dval list = struct_of d.d_nodes s

let run (mode : string) (a : Sx.t list) : string =
  match mode, a with
  | "dcmd", [_; spec; Sx.Sym which] ->
    let d = dinput_of spec in
    let c = if which = "update" then derive_cmd_for_update d else derive_cmd d in
    dump_cmd (Build.build_recursive (nat_of_int 12) c)
  | "dparse", [_; spec; argv] ->
    let d = dinput_of spec in
    let argv = argv_of argv in
    let direct = show_presult (derived_parse d argv) in
    let cmd, fam = match Parser.parse_top (derive_cmd d) argv with
      | Parser.OOk m -> "(cmd ok)", "(fam " ^ show_xres (extract d m) ^ ")"
      | Parser.OErr e -> "(cmd err " ^ kind_name e.Errors.e_kind ^ ")", "(fam skipped)"
      | o -> "(cmd " ^ Show.show_outcome o ^ ")", "(fam skipped)" in
    Printf.sprintf "(try %s) %s %s" direct cmd fam
  | "dround", [_; spec; v] ->
    let d = dinput_of spec in
    let vs = value_of d v in
    (match print d vs with
     | None -> "unprintable"
     | Some argv ->
       let back = derived_parse d (prog :: argv) in
       let same = (match back with PValue vs' -> vs' = vs | _ -> false) in
       Printf.sprintf "(argv %s) (back %s) (same %b) %s" (cat (sl hex argv)) (show_presult back) same (tie d vs argv))
  | "dupdate", (_ :: spec :: v :: argvs) ->
    let d = dinput_of spec in
    let rec go vs argvs = match argvs with
      | [] -> []
      | av :: t ->
        (match derived_update d vs (argv_of av) with
         | PValue vs' -> ("(ok " ^ show_struct vs' ^ ")") :: go vs' t
         | r -> ["(" ^ show_presult r ^ ")"]) in
    cat (go (value_of d v) argvs)
  | "venum", [_; spec; input; Sx.Sym icase] ->
    let e = (match vty_of spec with TEnum e -> e | _ -> failwith "enum spec") in
    let r = match ve_from_str e (bs input) (icase = "true") with
      | Some i -> "(some " ^ string_of_int (int_of_nat i) ^ ")"
      | None -> "none" in
    let rows = sl (fun (i, pv) ->
        "(" ^ string_of_int (int_of_nat i) ^ " " ^ cat (sl hex (PossibleValues.name_and_aliases pv)) ^ ")") (lits e) in
    Printf.sprintf "(r %s) (table (%s))" r (cat rows)
  | _ -> "badcase"

let () =
  let lines = Sx.read_lines Sys.argv.(1) in
  Stdlib.List.iteri (fun i line ->
    let res =
      try
        let sx = Sx.parse line in
        run (Sx.head sx) (Sx.args sx)
      with e -> "driver-error " ^ Printexc.to_string e in
    print_string (string_of_int i); print_char '\t'; print_endline res) lines
