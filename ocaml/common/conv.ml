(* Conversions between OCaml/zarith numbers and the extracted Coq inductives.
   Compiled once per area against that area's BinNums/Datatypes. *)
open BinNums

let rec pos_of_z (z : Z.t) : positive =
  if Z.equal z Z.one then Coq_xH
  else if Z.testbit z 0 then Coq_xI (pos_of_z (Z.shift_right z 1))
  else Coq_xO (pos_of_z (Z.shift_right z 1))

let n_of_z (z : Z.t) : coq_N = if Z.sign z <= 0 then N0 else Npos (pos_of_z z)
let z_of_z (z : Z.t) : coq_Z =
  if Z.sign z = 0 then Z0 else if Z.sign z > 0 then Zpos (pos_of_z z) else Zneg (pos_of_z (Z.neg z))

let rec z_of_pos (p : positive) : Z.t = match p with
  | Coq_xH -> Z.one
  | Coq_xO q -> Z.shift_left (z_of_pos q) 1
  | Coq_xI q -> Z.succ (Z.shift_left (z_of_pos q) 1)

let z_of_n = function N0 -> Z.zero | Npos p -> z_of_pos p
let z_of_coqz = function Z0 -> Z.zero | Zpos p -> z_of_pos p | Zneg p -> Z.neg (z_of_pos p)

let n_of_int (i : int) : coq_N = n_of_z (Z.of_int i)
let int_of_n (n : coq_N) : int = Z.to_int (z_of_n n)

let rec nat_of_int (i : int) : Datatypes.nat = if i <= 0 then Datatypes.O else Datatypes.S (nat_of_int (i - 1))
let rec int_of_nat (n : Datatypes.nat) : int = match n with Datatypes.O -> 0 | Datatypes.S m -> 1 + int_of_nat m

(* byte strings: list of N *)
let bs_of_ints (l : int list) : coq_N list = Stdlib.List.map n_of_int l
let ints_of_bs (l : coq_N list) : int list = Stdlib.List.map int_of_n l
let hex (l : coq_N list) : string = Sx.hex_of_ints (ints_of_bs l)
