(* Minimal S-expression reader shared by every model driver.
   Atoms: symbols, decimal numbers (arbitrary size, optional leading '-'),
   byte strings written x<hex>.  One case per line. *)
type t = Sym of string | Num of Z.t | Bytes of int list | L of t list

exception Parse_error of string

let is_delim c = c = ' ' || c = '\t' || c = '(' || c = ')'

let parse (s : string) : t =
  let n = String.length s in
  let i = ref 0 in
  let skip () = while !i < n && (s.[!i] = ' ' || s.[!i] = '\t') do incr i done in
  let rec go () =
    skip ();
    if !i >= n then raise (Parse_error "eof");
    if s.[!i] = '(' then begin
      incr i;
      let items = ref [] in
      let fin = ref false in
      while not !fin do
        skip ();
        if !i >= n then raise (Parse_error "unclosed");
        if s.[!i] = ')' then (incr i; fin := true)
        else items := go () :: !items
      done;
      L (Stdlib.List.rev !items)
    end else begin
      let st = !i in
      while !i < n && not (is_delim s.[!i]) do incr i done;
      let tok = String.sub s st (!i - st) in
      let len = String.length tok in
      let all p from = let ok = ref (len > from) in
        for k = from to len - 1 do if not (p tok.[k]) then ok := false done; !ok in
      let is_hex c = (c >= '0' && c <= '9') || (c >= 'a' && c <= 'f') || (c >= 'A' && c <= 'F') in
      let is_dig c = c >= '0' && c <= '9' in
      if len >= 1 && tok.[0] = 'x' && (len = 1 || (all is_hex 1 && (len - 1) mod 2 = 0)) then begin
        let out = ref [] in
        let k = ref 1 in
        while !k < len do
          out := int_of_string ("0x" ^ String.sub tok !k 2) :: !out; k := !k + 2
        done;
        Bytes (Stdlib.List.rev !out)
      end
      else if all is_dig 0 || (len >= 2 && tok.[0] = '-' && all is_dig 1) then Num (Z.of_string tok)
      else Sym tok
    end
  in
  let v = go () in
  skip ();
  if !i <> n then raise (Parse_error "trailing input");
  v

let list = function L l -> l | _ -> []
let head = function L (Sym s :: _) -> s | _ -> ""
let args = function L (_ :: r) -> r | _ -> []
let bytes = function Bytes b -> b | _ -> raise (Parse_error "expected bytes")
let num = function Num z -> z | _ -> raise (Parse_error "expected num")
let sym = function Sym s -> s | _ -> raise (Parse_error "expected sym")

let hex_of_ints (l : int list) : string =
  let b = Buffer.create (2 * Stdlib.List.length l + 1) in
  Buffer.add_char b 'x';
  Stdlib.List.iter (fun c -> Buffer.add_string b (Printf.sprintf "%02x" c)) l;
  Buffer.contents b

(* read all lines of a file *)
let read_lines (path : string) : string list =
  let ic = open_in path in
  let rec go acc = match input_line ic with
    | l -> go (l :: acc)
    | exception End_of_file -> close_in ic; Stdlib.List.rev acc in
  go []
