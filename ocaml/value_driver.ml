(* Model driver for the value area (C04): reads a case file, prints "<idx>\t<result>" per line. *)
open Conv

let kind_str = function
  | ValueBase.InvalidUtf8 -> "InvalidUtf8"
  | ValueBase.ValueValidation -> "ValueValidation"
  | ValueBase.InvalidValue -> "InvalidValue"

let argflag k = if ValueBase.kind_names_arg k then "arg" else "noarg"

let ity_of = function
  | "u8" -> ValueBase.U8 | "i8" -> ValueBase.I8 | "u16" -> ValueBase.U16 | "i16" -> ValueBase.I16
  | "u32" -> ValueBase.U32 | "i32" -> ValueBase.I32 | "u64" -> ValueBase.U64 | "i64" -> ValueBase.I64
  | s -> failwith ("bad int type " ^ s)

let dbg_of = function "debug" -> true | "release" -> false | s -> failwith ("bad profile " ^ s)

let bound_of (s : Sx.t) : ValueBase.bound =
  match s with
  | Sx.Sym "none" -> ValueBase.Unbounded
  | Sx.L [Sx.Sym "incl"; n] -> ValueBase.Included (z_of_z (Sx.num n))
  | Sx.L [Sx.Sym "excl"; n] -> ValueBase.Excluded (z_of_z (Sx.num n))
  | _ -> failwith "bad bound"

let int_err_str = function
  | IntParse.IEmpty -> "empty"
  | IntParse.IInvalidDigit -> "invalid_digit"
  | IntParse.IPosOverflow -> "pos_overflow"
  | IntParse.INegOverflow -> "neg_overflow"

let reject_str = function
  | IntParse.RUtf8 -> "utf8"
  | IntParse.RParse e -> int_err_str e
  | IntParse.RRange -> "range"
  | IntParse.RNarrow -> "narrow"

(* both observation points print the same verdict: the direct parse_ref call (with the reason)
   and the Command path (with the reported raw value) *)
let two ~direct ~cmd = Printf.sprintf "direct=%s cmd=%s" direct cmd

let run_int (a : Sx.t list) : string =
  match a with
  | [prof; ty; lo; hi; s] ->
    let dbg = dbg_of (Sx.sym prof) in
    let t = ity_of (Sx.sym ty) in
    let raw = Sx.bytes s in
    let user = Some (bound_of lo, bound_of hi) in
    (match IntFactory.int_value_parse_d dbg t user (bs_of_ints raw) with
     | None -> "build-panic"
     | Some (IntParse.DOk z) ->
       let d = Z.to_string (z_of_coqz z) in
       two ~direct:(Printf.sprintf "(ok %s)" d) ~cmd:(Printf.sprintf "(ok %s %s)" d (Sx.hex_of_ints raw))
     | Some (IntParse.DErr r) ->
       let k = IntParse.reject_kind r in
       two ~direct:(Printf.sprintf "(err %s %s %s)" (kind_str k) (reject_str r) (argflag k))
         ~cmd:(Printf.sprintf "(err %s %s)" (kind_str k) (argflag k)))
  | _ -> "badcase"

let show_v (f : 'a -> string) (raw : int list) (r : 'a ValueBase.vresult) : string =
  match r with
  | ValueBase.VOk v ->
    two ~direct:(Printf.sprintf "(ok %s)" (f v)) ~cmd:(Printf.sprintf "(ok %s %s)" (f v) (Sx.hex_of_ints raw))
  | ValueBase.VErr k ->
    let e = Printf.sprintf "(err %s %s)" (kind_str k) (argflag k) in
    two ~direct:e ~cmd:e

let run_bool (a : Sx.t list) : string =
  match a with
  | [kind; s] ->
    let raw = Sx.bytes s in
    let b = bs_of_ints raw in
    (match Sx.sym kind with
     | "bool" -> show_v string_of_bool raw (BoolParse.bool_parse b)
     | "boolish" -> show_v string_of_bool raw (BoolParse.boolish_parse b)
     | "falsey" -> show_v string_of_bool raw (BoolParse.falsey_parse b)
     | "nonempty" -> show_v hex raw (BoolParse.nonempty_parse b)
     | "string" -> show_v hex raw (BoolParse.string_parse b)
     | k -> "bad-kind " ^ k)
  | _ -> "badcase"

let pvs_of (l : Sx.t) : PossibleValues.possible_value list =
  Stdlib.List.map (fun pv ->
      (* a leading `hide` marks a declared value hidden from listings: PossibleValue::matches does not consult it *)
      match (match Sx.list pv with Sx.Sym "hide" :: r -> r | l -> l) with
      | n :: al -> { PossibleValues.pv_name = bs_of_ints (Sx.bytes n);
                     pv_aliases = Stdlib.List.map (fun x -> bs_of_ints (Sx.bytes x)) al }
      | [] -> failwith "empty possible value") (Sx.list l)

let bool_of = function "true" -> true | "false" -> false | s -> failwith ("bad bool " ^ s)

let run_possible (a : Sx.t list) : string =
  match a with
  | [ic; pvs; s] ->
    let raw = Sx.bytes s in
    show_v hex raw (PossibleValues.possible_parse true (bool_of (Sx.sym ic)) (pvs_of pvs) (bs_of_ints raw))
  | _ -> "badcase"

let run_enum (a : Sx.t list) : string =
  match a with
  | [ic; pvs; s] ->
    let raw = Sx.bytes s in
    show_v (fun n -> string_of_int (int_of_nat n)) raw
      (PossibleValues.enum_parse true (bool_of (Sx.sym ic)) (pvs_of pvs) (bs_of_ints raw))
  | _ -> "badcase"

(* ---- typed store *)
let type_names = ["u8"; "i8"; "u16"; "i16"; "u32"; "i32"; "u64"; "i64"; "string"; "bool"]
let tag_of (s : string) : int =
  let rec go i = function [] -> failwith ("bad type " ^ s) | x :: r -> if x = s then i else go (i + 1) r in
  go 0 type_names
let name_of_tag (n : int) : string = try Stdlib.List.nth type_names n with _ -> "?"

let bytes_of_string (s : string) : BinNums.coq_N list =
  bs_of_ints (Stdlib.List.init (String.length s) (fun i -> Char.code s.[i]))

exception Build_err of ValueBase.err_kind
exception Build_panic

(* typed value (canonical rendering) the arg's value parser produces from a raw string *)
let parse_typed (dbg : bool) (ty : string) (raw : BinNums.coq_N list) : BinNums.coq_N list =
  let of_v f = function ValueBase.VOk v -> f v | ValueBase.VErr k -> raise (Build_err k) in
  match ty with
  | "string" -> of_v (fun v -> v) (BoolParse.string_parse raw)
  | "bool" -> of_v (fun b -> bytes_of_string (string_of_bool b)) (BoolParse.bool_parse raw)
  | _ ->
    (match IntFactory.int_value_parse_d dbg (ity_of ty) None raw with
     | None -> raise Build_panic
     | Some (IntParse.DOk z) -> bytes_of_string (Z.to_string (z_of_coqz z))
     | Some (IntParse.DErr r) -> raise (Build_err (IntParse.reject_kind r)))

let parse_op (s : Sx.t) : TypedStore.op =
  let idt = function [i; t] -> (bs_of_ints (Sx.bytes i), n_of_int (tag_of (Sx.sym t))) | _ -> failwith "bad op args" in
  match Sx.head s, Sx.args s with
  | "get_one", a -> let (i, t) = idt a in TypedStore.GetOne (i, t)
  | "get_many", a -> let (i, t) = idt a in TypedStore.GetMany (i, t)
  | "remove_one", a -> let (i, t) = idt a in TypedStore.RemoveOne (i, t)
  | "remove_many", a -> let (i, t) = idt a in TypedStore.RemoveMany (i, t)
  | "ids", _ -> TypedStore.Ids
  | h, _ -> failwith ("bad op " ^ h)

let show_out (o : TypedStore.out) : string =
  match o with
  | TypedStore.OErr (TypedStore.Downcast (a, e)) ->
    Printf.sprintf "(err downcast %s %s)" (name_of_tag (int_of_n a)) (name_of_tag (int_of_n e))
  | TypedStore.OErr TypedStore.UnknownArgument -> "(err unknown)"
  | TypedStore.ONone -> "none"
  | TypedStore.OOne v -> Printf.sprintf "(one %s)" (hex v)
  | TypedStore.OMany vs -> "(many" ^ String.concat "" (Stdlib.List.map (fun v -> " " ^ hex v) vs) ^ ")"
  | TypedStore.OIds l -> "(ids" ^ String.concat "" (Stdlib.List.map (fun v -> " " ^ hex v) l) ^ ")"
  | TypedStore.OPanic -> "panic"

let run_store (a : Sx.t list) : string =
  match a with
  | [prof; decls; ops] ->
    let dbg = dbg_of (Sx.sym prof) in
    (try
       let decls = Stdlib.List.map (fun d ->
           match Sx.list d with
           | i :: t :: vals -> (bs_of_ints (Sx.bytes i), Sx.sym t, Stdlib.List.map (fun v -> bs_of_ints (Sx.bytes v)) vals)
           | _ -> failwith "bad decl") (Sx.list decls) in
       let entries = Stdlib.List.filter_map (fun (i, t, vals) ->
           if vals = [] then None
           else
             let typed = Stdlib.List.map (fun raw -> (parse_typed dbg t raw, raw)) vals in
             Some (i, TypedStore.mk_entry (n_of_int (tag_of t)) typed)) decls in
       let st = { TypedStore.valid_args = Stdlib.List.map (fun (i, _, _) -> i) decls; args = entries } in
       let (outs, st') = TypedStore.run dbg st (Stdlib.List.map parse_op (Sx.list ops)) in
       let rec cut = function
         | [] -> []
         | TypedStore.OPanic :: _ -> ["panic"]
         | o :: r -> show_out o :: cut r in
       let fin = Stdlib.List.map (fun (i, e) ->
           (hex i, Stdlib.List.map hex (Stdlib.List.concat e.TypedStore.e_raw))) st'.TypedStore.args in
       let fin = Stdlib.List.sort compare fin in
       let fin_s = String.concat " " (Stdlib.List.map (fun (i, raws) ->
           "(" ^ i ^ " (" ^ String.concat " " raws ^ "))") fin) in
       "ops=(" ^ String.concat " " (cut outs) ^ ") final=(" ^ fin_s ^ ")"
     with
     | Build_err k -> "builderr " ^ kind_str k
     | Build_panic -> "build-panic")
  | _ -> "badcase"

let () =
  let lines = Sx.read_lines Sys.argv.(1) in
  Stdlib.List.iteri (fun i line ->
    let res =
      try
        let sx = Sx.parse line in
        match Sx.head sx with
        | "int" -> run_int (Sx.args sx)
        | "bool" -> run_bool (Sx.args sx)
        | "possible" -> run_possible (Sx.args sx)
        | "enum" -> run_enum (Sx.args sx)
        | "store" -> run_store (Sx.args sx)
        | m -> "unknown-mode " ^ m
      with e -> "driver-error " ^ Printexc.to_string e in
    print_string (string_of_int i); print_char '\t'; print_endline res) lines
