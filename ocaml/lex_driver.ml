(* Model driver for the clap_lex area: reads a case file, prints "<idx>\t<result>" per line. *)
open Conv

let opt f = function None -> "none" | Some x -> "(some " ^ f x ^ ")"
let nat n = string_of_int (int_of_nat n)
let hexlist l = "(" ^ String.concat " " (Stdlib.List.map hex l) ^ ")"

let run_osstr (a : Sx.t list) : string =
  match a with
  | [h; n] ->
    let h = bs_of_ints (Sx.bytes h) and n = bs_of_ints (Sx.bytes n) in
    let find = opt nat (OsStrExtModel.find h n) in
    let contains = string_of_bool (OsStrExtModel.contains h n) in
    let sw = string_of_bool (Bytes.starts_with h n) in
    let sp = opt hex (OsStrExtModel.strip_prefix h n) in
    let so = opt (fun (a, b) -> hex a ^ " " ^ hex b) (OsStrExtModel.split_once h n) in
    let spl = match OsStrExtModel.split h n with
      | OsStrExtModel.SplitPanic -> "panic"
      | OsStrExtModel.SplitOutOfFuel -> "outoffuel"
      | OsStrExtModel.SplitOk l -> hexlist l in
    Printf.sprintf "(find %s) (contains %s) (starts_with %s) (strip_prefix %s) (split_once %s) (split %s)"
      find contains sw sp so spl
  | _ -> "badcase"

let parse_op (s : Sx.t) : CursorModel.cop =
  match Sx.head s, Sx.args s with
  | "next", _ -> CursorModel.Next
  | "peek", _ -> CursorModel.Peek
  | "remaining", _ -> CursorModel.Remaining
  | "is_end", _ -> CursorModel.IsEnd
  | "seek_start", [p] -> CursorModel.Seek (CursorModel.SeekStart (n_of_z (Sx.num p)))
  | "seek_end", [p] -> CursorModel.Seek (CursorModel.SeekEnd (z_of_z (Sx.num p)))
  | "seek_cur", [p] -> CursorModel.Seek (CursorModel.SeekCurrent (z_of_z (Sx.num p)))
  | "insert", xs -> CursorModel.Insert (Stdlib.List.map (fun x -> bs_of_ints (Sx.bytes x)) xs)
  | h, _ -> failwith ("bad op " ^ h)

let show_out (o : CursorModel.cout) : string = match o with
  | CursorModel.OItem o -> opt hex o
  | CursorModel.OItems l -> hexlist l
  | CursorModel.OBool b -> string_of_bool b
  | CursorModel.OUnit -> "unit"
  | CursorModel.OPanic -> "panic"

let run_cursor (a : Sx.t list) : string =
  match a with
  | [items; ops] ->
    let items = Stdlib.List.map (fun x -> bs_of_ints (Sx.bytes x)) (Sx.list items) in
    let ops = Stdlib.List.map parse_op (Sx.list ops) in
    let outs = CursorModel.crun (CursorModel.cinit items) ops in
    (* once an op panics the implementation stops: cut the trace there *)
    let rec cut = function
      | [] -> []
      | CursorModel.OPanic :: _ -> ["panic"]
      | o :: r -> show_out o :: cut r in
    String.concat " " (cut outs)
  | _ -> "badcase"

(* ---- C13: ParsedArg / ShortFlags *)
let show_flag (f : LexModel.flag_out) : string = match f with
  | LexModel.FOk c -> "(ok " ^ Z.to_string (z_of_n c) ^ ")"
  | LexModel.FErr b -> "(err " ^ hex b ^ ")"

let show_flags (l : LexModel.flag_out list) : string =
  String.concat " " (Stdlib.List.map show_flag l)

let resb (r : bool LexModel.res) : string = match r with
  | LexModel.Panic -> "panic"
  | LexModel.Ret b -> string_of_bool b

let run_lex (a : Sx.t list) : string =
  match a with
  | [s] ->
    let s = bs_of_ints (Sx.bytes s) in
    let to_value = (if LexModel.to_value_ok s then "(ok " else "(err ") ^ hex s ^ ")" in
    let to_long = match LexModel.to_long s with
      | LexModel.Panic -> "panic"
      | LexModel.Ret None -> "none"
      | LexModel.Ret (Some ((flag, isutf8), value)) ->
        "(some " ^ (if isutf8 then "(ok " else "(err ") ^ hex flag ^ ") " ^ opt hex value ^ ")" in
    let to_short = match LexModel.short_of_arg s with
      | LexModel.Panic -> "panic"
      | LexModel.Ret None -> "none"
      | LexModel.Ret (Some st) ->
        let value = match snd (LexModel.sf_next_value_os st) with
          | LexModel.Panic -> "panic"
          | LexModel.Ret o -> opt hex o in
        let walk = match LexModel.sf_drain (LexModel.drain_fuel st) st with
          | LexModel.Panic -> "panic"
          | LexModel.Ret None -> "outoffuel"
          | LexModel.Ret (Some l) -> show_flags l in
        "(some (value " ^ value ^ ") (walk" ^ (if walk = "" then "" else " " ^ walk) ^ "))" in
    Printf.sprintf
      "(is_empty %b) (is_stdio %b) (is_escape %b) (is_neg %s) (is_long %b) (is_short %b) (to_value %s) (to_long %s) (to_short %s)"
      (LexModel.is_empty s) (LexModel.is_stdio s) (LexModel.is_escape s)
      (resb (LexModel.is_negative_number s)) (LexModel.is_long s) (LexModel.is_short s)
      to_value to_long to_short
  | _ -> "badcase"

let parse_sop (s : Sx.t) : LexModel.sop =
  match Sx.head s, Sx.args s with
  | "next_flag", _ -> LexModel.NextFlag
  | "next_value", _ -> LexModel.NextValue
  | "advance", [n] -> LexModel.Advance (n_of_z (Sx.num n))
  | "is_empty", _ -> LexModel.IsEmpty
  | "is_neg", _ -> LexModel.IsNeg
  | "clone-and-drain", _ -> LexModel.CloneDrain
  | h, _ -> failwith ("bad op " ^ h)

let show_sout (o : LexModel.sout) : string = match o with
  | LexModel.SFlag None -> "none"
  | LexModel.SFlag (Some f) -> show_flag f
  | LexModel.SValue o -> opt hex o
  | LexModel.SAdv None -> "ok"
  | LexModel.SAdv (Some i) -> "(err " ^ Z.to_string (z_of_n i) ^ ")"
  | LexModel.SBool b -> string_of_bool b
  | LexModel.SDrain l -> "(drain" ^ (if l = [] then "" else " " ^ show_flags l) ^ ")"
  | LexModel.SPanic -> "panic"
  | LexModel.SOutOfFuel -> "outoffuel"

let run_short (a : Sx.t list) : string =
  match a with
  | [r; ops] ->
    let arg = bs_of_ints (45 :: Sx.bytes r) in
    let ops = Stdlib.List.map parse_sop (Sx.list ops) in
    (match LexModel.short_of_arg arg with
     | LexModel.Panic -> "panic"
     | LexModel.Ret None -> "noshort"
     | LexModel.Ret (Some st) ->
       let outs = LexModel.sf_run st ops in
       let rec cut = function
         | [] -> []
         | LexModel.SPanic :: _ -> ["panic"]
         | o :: r -> show_sout o :: cut r in
       String.concat " " ("short" :: cut outs))
  | _ -> "badcase"

let () =
  let lines = Sx.read_lines Sys.argv.(1) in
  Stdlib.List.iteri (fun i line ->
    let res =
      try
        let sx = Sx.parse line in
        match Sx.head sx with
        | "osstr" -> run_osstr (Sx.args sx)
        | "cursor" -> run_cursor (Sx.args sx)
        | "lex" -> run_lex (Sx.args sx)
        | "short" -> run_short (Sx.args sx)
        | m -> "unknown-mode " ^ m
      with e -> "driver-error " ^ Printexc.to_string e in
    print_string (string_of_int i); print_char '\t'; print_endline res) lines
