(* Model driver for the clap_lex area: reads a case file, prints "<idx>\t<result>" per line. *)
open Conv

let opt f = function None -> "none" | Some x -> "(some " ^ f x ^ ")"
let nat n = string_of_int (int_of_nat n)
let hexlist l = "(" ^ String.concat " " (Stdlib.List.map hex l) ^ ")"

let run_osstr (a : Sx.t list) : string =
  match a with
  | [h; n] ->
    let h = bs_of_ints (Sx.bytes h) and n = bs_of_ints (Sx.bytes n) in
    let find = opt nat (OsStrExtModel.find h n) in
    let contains = string_of_bool (OsStrExtModel.contains h n) in
    let sw = string_of_bool (Bytes.starts_with h n) in
    let sp = opt hex (OsStrExtModel.strip_prefix h n) in
    let so = opt (fun (a, b) -> hex a ^ " " ^ hex b) (OsStrExtModel.split_once h n) in
    let spl = match OsStrExtModel.split h n with
      | OsStrExtModel.SplitPanic -> "panic"
      | OsStrExtModel.SplitOutOfFuel -> "outoffuel"
      | OsStrExtModel.SplitOk l -> hexlist l in
    Printf.sprintf "(find %s) (contains %s) (starts_with %s) (strip_prefix %s) (split_once %s) (split %s)"
      find contains sw sp so spl
  | _ -> "badcase"

let parse_op (s : Sx.t) : CursorModel.cop =
  match Sx.head s, Sx.args s with
  | "next", _ -> CursorModel.Next
  | "peek", _ -> CursorModel.Peek
  | "remaining", _ -> CursorModel.Remaining
  | "is_end", _ -> CursorModel.IsEnd
  | "seek_start", [p] -> CursorModel.Seek (CursorModel.SeekStart (n_of_z (Sx.num p)))
  | "seek_end", [p] -> CursorModel.Seek (CursorModel.SeekEnd (z_of_z (Sx.num p)))
  | "seek_cur", [p] -> CursorModel.Seek (CursorModel.SeekCurrent (z_of_z (Sx.num p)))
  | "insert", xs -> CursorModel.Insert (Stdlib.List.map (fun x -> bs_of_ints (Sx.bytes x)) xs)
  | h, _ -> failwith ("bad op " ^ h)

let show_out (o : CursorModel.cout) : string = match o with
  | CursorModel.OItem o -> opt hex o
  | CursorModel.OItems l -> hexlist l
  | CursorModel.OBool b -> string_of_bool b
  | CursorModel.OUnit -> "unit"
  | CursorModel.OPanic -> "panic"

let run_cursor (a : Sx.t list) : string =
  match a with
  | [items; ops] ->
    let items = Stdlib.List.map (fun x -> bs_of_ints (Sx.bytes x)) (Sx.list items) in
    let ops = Stdlib.List.map parse_op (Sx.list ops) in
    let outs = CursorModel.crun (CursorModel.cinit items) ops in
    (* once an op panics the implementation stops: cut the trace there *)
    let rec cut = function
      | [] -> []
      | CursorModel.OPanic :: _ -> ["panic"]
      | o :: r -> show_out o :: cut r in
    String.concat " " (cut outs)
  | _ -> "badcase"

let () =
  let lines = Sx.read_lines Sys.argv.(1) in
  Stdlib.List.iteri (fun i line ->
    let res =
      try
        let sx = Sx.parse line in
        match Sx.head sx with
        | "osstr" -> run_osstr (Sx.args sx)
        | "cursor" -> run_cursor (Sx.args sx)
        | m -> "unknown-mode " ^ m
      with e -> "driver-error " ^ Printexc.to_string e in
    print_string (string_of_int i); print_char '\t'; print_endline res) lines
