"""C19: constants of the vendored `roff` crate and of clap_mangen / clap's auto-generated help items,
read off the sources on every run (imported by tables.py).

`gen_roff_tables`  -> Gen/RoffTables.v : escape chains (pattern, replacement) of escape_inline /
                      escape_apostrophes / escape_leading_cc, control characters, preamble, font
                      escapes, the `\\&` guard, the two spellings of the `.br` line.
`gen_man_tables`   -> Gen/ManTables.v  : literals of clap_mangen/src/{lib,render}.rs and the texts of
                      clap's generated help/version arguments and help subcommand.
Every extractor fails loudly when the source no longer has the shape it understands."""
import glob
import os
import re

REPO = os.environ.get("VERIF_REPO", "/repo")


def die(msg):
    raise SystemExit("man_tables.py: " + msg)


def read(path):
    with open(path, encoding="utf-8") as f:
        return f.read()


def roff_source():
    lock = read(os.path.join(REPO, "Cargo.lock"))
    m = re.search(r'name = "roff"\nversion = "([^"]+)"', lock)
    if not m:
        die("roff not in Cargo.lock")
    ver = m.group(1)
    cands = sorted(glob.glob(os.path.expanduser("~/.cargo/registry/src/*/roff-%s/src/lib.rs" % ver)))
    if not cands:
        die("vendored roff-%s source not found" % ver)
    return ver, read(cands[0])


LIT = r'''(?:r#"(?:.*?)"#|r"(?:[^"]*)"|"(?:[^"\\]|\\.)*"|'(?:[^'\\]|\\.)')'''


def lit_value(tok):
    """python bytes of a Rust string / raw string / char literal"""
    if tok.startswith('r#"'):
        return tok[3:-2].encode()
    if tok.startswith('r"'):
        return tok[2:-1].encode()
    body = tok[1:-1]
    out = []
    i = 0
    while i < len(body):
        c = body[i]
        if c == "\\":
            n = body[i + 1]
            mp = {"n": "\n", "t": "\t", "r": "\r", "\\": "\\", "'": "'", '"': '"', "0": "\0"}
            if n not in mp:
                die("unsupported escape in literal " + tok)
            out.append(mp[n])
            i += 2
        else:
            out.append(c)
            i += 1
    return "".join(out).encode()


def fn_body(src, name):
    m = re.search(r"^([ \t]*)(?:pub(?:\([a-z]+\))? )?fn\s+%s\b[^{]*\{(.*?)\n\1\}" % name, src, re.S | re.M)
    if not m:
        die("function %s not found" % name)
    return m.group(2)


def replace_chain(src, fname, arg, consts):
    """body must be `<arg>.replace(a, b).replace(c, d)...` ; returns [(pat, rep)]"""
    body = re.sub(r"\s+", " ", fn_body(src, fname)).strip()
    if not body.startswith(arg + "."):
        die("%s: body does not start with %s. : %s" % (fname, arg, body))
    rest = body[len(arg):]
    rules = []
    pat = re.compile(r"\.replace\(\s*(%s|\w+)\s*,\s*(%s|\w+)\s*\)" % (LIT, LIT), re.S)
    pos = 0
    while pos < len(rest):
        m = pat.match(rest, pos)
        if not m:
            die("%s: unexpected tail %r" % (fname, rest[pos:]))
        vals = []
        for g in (m.group(1), m.group(2)):
            if re.fullmatch(r"\w+", g):
                if g not in consts:
                    die("%s: unknown constant %s" % (fname, g))
                vals.append(consts[g])
            else:
                vals.append(lit_value(g))
        rules.append(tuple(vals))
        pos = m.end()
    if not rules:
        die("%s: no replace found" % fname)
    for p, _ in rules:
        if len(p) not in (1, 2):
            die("%s: pattern %r has a length the model's replace does not transcribe" % (fname, p))
    return rules


def cb(b):
    return "[" + "; ".join(str(x) for x in b) + "]"


def crules(rules):
    return "[" + "; ".join("(%s, %s)" % (cb(p), cb(r)) for p, r in rules) + "]"


def show(b):
    return repr(b.decode("utf-8"))[1:-1].replace("*)", "* )").replace("(*", "( *")


def gen_roff_tables():
    ver, src = roff_source()
    m = re.search(r"const APOSTROPHE: &str = (%s);" % LIT, src)
    if not m:
        die("APOSTROPHE not found")
    apo = lit_value(m.group(1))
    m = re.search(r"const APOSTROPHE_PREABMLE: &str = (r#\".*?\"#);", src, re.S)
    if not m:
        die("APOSTROPHE_PREABMLE not found")
    pre = lit_value(m.group(1))
    consts = {"APOSTROPHE": apo}
    inline = replace_chain(src, "escape_inline", "text", consts)
    apos = replace_chain(src, "escape_apostrophes", "text", consts)
    lead = replace_chain(src, "escape_leading_cc", "s", consts)
    body = re.sub(r"\s+", " ", fn_body(src, "starts_with_cc")).strip()
    ccs = re.findall(r"line\.starts_with\((%s)\)" % LIT, body)
    if not ccs or " || ".join("line.starts_with(%s)" % c for c in ccs) != body:
        die("starts_with_cc has an unknown shape: " + body)
    cc = [lit_value(c) for c in ccs]
    if any(len(c) != 1 for c in cc):
        die("control characters must be single bytes")
    body = re.sub(r"\s+", " ", fn_body(src, "escape_spaces")).strip()
    m = re.fullmatch(r"if w\.contains\((%s)\) \{ format!\(\"\\\"\{\}\\\"\", w\) \} else \{ w\.to_string\(\) \}" % LIT, body)
    if not m or lit_value(m.group(1)) != b" ":
        die("escape_spaces has an unknown shape: " + body)
    # Line::render: the literals and the order of the three escapes
    rend = src[src.index("fn render("):src.index("/// Does line start with a control character?")]
    rend1 = re.sub(r"\s+", " ", re.sub(r"//[^\n]*", "", rend))
    need = [
        r'write!(out, ".{}", name)?; for arg in args { write!(out, " {}", &escape_spaces(arg))?; }',
        r'let mut at_line_start = true;',
        r'Inline::LineBreak => { if at_line_start { writeln!(out, ".br")?; } else { writeln!(out, "\n.br")?; } }',
        r'let mut text = escape_inline(text); if handle_apostrophes == Apostrophes::Handle { text = escape_apostrophes(&text) }; let text = escape_leading_cc(&text);',
        r'if let Inline::Bold(_) = inline { write!(out, r"\fB{}\fR", text)?; } else if let Inline::Italic(_) = inline { write!(out, r"\fI{}\fR", text)?; } else { if at_line_start && starts_with_cc(&text) {',
        r'write!(out, r"\&").unwrap(); } write!(out, "{}", text)?; }',
        r'at_line_start = false; } } }; writeln!(out)?; Ok(())',
    ]
    for n in need:
        if n not in rend1:
            die("Line::render no longer contains the transcribed fragment: " + n)
    tw = re.sub(r"\s+", " ", fn_body(src, "to_writer")).strip()
    if tw != ("w.write_all(APOSTROPHE_PREABMLE.as_bytes())?; for line in self.lines.iter() { "
              "line.render(w, Apostrophes::Handle)?; } Ok(())"):
        die("Roff::to_writer has an unknown shape: " + tw)
    lines = [
        "(* GENERATED by translators/man_tables.py from roff-%s/src/lib.rs -- do not edit. *)" % ver,
        "From ClapModel Require Import Base.Bytes.",
        "Open Scope N_scope.",
        "",
        "(* escape_inline: %s *)" % ", ".join("%s -> %s" % (show(p), show(r)) for p, r in inline),
        "Definition inline_rules : list (bytes * bytes) := %s." % crules(inline),
        "(* escape_apostrophes: %s *)" % ", ".join("%s -> %s" % (show(p), show(r)) for p, r in apos),
        "Definition apostrophe_rules : list (bytes * bytes) := %s." % crules(apos),
        "(* escape_leading_cc: %s *)" % ", ".join("%s -> %s" % (show(p), show(r)) for p, r in lead),
        "Definition leading_cc_rules : list (bytes * bytes) := %s." % crules(lead),
        "(* starts_with_cc *)",
        "Definition cc_chars : list N := %s." % cb([c[0] for c in cc]),
        "Definition preamble : bytes := %s." % cb(pre),
        "Definition bold_open : bytes := %s.   (* \\fB *)" % cb(b"\\fB"),
        "Definition italic_open : bytes := %s. (* \\fI *)" % cb(b"\\fI"),
        "Definition font_close : bytes := %s.  (* \\fR *)" % cb(b"\\fR"),
        "Definition cc_guard : bytes := %s.        (* \\& *)" % cb(b"\\&"),
        "Definition br_at_start : bytes := %s.     (* .br NL *)" % cb(b".br\n"),
        "Definition br_mid_line : bytes := %s. (* NL .br NL *)" % cb(b"\n.br\n"),
        "",
    ]
    return "RoffTables.v", "\n".join(lines)


# ---------------------------------------------------------------------------------------------
def one(src, rx, what, flags=re.S):
    ms = re.findall(rx, src, flags)
    if len(ms) != 1:
        die("%s: expected exactly one match of %s, found %d" % (what, rx, len(ms)))
    return ms[0]


def gen_man_tables():
    lib = read(os.path.join(REPO, "clap_mangen/src/lib.rs"))
    ren = read(os.path.join(REPO, "clap_mangen/src/render.rs"))
    cmd = read(os.path.join(REPO, "clap_builder/src/builder/command.rs"))
    d = {}

    def lit(name, src, rx, what):
        d[name] = lit_value(one(src, rx, what))

    S = r'("(?:[^"\\]|\\.)*")'
    C = r"('(?:[^'\\]|\\.)')"
    lit("m_section", lib, r"let section = %s\.to_owned\(\);" % S, "Man::new section")
    lit("m_date", lib, r"let date = %s\.to_owned\(\);" % S, "Man::new date")
    lit("m_manual", lib, r"let manual = %s\.to_owned\(\);" % S, "Man::new manual")
    if not re.search(r'let source = format!\(\s*"\{\} \{\}",\s*cmd\.get_name\(\),\s*cmd\.get_version\(\)\.unwrap_or_default\(\)\s*\);', lib):
        die("Man::new source has an unknown shape")
    lit("rq_TH", lib, r"let args = self\.title_args\(\);\s*roff\.control\(%s, args\.iter\(\)\.map\(String::as_str\)\);" % S, "TH")
    if not re.search(r"fn title_args\(&self\) -> Vec<String> \{\s*\[\s*&self\.title,\s*&self\.section,\s*&self\.date,\s*"
                     r"&self\.source,\s*&self\.manual,\s*\]\s*\.into_iter\(\)\s*\.map\(\|arg\| control_arg\(arg\)\)\s*\.collect\(\)", lib):
        die("title_args has an unknown shape")
    m = one(lib, r"fn control_arg\(arg: &str\) -> String \{\s*arg\.replace\(%s, %s\)\s*\}" % (C, S), "control_arg")
    ca = tuple(lit_value(x) for x in m)
    if len(ca[0]) not in (1, 2):
        die("control_arg pattern length")
    if not re.search(r'roff\.control\("SH", \[control_arg\(&heading\.to_uppercase\(\)\)\.as_str\(\)\]\);', lib) or \
       not re.search(r'let heading = control_arg\(subcommand_heading\(&self\.cmd\)\);\s*roff\.control\("SH", \[heading\.as_str\(\)\]\);', lib):
        die("the user-heading .SH sites no longer pass through control_arg")
    for sec in ["NAME", "SYNOPSIS", "DESCRIPTION", "OPTIONS", "EXTRA", "VERSION", "AUTHORS"]:
        m = re.findall(r'roff\.control\(("SH"), \[("%s")\]\);' % sec, lib)
        if len(m) != 1:
            die("section heading %s not found exactly once" % sec)
        d["rq_SH"] = lit_value(m[0][0])
        d["h_" + sec] = lit_value(m[0][1])
    if len(re.findall(r'roff\.control\("SH", \[(?:control_arg\(&)?heading', lib)) != 2:
        die("expected two user-heading .SH sites in lib.rs")
    lit("h_SUBCOMMANDS", ren, r"None => %s,\s*\}\s*\}\s*pub\(crate\) fn about" % S, "subcommand_heading default")
    if not re.search(r'Some\(about\) => format!\("\{name\} - \{about\}"\),', ren):
        die("about(): format changed")
    d["name_sep"] = b" - "
    lit("rq_PP", ren, r"roff\.control\(%s, \[\]\);\s*\} else \{\s*roff\.text\(\[roman\(line\)\]\);" % S, "PP")
    if len(set(re.findall(r'roff\.control\("TP", \[\]\);', ren))) != 1 or ren.count('roff.control("TP", [])') != 3:
        die("expected three .TP sites")
    d["rq_TP"] = b"TP"
    if ren.count('roff.control("RS", [])') != 2 or ren.count('roff.control("RE", [])') != 3:
        die("expected RS x2 / RE x3 sites")
    d["rq_RS"], d["rq_RE"] = b"RS", b"RE"
    m = one(ren, r'roff\.control\("RS", \[%s\]\);' % S, "RS 14")
    d["rs_indent"] = lit_value(m)
    m = one(ren, r'roff\.control\(("IP"), \[%s, %s\]\);' % (S, S), "IP")
    d["rq_IP"], d["ip_bullet"], d["ip_width"] = (lit_value(x) for x in m)
    lit("syn_space", ren, r"let mut line = vec!\[bold\(name\), roman\(%s\)\];" % S, "synopsis space")
    if not re.search(r'\(Some\(short\), Some\(long\)\) => \{\s*line\.push\(roman\(lhs\)\);\s*line\.push\(bold\(format!\("-\{short\}"\)\)\);\s*'
                     r'line\.push\(roman\("\|"\)\);\s*line\.push\(bold\(format!\("--\{long\}",\)\)\);\s*line\.push\(roman\(rhs\)\);', ren):
        die("synopsis (short,long) arm changed")
    if not re.search(r'\(Some\(short\), None\) => \{\s*line\.push\(roman\(lhs\)\);\s*line\.push\(bold\(format!\("-\{short\} "\)\)\);\s*line\.push\(roman\(rhs\)\);', ren):
        die("synopsis (short,None) arm changed")
    if not re.search(r'\(None, Some\(long\)\) => \{\s*line\.push\(roman\(lhs\)\);\s*line\.push\(bold\(format!\("--\{long\}"\)\)\);\s*line\.push\(roman\(rhs\)\);', ren):
        die("synopsis (None,long) arm changed")
    if not re.search(r"for arg in cmd\.get_positionals\(\)\.filter\(\|i\| !i\.is_hide_set\(\)\) \{", ren) or \
       not re.search(r"for opt in cmd\.get_arguments\(\)\.filter\(\|i\| !i\.is_hide_set\(\)\) \{", ren):
        die("synopsis loops: hidden filters changed")
    d["syn_bar"] = b"|"
    lit("syn_dots", ren, r"ArgAction::Count\) \{\s*line\.push\(roman\(%s\)\);" % S, "synopsis ...")
    m = one(ren, r"if required \{\s*\(%s, %s\)\s*\} else \{\s*\(%s, %s\)\s*\}" % (S, S, S, S), "markers")
    d["mk_req_l"], d["mk_req_r"], d["mk_opt_l"], d["mk_opt_r"] = (lit_value(x) for x in m)
    lit("opt_comma", ren, r"vec!\[short_option\(short\), roman\(%s\), long_option\(long\)\]" % S, "options comma")
    lit("opt_eq", ren, r"header\.push\(roman\(%s\)\);\s*header\.push\(italic\(value\.join\(" % S, "options =")
    lit("vn_sep", ren, r"header\.push\(roman\(\"=\"\)\);\s*header\.push\(italic\(value\.join\(%s\)\)\);" % S, "value name separator")
    if ren.count('value.join(" ")') != 3:
        die("expected three value.join(\" \") sites")
    if not re.search(r'header\.push\(roman\(" "\)\);\s*header\.push\(roman\(defs\)\);', ren):
        die("option default rendering changed")
    if not re.search(r'header\.push\(roman\(format!\(" \{defs\}"\)\)\);', ren):
        die("positional default rendering changed")
    if not re.search(r'\.join\(","\);\s*return Some\(format!\("\[default: \{values\}\]"\)\);', ren):
        die("option_default_values format changed")
    d["def_open"], d["def_close"], d["def_sep"] = b"[default: ", b"]", b","
    lit("pv_title", ren, r"roff\.text\(\[Inline::LineBreak, italic\(%s\)\]\);" % S, "Possible values:")
    m = one(ren, r"Inline::LineBreak,\s*roman\(%s\),\s*italic\(%s\),\s*roman\(possible_values_text\.join\(%s\)\),\s*roman\(%s\),\s*\];" % (S, S, S, S),
            "inline possible values")
    d["pv_open"], d["pv_label"], d["pv_sep"], d["pv_close"] = (lit_value(x) for x in m)
    if not re.search(r'Some\(help\) => lines\.push\(format!\("\{val_name\}: \{help\}"\)\),', ren):
        die("format_possible_values changed")
    d["pv_help_sep"] = b": "
    m = one(ren, r"roman\(%s\),\s*bold\(env\.to_string_lossy\(\)\.into_owned\(\)\),\s*roman\(%s\),\s*\]\);" % (S, S), "environment")
    d["env_pre"], d["env_post"] = (lit_value(x) for x in m)
    if not re.search(r'let name = format!\(\s*"\{\}-\{\}\(\{\}\)",', ren):
        die("subcommands(): name format changed")
    if not re.search(r'format!\(\s*"v\{\}",\s*cmd\.get_long_version\(\)\s*\.or_else\(\|\| cmd\.get_version\(\)\)\s*\.unwrap\(\)\s*\)', ren):
        die("version(): format changed")
    d["ver_prefix"] = b"v"
    if not re.search(r'fn short_option\(opt: char\) -> Inline \{\s*bold\(format!\("-\{opt\}"\)\)', ren) or \
       not re.search(r'fn long_option\(opt: &str\) -> Inline \{\s*bold\(format!\("--\{opt\}"\)\)', ren):
        die("short_option/long_option changed")
    # clap's generated help / version arguments and help subcommand
    chk = cmd[cmd.index("fn _check_help_and_version"):cmd.index("fn _copy_subtree_for_help")]
    m = one(chk, r"Arg::new\(Id::HELP\)\s*\.short\(%s\)\s*\.long\(%s\)\s*\.action\(ArgAction::Help\);" % (C, S), "help arg")
    d["help_short"], d["help_long"] = (lit_value(x) for x in m)
    m = one(chk, r"if self\.long_help_exists \{\s*arg = arg\s*\.help\(%s\)\s*\.long_help\(%s\);\s*\} else \{\s*arg = arg\.help\(%s\);" % (S, S, S), "help texts")
    d["help_help_long_exists"], d["help_long_help"], d["help_help"] = (lit_value(x) for x in m)
    m = one(chk, r"Arg::new\(Id::VERSION\)\s*\.short\(%s\)\s*\.long\(%s\)\s*\.action\(ArgAction::Version\)\s*\.help\(%s\);" % (C, S, S), "version arg")
    d["version_short"], d["version_long"], d["version_help"] = (lit_value(x) for x in m)
    lit("help_sub_about", chk, r"let help_about = %s;" % S, "help subcommand about")
    if chk.count('Command::new("help")') != 3:
        die("help subcommand construction changed")
    d["help_sub_name"] = b"help"
    ids = read(os.path.join(REPO, "clap_builder/src/util/id.rs"))
    lit("id_help", ids, r"pub\(crate\) const HELP: &'static str = %s;" % S, "Id::HELP")
    lit("id_version", ids, r"pub\(crate\) const VERSION: &'static str = %s;" % S, "Id::VERSION")
    d["dash"] = b"-"
    d["dashdash"] = b"--"
    d["lparen"], d["rparen"] = b"(", b")"
    lines = [
        "(* GENERATED by translators/man_tables.py from clap_mangen/src/{lib,render}.rs and",
        "   clap_builder/src/builder/command.rs -- do not edit. *)",
        "From ClapModel Require Import Base.Bytes.",
        "Open Scope N_scope.",
        "",
    ]
    for k in d:
        lines.append("Definition %s : bytes := %s. (* %s *)" % (k, cb(d[k]), show(d[k])))
    lines.append("(* fn control_arg: arg.replace(%s, %s) *)" % (show(ca[0]), show(ca[1])))
    lines.append("Definition control_arg_rule : bytes * bytes := (%s, %s)." % (cb(ca[0]), cb(ca[1])))
    lines.append("")
    return "ManTables.v", "\n".join(lines)
