#!/usr/bin/env python3
"""Sensitivity self-test of translators/builder_tables.py (no Coq, no cargo; a few seconds).

Every mutation below is one edit of a source file of /repo (applied IN MEMORY to the text the translator reads; /repo is not
touched).  For each one the translator must either refuse loudly (SystemExit naming the construct) or produce a table that
differs from the one of the unchanged source -- a mutation after which the generated files are unchanged would be a fact the
tables do not tie.  The expected outcome is stated per mutation; which Coq lemma breaks for a changed table was determined
with scratch clones (docs/notes/translators.md) and is repeated here as a comment only.

usage: python3 translators/selftest_builder_tables.py      (exit 0 = every mutation is noticed as expected)
"""
import os
import sys

sys.path.insert(0, os.path.dirname(os.path.abspath(__file__)))
import builder_tables as bt  # noqa: E402

REPO = os.environ.get("VERIF_REPO", "/repo")
A = "clap_builder/src/builder/action.rs"
R = "clap_builder/src/builder/range.rs"
G = "clap_builder/src/builder/arg.rs"
C = "clap_builder/src/builder/command.rs"
M = "clap_builder/src/mkeymap.rs"
D = "clap_builder/src/builder/debug_asserts.rs"

GENS = [bt.gen_action_tables, bt.gen_settings_tables, bt.gen_build_tables, bt.gen_gate_sites]


def reader(edit=None):
    def read(rel):
        with open(os.path.join(REPO, rel), encoding="utf-8") as f:
            s = f.read()
        if edit and edit[0] == rel:
            old, new = edit[1], edit[2]
            if s.count(old) < 1:
                raise AssertionError("selftest: the text to mutate was not found in %s: %r" % (rel, old[:60]))
            s = s.replace(old, new, 1)
        return s
    return read


def run(edit=None):
    out = {}
    for g in GENS:
        try:
            name, text = g(reader(edit))
            out[name] = text
        except SystemExit as e:
            return None, str(e)
    return out, None


# (description, file, old, new, expected: "refuse" | name of the generated file that must change, lemma that breaks)
MUTATIONS = [
    ("Count.takes_values() = true", A,
     "            Self::Count => false,\n            Self::Help => false,\n            Self::HelpShort => false,\n            Self::HelpLong => false,\n            Self::Version => false,\n        }\n    }\n\n    #[cfg(debug_assertions)]\n    pub(crate) fn max_num_args",
     "            Self::Count => true,\n            Self::Help => false,\n            Self::HelpShort => false,\n            Self::HelpLong => false,\n            Self::Version => false,\n        }\n    }\n\n    #[cfg(debug_assertions)]\n    pub(crate) fn max_num_args",
     "ActionTables.v", "TablesActions.model_action_table"),
    ("SetFalse default_value flipped", A, 'Self::SetFalse => Some(std::ffi::OsStr::new("true")),', 'Self::SetFalse => Some(std::ffi::OsStr::new("false")),',
     "ActionTables.v", "TablesActions.model_action_table"),
    ("Count default parser u16", A, "Self::Count => Some(crate::value_parser!(u8).into()),", "Self::Count => Some(crate::value_parser!(u16).into()),",
     "ActionTables.v", "TablesActions.model_action_table"),
    ("takes_values written with matches!", A,
     "    pub fn takes_values(&self) -> bool {\n        match self {", "    pub fn takes_values(&self) -> bool {\n        if matches!(self, Self::Set) { return true; }\n        match self {",
     "refuse", None),
    ("ValueRange::SINGLE = 1..=2", R, "    pub const SINGLE: Self = Self {\n        start_inclusive: 1,\n        end_inclusive: 1,", "    pub const SINGLE: Self = Self {\n        start_inclusive: 1,\n        end_inclusive: 2,",
     "ActionTables.v", "TablesActions.model_range_consts"),
    ("is_multiple: `2 < start`", R, "self.start_inclusive != self.end_inclusive || 1 < self.start_inclusive", "self.start_inclusive != self.end_inclusive || 2 < self.start_inclusive",
     "ActionTables.v", "TablesActions.model_range_preds"),
    ("Arg::_build: val_names_len > 2", G, "if val_names_len > 1 {", "if val_names_len > 2 {", "ActionTables.v", "TablesActions.tbl_ab_num_eq (arg_build_table)"),
    ("Arg::_build: flag by num_args(0) becomes SetFalse", G, "let action = ArgAction::SetTrue;", "let action = ArgAction::SetFalse;", "ActionTables.v", "TablesActions.tbl_ab_action_eq"),
    ("infer_long_args no longer global", C, "self.global_setting(AppSettings::InferLongArgs)", "self.setting(AppSettings::InferLongArgs)", "refuse", None),
    ("infer_long_args no longer global (both arms)", C,
     "            self.global_setting(AppSettings::InferLongArgs)\n        } else {\n            self.unset_global_setting(AppSettings::InferLongArgs)",
     "            self.setting(AppSettings::InferLongArgs)\n        } else {\n            self.unset_setting(AppSettings::InferLongArgs)",
     "SettingsTables.v", "TablesSettings.spec_reader_matches_source"),
    ("hide becomes global", C,
     "            self.setting(AppSettings::Hidden)\n        } else {\n            self.unset_setting(AppSettings::Hidden)",
     "            self.global_setting(AppSettings::Hidden)\n        } else {\n            self.unset_global_setting(AppSettings::Hidden)",
     "SettingsTables.v", "TablesSettings.spec_reader_matches_source"),
    ("g_settings no longer handed on", C, "            sc.g_settings = sc.g_settings | self.g_settings;\n", "", "SettingsTables.v", "TablesSettings.propagate_table"),
    ("global_setting forgets g_settings", C, "        self.settings.set(setting);\n        self.g_settings.set(setting);\n", "        self.settings.set(setting);\n",
     "SettingsTables.v", "TablesSettings.spec_reader_matches_source"),
    ("is_set ignores g_settings", C, "        self.settings.is_set(s) || self.g_settings.is_set(s)\n", "        self.settings.is_set(s)\n", "SettingsTables.v", "TablesSettings.fields_are_variants"),
    ("_build_self: ArgsNegateSubcommands block dropped", C,
     "            if self.is_set(AppSettings::ArgsNegateSubcommands) {\n                self.settings.set(AppSettings::SubcommandsNegateReqs);\n            }\n", "",
     "SettingsTables.v", "TablesSettings.bs_settings_table"),
    ("help subcommand keeps PropagateVersion", C,
     "                .setting(AppSettings::DisableVersionFlag)\n                .unset_global_setting(AppSettings::PropagateVersion);",
     "                .setting(AppSettings::DisableVersionFlag);", "SettingsTables.v", "TablesSettings.help_subcommand_table"),
    ("generated version flag -v", C, ".short('V')", ".short('v')", "BuildTables.v", "TablesBuild.generated_args_table"),
    ("_build_self: globals before help/version", C,
     "            self._check_help_and_version(expand_help_tree);\n            self._propagate_global_args();\n",
     "            self._propagate_global_args();\n            self._check_help_and_version(expand_help_tree);\n",
     "BuildTables.v", "TablesBuild.build_self_steps_table"),
    ("positional counter starts at 0", C, "let mut pos_counter = 1;", "let mut pos_counter = 0;", "BuildTables.v", "TablesBuild.args_loop_table"),
    ("deprecated AllowNegativeNumbers rule tests is_positional", C, "if is_allow_negative_numbers_set && arg.is_takes_value_set() {", "if is_allow_negative_numbers_set && arg.is_positional() {",
     "BuildTables.v", "TablesBuild.deprecated_table"),
    ("key order: long before short", M,
     "        if let Some(short) = arg.short {\n            let key = KeyType::Short(short);\n            keys.push(Key { key, index });\n        }\n        if let Some(long) = arg.long.clone() {\n            let key = KeyType::Long(long.into());\n            keys.push(Key { key, index });\n        }\n",
     "        if let Some(long) = arg.long.clone() {\n            let key = KeyType::Long(long.into());\n            keys.push(Key { key, index });\n        }\n        if let Some(short) = arg.short {\n            let key = KeyType::Short(short);\n            keys.push(Key { key, index });\n        }\n",
     "BuildTables.v", "TablesBuild.arg_keys_table"),
    ("Arg::last sets Required", G, "            self.setting(ArgSettings::Last)\n        } else {\n            self.unset_setting(ArgSettings::Last)", "            self.setting(ArgSettings::Required)\n        } else {\n            self.unset_setting(ArgSettings::Required)",
     "BuildTables.v", "TablesBuild.arg_flags_table"),
    ("new assertion in assert_arg", D, "    assert_arg_flags(arg);\n}", "    assert!(!arg.is_exclusive_set() || !arg.is_global_set(), \"Argument '{}' cannot be exclusive and global\", arg.get_id());\n    assert_arg_flags(arg);\n}",
     "GateSites.v", "TablesGate.gate_sites_covered"),
    ("new checker! row", D, "    checker!(is_ignore_case_set requires is_takes_value_set);", "    checker!(is_ignore_case_set requires is_takes_value_set);\n    checker!(is_exclusive_set requires is_takes_value_set);",
     "GateSites.v", "TablesGate.unmodelled_arg_flags"),
    ("an assertion removed from _verify_positionals", D, "cmd.get_positionals().filter(|p| p.is_last_set()).count() < 2,", "true || cmd.get_positionals().filter(|p| p.is_last_set()).count() < 2,",
     None, None),   # a weakened condition with the same message is NOT visible to the inventory: listed to document the limit
    ("Command::is_set with an early return", C, "        self.settings.is_set(s) || self.g_settings.is_set(s)\n", "        if s == AppSettings::Hidden { return self.settings.is_set(s); }\n        self.settings.is_set(s) || self.g_settings.is_set(s)\n", "refuse", None),
]


def main():
    base, err = run()
    if err:
        print("selftest: the translator refuses the UNCHANGED source: " + err)
        return 1
    bad = 0
    for desc, rel, old, new, expect, lemma in MUTATIONS:
        out, err = run((rel, old, new))
        if err is not None:
            got = "refuse"
            detail = err[:110]
        else:
            changed = [k for k in out if out[k] != base[k]]
            got = changed[0] if changed else None
            detail = ", ".join(changed) if changed else "no generated file changed"
        ok = (got == expect) or (expect not in (None, "refuse") and got is not None and expect in detail)
        if expect is None:
            ok = got is None       # documented limit: the mutation is invisible to the tables
        print("%-4s %-58s -> %s%s" % ("ok" if ok else "FAIL", desc, detail, ("   [breaks " + lemma + "]") if lemma and ok else ""))
        bad += 0 if ok else 1
    print("selftest: %d mutations, %d not noticed as expected" % (len(MUTATIONS), bad))
    return 1 if bad else 0


if __name__ == "__main__":
    sys.exit(main())
