#!/usr/bin/env python3
"""Tables of clap's *builder* API, read off the sources under verification on every run.

gen_action_tables(read)   -> Gen/ActionTables.v
    clap_builder/src/builder/action.rs : enum ArgAction and every `match self` accessor
        (takes_values, max_num_args, default_num_args, default_value, default_missing_value,
         default_value_parser, value_type_id, type CountType)
    clap_builder/src/builder/range.rs  : the associated constants of ValueRange, `impl Default`,
        and the one-expression predicates (takes_values, is_unbounded, is_fixed, is_multiple,
        num_values, accepts_more, min_values, max_values) translated into a small expression AST
    clap_builder/src/builder/arg.rs    : Arg::_build (block structure and the constants it branches on),
        is_takes_value_set / is_multiple_values_set (the default they substitute)
gen_settings_tables(read) -> Gen/SettingsTables.v
    clap_builder/src/builder/app_settings.rs : enum AppSettings
    clap_builder/src/builder/command.rs      : setting / unset_setting / global_setting / unset_global_setting,
        every `pub fn x(self, yes: bool)` setter built on them, Command::is_set, _propagate_subcommand,
        the settings block of _build_self
    ocaml/common_parse/spec.ml (the model-side spec reader, part of THIS framework): `apply_setting`,
        i.e. which model field a setter name sets and whether in both records or only the local one

ParseProofs/TablesActions.v and ParseProofs/TablesSettings.v prove that the hand-written model
(Parse/Cmd.v, Parse/Build.v) agrees with these tables (C07_*_table*, C10_*settings*).

Every reader raises SystemExit with a message naming the construct when the source no longer has the shape it
understands: vp/core.py build_coq() then fails the proof gate ("translator failed"), and the check reports
VIOLATION ... no-failing-input-found (unless a stream finds a failing input).
"""
import os
import re

ROOT = os.path.dirname(os.path.dirname(os.path.abspath(__file__)))


def die(msg):
    raise SystemExit("builder_tables.py: " + msg)


def strip_comments(src):
    src = re.sub(r"/\*.*?\*/", "", src, flags=re.S)
    return re.sub(r"//[^\n]*", "", src)


def norm(s):
    return re.sub(r"\s+", " ", s).strip()


def block_at(src, open_idx, what):
    """src[open_idx] == '{' : return the text between it and the matching '}' (strings are not expected to hold braces
    in the functions read here; a mismatch is reported)."""
    if src[open_idx] != "{":
        die("internal: no '{' where the body of %s should start" % what)
    depth = 0
    for i in range(open_idx, len(src)):
        c = src[i]
        if c == "{":
            depth += 1
        elif c == "}":
            depth -= 1
            if depth == 0:
                return src[open_idx + 1:i]
    die("unbalanced braces in " + what)


def fn_body(src, header_re, what):
    """body of the unique fn whose header matches header_re (a regex ending just before the '{')"""
    ms = list(re.finditer(header_re + r"\s*\{", src))
    if len(ms) != 1:
        die("expected exactly one `%s`, found %d" % (what, len(ms)))
    return block_at(src, ms[0].end() - 1, what)


def cstr(s):
    return '"' + s.replace('"', '""') + '"'


def copt(o):
    return "None" if o is None else "Some " + cstr(o)


def clist(items, indent="  "):
    if not items:
        return "[]"
    return "[\n" + ";\n".join(indent + it for it in items) + "\n]"


def enum_variants(src, header_re, what):
    m = re.search(header_re + r"\s*\{", src)
    if not m:
        die("cannot find " + what)
    body = block_at(src, m.end() - 1, what)
    body = re.sub(r"#\[[^\]]*\]", "", body)
    vs = [v.strip() for v in body.split(",") if v.strip()]
    for v in vs:
        if not re.fullmatch(r"[A-Z][A-Za-z0-9]*", v):
            die("%s: variant with an unexpected shape: %r" % (what, v))
    if not vs or len(set(vs)) != len(vs):
        die("%s: empty or duplicate variant list" % what)
    return vs


# ------------------------------------------------------------------------------------------------ ArgAction
def action_match(src, fn, ret_re, variants, value):
    """arms of `fn <fn>(&self) -> <ret> { match self { Self::V => <expr>, ... } }` as a list aligned with
    `variants`; `value(expr)` translates one right-hand side (and dies on an unknown one)."""
    what = "ArgAction::" + fn
    body = norm(fn_body(src, r"fn\s+%s\s*\(\s*&self\s*\)\s*->\s*%s" % (fn, ret_re), what))
    m = re.fullmatch(r"match self \{ (.*) \}", body)
    if not m:
        die("%s is no longer a single `match self`: %s" % (what, body))
    arms = {}
    for arm in [a.strip() for a in re.split(r",(?![^()]*\))", m.group(1)) if a.strip()]:
        am = re.fullmatch(r"Self::(\w+) => (.+)", arm)
        if not am:
            die("%s: match arm with an unexpected shape (or-patterns and `_` arms are not read): %r" % (what, arm))
        if am.group(1) in arms:
            die("%s: two arms for %s" % (what, am.group(1)))
        if am.group(1) not in variants:
            die("%s: arm for an unknown variant %s" % (what, am.group(1)))
        arms[am.group(1)] = value(am.group(2).strip(), what)
    missing = [v for v in variants if v not in arms]
    if missing:
        die("%s: no arm for %s" % (what, ", ".join(missing)))
    return [arms[v] for v in variants]


def v_bool(e, what):
    if e not in ("true", "false"):
        die("%s: expected a bool literal, got %r" % (what, e))
    return e


def v_range(consts):
    def f(e, what):
        m = re.fullmatch(r"ValueRange::([A-Z_]+)", e)
        if not m or m.group(1) not in consts:
            die("%s: expected ValueRange::<constant of range.rs>, got %r" % (what, e))
        return m.group(1)
    return f


def v_osstr(e, what):
    if e == "None":
        return None
    m = re.fullmatch(r'Some\(std::ffi::OsStr::new\("([^"\\]*)"\)\)', e)
    if not m:
        die("%s: expected None or Some(std::ffi::OsStr::new(\"..\")), got %r" % (what, e))
    return m.group(1)


def v_parser(e, what):
    if e == "None":
        return None
    if e == "Some(super::ValueParser::bool())":
        return "bool"
    m = re.fullmatch(r"Some\(crate::value_parser!\((\w+)\)\.into\(\)\)", e)
    if m:
        return m.group(1)
    die("%s: unknown default value parser expression %r" % (what, e))


def v_typeid(aliases):
    def f(e, what):
        if e == "None":
            return None
        m = re.fullmatch(r"Some\(AnyValueId::of::<(\w+)>\(\)\)", e)
        if not m:
            die("%s: expected None or Some(AnyValueId::of::<T>()), got %r" % (what, e))
        return aliases.get(m.group(1), m.group(1))
    return f


# ------------------------------------------------------------------------------------------------ ValueRange
def range_consts(src):
    """`pub const NAME: Self = Self { start_inclusive: a, end_inclusive: b };` inside `impl ValueRange`"""
    out = []
    for m in re.finditer(r"((?:#\[[^\]]*\]\s*)*)pub(?:\([a-z]+\))?\s+const\s+([A-Z_]+)\s*:\s*Self\s*=\s*Self\s*\{(.*?)\}\s*;", src, re.S):
        body = norm(m.group(3))
        bm = re.fullmatch(r"start_inclusive: (\w+(?:::\w+)?), end_inclusive: (\w+(?:::\w+)?),?", body)
        if not bm:
            die("ValueRange::%s: unexpected initialiser %r" % (m.group(2), body))
        out.append((m.group(2), bound(bm.group(1), "ValueRange::" + m.group(2)),
                    bound(bm.group(2), "ValueRange::" + m.group(2)), "debug_assertions" in m.group(1)))
    if not out:
        die("no associated constants found in `impl ValueRange`")
    return out


def bound(e, what):
    if re.fullmatch(r"\d+", e):
        return "(GLit %s)" % e
    if e == "usize::MAX":
        return "GUsizeMax"
    die("%s: cannot read the bound %r" % (what, e))


def range_expr(e, what):
    """translate a one-expression body over self.start_inclusive / self.end_inclusive / current"""
    e = e.strip()
    parts = e.split("||")
    if len(parts) > 1:
        r = range_expr(parts[-1], what)
        for p in reversed(parts[:-1]):
            r = "(GOr %s %s)" % (range_expr(p, what), r)
        return r
    for op, ctor in (("==", "GEq"), ("!=", "GNe"), ("<", "GLt")):
        if op in e:
            l, r = e.split(op, 1)
            return "(%s %s %s)" % (ctor, range_term(l, what), range_term(r, what))
    die("%s: cannot read the boolean expression %r" % (what, e))


def range_term(t, what):
    t = t.strip()
    if t == "self.start_inclusive":
        return "GStart"
    if t == "self.end_inclusive":
        return "GEnd"
    if t == "current":
        return "GCurrent"
    if re.fullmatch(r"\d+", t):
        return "(GNum %s)" % t
    if t == "usize::MAX":
        return "GMax"
    die("%s: cannot read the operand %r" % (what, t))


RANGE_BOOL_FNS = [("takes_values", r"&self"), ("is_unbounded", r"&self"), ("is_fixed", r"&self"),
                  ("is_multiple", r"&self"), ("accepts_more", r"&self\s*,\s*current\s*:\s*usize")]


def gen_action_tables(read):
    asrc = strip_comments(read("clap_builder/src/builder/action.rs"))
    rsrc = strip_comments(read("clap_builder/src/builder/range.rs"))
    gsrc = strip_comments(read("clap_builder/src/builder/arg.rs"))

    # ---- range.rs
    consts = range_consts(rsrc)
    cnames = [c[0] for c in consts]
    dm = re.search(r"impl\s+Default\s+for\s+ValueRange\s*\{\s*fn\s+default\s*\(\s*\)\s*->\s*Self\s*\{\s*Self::([A-Z_]+)\s*\}\s*\}", rsrc)
    if not dm or dm.group(1) not in cnames:
        die("`impl Default for ValueRange` no longer returns one of the associated constants")
    preds = []
    for fn, params in RANGE_BOOL_FNS:
        what = "ValueRange::" + fn
        b = norm(fn_body(rsrc, r"fn\s+%s\s*\(\s*%s\s*\)\s*->\s*bool" % (fn, params), what))
        preds.append((fn, range_expr(b, what)))
    for fn, fld in (("min_values", "GStart"), ("max_values", "GEnd")):
        b = norm(fn_body(rsrc, r"fn\s+%s\s*\(\s*&self\s*\)\s*->\s*usize" % fn, "ValueRange::" + fn))
        if range_term(b, "ValueRange::" + fn) != fld:
            die("ValueRange::%s no longer returns %s: %s" % (fn, fld, b))
    b = norm(fn_body(rsrc, r"fn\s+num_values\s*\(\s*&self\s*\)\s*->\s*Option<usize>", "ValueRange::num_values"))
    nm = re.fullmatch(r"self\.(\w+)\(\)\.then_some\((self\.\w+)\)", b)
    if not nm or nm.group(1) not in [p[0] for p in preds]:
        die("ValueRange::num_values no longer has the shape `self.<pred>().then_some(self.<field>)`: " + b)
    num_values = (nm.group(1), range_term(nm.group(2), "ValueRange::num_values"))

    # ---- action.rs
    variants = enum_variants(asrc, r"pub\s+enum\s+ArgAction", "enum ArgAction")
    aliases = dict(re.findall(r"pub(?:\([a-z]+\))?\s+type\s+(\w+)\s*=\s*(\w+)\s*;", asrc))
    cols = [
        action_match(asrc, "takes_values", "bool", variants, v_bool),
        action_match(asrc, "max_num_args", "ValueRange", variants, v_range(cnames)),
        action_match(asrc, "default_num_args", "ValueRange", variants, v_range(cnames)),
        action_match(asrc, "default_value", r"Option<&'static\s+std::ffi::OsStr>", variants, v_osstr),
        action_match(asrc, "default_missing_value", r"Option<&'static\s+std::ffi::OsStr>", variants, v_osstr),
        action_match(asrc, "default_value_parser", r"Option<super::ValueParser>", variants, v_parser),
        action_match(asrc, "value_type_id", r"Option<AnyValueId>", variants, v_typeid(aliases)),
    ]
    rows = []
    for i, v in enumerate(variants):
        tv, mx, dn, dv, dmv, vp, ty = [c[i] for c in cols]
        rows.append("{| ga_name := %s; ga_takes_values := %s; ga_max_num_args := %s; ga_default_num_args := %s;\n"
                    "     ga_default_value := %s; ga_default_missing_value := %s; ga_default_value_parser := %s; ga_value_type_id := %s |}"
                    % (cstr(v), tv, cstr(mx), cstr(dn), copt(dv), copt(dmv), copt(vp), copt(ty)))

    # ---- arg.rs: Arg::_build
    b = norm(fn_body(gsrc, r"pub\(crate\)\s+fn\s+_build\s*\(\s*&mut\s+self\s*\)", "Arg::_build"))
    shape = (
        r"if self\.action\.is_none\(\) \{ "
        r"if self\.num_vals == Some\(ValueRange::(?P<flag_range>[A-Z_]+)\) \{ let action = ArgAction::(?P<flag_action>\w+); self\.action = Some\(action\); \} "
        r"else \{ let action = if self\.is_positional\(\) && self\.num_vals\.unwrap_or_default\(\)\.is_unbounded\(\) \{ ArgAction::(?P<pos_action>\w+) \} "
        r"else \{ ArgAction::(?P<else_action>\w+) \}; self\.action = Some\(action\); \} \} "
        r"if let Some\(action\) = self\.action\.as_ref\(\) \{ "
        r"if let Some\(default_value\) = action\.default_value\(\) \{ if self\.default_vals\.is_empty\(\) \{ self\.default_vals = vec!\[default_value\.into\(\)\]; \} \} "
        r"if let Some\(default_value\) = action\.default_missing_value\(\) \{ if self\.default_missing_vals\.is_empty\(\) \{ self\.default_missing_vals = vec!\[default_value\.into\(\)\]; \} \} \} "
        r"if self\.value_parser\.is_none\(\) \{ if let Some\(default\) = self\.action\.as_ref\(\)\.and_then\(\|a\| a\.default_value_parser\(\)\) \{ self\.value_parser = Some\(default\); \} "
        r"else \{ self\.value_parser = Some\(super::ValueParser::(?P<fallback>\w+)\(\)\); \} \} "
        r"let val_names_len = self\.val_names\.len\(\); "
        r"if val_names_len > (?P<names_gt>\d+) \{ self\.num_vals\.get_or_insert\(val_names_len\.into\(\)\); \} "
        r"else \{ let nargs = self\.get_action\(\)\.default_num_args\(\); self\.num_vals\.get_or_insert\(nargs\); \}")
    bm = re.fullmatch(shape, b)
    if not bm:
        die("Arg::_build no longer has the block structure the model transcribes (Parse/Build.v ab_action, ab_default, "
            "ab_dmissing, ab_vp, ab_num): " + b)
    for k in ("flag_action", "pos_action", "else_action"):
        if bm.group(k) not in variants:
            die("Arg::_build names an unknown action " + bm.group(k))
    if bm.group("flag_range") not in cnames:
        die("Arg::_build names an unknown ValueRange constant " + bm.group("flag_range"))
    # `impl From<usize> for ValueRange`: (n..=n)
    fm = re.search(r"impl\s+From<usize>\s+for\s+ValueRange\s*\{\s*fn\s+from\s*\(\s*fixed\s*:\s*usize\s*\)\s*->\s*Self\s*\{\s*\(fixed\.\.=fixed\)\.into\(\)\s*\}\s*\}", rsrc)
    if not fm:
        die("`impl From<usize> for ValueRange` no longer is `(fixed..=fixed).into()`")
    # get_action(): self.action.as_ref().unwrap_or(&ArgAction::Set)
    ga = norm(fn_body(gsrc, r"pub\s+fn\s+get_action\s*\(\s*&self\s*\)\s*->\s*&ArgAction", "Arg::get_action"))
    gm = re.fullmatch(r"const DEFAULT: ArgAction = ArgAction::(\w+); self\.action\.as_ref\(\)\.unwrap_or\(&DEFAULT\)", ga)
    if not gm or gm.group(1) not in variants:
        die("Arg::get_action no longer has the shape `const DEFAULT: ArgAction = ArgAction::X; self.action.as_ref().unwrap_or(&DEFAULT)`: " + ga)
    tk = norm(fn_body(gsrc, r"pub\(crate\)\s+fn\s+is_takes_value_set\s*\(\s*&self\s*\)\s*->\s*bool", "Arg::is_takes_value_set"))
    tm = re.fullmatch(r"self\.get_num_args\(\) \.unwrap_or_else\(\|\| (\d+)\.into\(\)\) \.takes_values\(\)", tk)
    if not tm:
        die("Arg::is_takes_value_set no longer has the shape `self.get_num_args().unwrap_or_else(|| N.into()).takes_values()`: " + tk)
    mv = norm(fn_body(gsrc, r"pub\(crate\)\s+fn\s+is_multiple_values_set\s*\(\s*&self\s*\)\s*->\s*bool", "Arg::is_multiple_values_set"))
    if mv != "self.get_num_args().unwrap_or_default().is_multiple()":
        die("Arg::is_multiple_values_set no longer is `self.get_num_args().unwrap_or_default().is_multiple()`: " + mv)

    lines = [
        "(* GENERATED by translators/builder_tables.py from clap_builder/src/builder/{action,range,arg}.rs -- do not edit. *)",
        "From Coq Require Import List NArith String.",
        "Import ListNotations.",
        "Open Scope N_scope.",
        "Open Scope string_scope.",
        "",
        "(** ---- range.rs ---- *)",
        "Inductive gbound := GLit (n : N) | GUsizeMax.",
        "(* associated constants of ValueRange: (name, start_inclusive, end_inclusive, only under cfg(debug_assertions)) *)",
        "Definition gen_range_consts : list (string * gbound * gbound * bool) := "
        + clist(["(%s, %s, %s, %s)" % (cstr(n), lo, hi, "true" if dbg else "false") for n, lo, hi, dbg in consts]) + ".",
        "(* impl Default for ValueRange *)",
        "Definition gen_range_default : string := %s." % cstr(dm.group(1)),
        "(* the one-expression predicates of ValueRange, as expressions over the two fields *)",
        "Inductive gterm := GStart | GEnd | GCurrent | GNum (n : N) | GMax.",
        "Inductive gbexpr := GEq (a b : gterm) | GNe (a b : gterm) | GLt (a b : gterm) | GOr (a b : gbexpr).",
        "Definition gen_range_preds : list (string * gbexpr) := "
        + clist(["(%s, %s)" % (cstr(fn), e) for fn, e in preds]) + ".",
        "(* num_values = self.<pred>().then_some(<field>) *)",
        "Definition gen_range_num_values : string * gterm := (%s, %s)." % (cstr(num_values[0]), num_values[1]),
        "",
        "(** ---- action.rs ---- *)",
        "Record gaction_row := {",
        "  ga_name : string; ga_takes_values : bool; ga_max_num_args : string; ga_default_num_args : string;",
        "  ga_default_value : option string; ga_default_missing_value : option string;",
        "  ga_default_value_parser : option string; ga_value_type_id : option string }.",
        "(* one row per variant of `enum ArgAction`, in declaration order; ranges by constant name; the value parser is",
        "   \"bool\" (ValueParser::bool()) or the T of value_parser!(T); the type id is the T of AnyValueId::of::<T>()",
        "   with type aliases of action.rs resolved *)",
        "Definition gen_action_rows : list gaction_row := " + clist(rows) + ".",
        "",
        "(** ---- arg.rs: Arg::_build, Arg::get_action, is_takes_value_set ---- *)",
        "(* if self.action.is_none(): num_vals == Some(ValueRange::<r>) => <a1>; positional && unbounded => <a2>; else <a3> *)",
        "Definition gen_build_flag_range : string := %s." % cstr(bm.group("flag_range")),
        "Definition gen_build_flag_action : string := %s." % cstr(bm.group("flag_action")),
        "Definition gen_build_unbounded_positional_action : string := %s." % cstr(bm.group("pos_action")),
        "Definition gen_build_other_action : string := %s." % cstr(bm.group("else_action")),
        "(* value_parser: the action's default_value_parser(), else ValueParser::<this>() *)",
        "Definition gen_build_fallback_parser : string := %s." % cstr(bm.group("fallback")),
        "(* num_vals: val_names.len() > <this> => that many; else the action's default_num_args() *)",
        "Definition gen_build_val_names_more_than : N := %s." % bm.group("names_gt"),
        "(* Arg::get_action: unwrap_or(&ArgAction::<this>) *)",
        "Definition gen_get_action_default : string := %s." % cstr(gm.group(1)),
        "(* Arg::is_takes_value_set: get_num_args().unwrap_or_else(|| <this>.into()).takes_values() *)",
        "Definition gen_takes_value_default_fixed : N := %s." % tm.group(1),
        "",
    ]
    return "ActionTables.v", "\n".join(lines)


# ------------------------------------------------------------------------------------------------ AppSettings
HELPERS = ["setting", "unset_setting", "global_setting", "unset_global_setting"]
# functions of command.rs that call the four helpers directly and are read separately (or deliberately not at all)
HELPER_CALLERS_READ = {"_check_help_and_version"}
HELPER_CALLERS_NOT_MODELLED = {"color", "_copy_subtree_for_help"}   # colour choice; help-tree expansion (expand_help_tree)


def split_fns(src):
    """[(name, header, body)] for every fn of the file, in order"""
    out = []
    for m in re.finditer(r"\bfn\s+(\w+)\s*(?:<[^>{]*>)?\s*\(", src):
        # find the opening brace of the body (skip the signature; a `;` first means a declaration without body)
        i = m.end()
        depth = 1
        while i < len(src) and depth:
            depth += {"(": 1, ")": -1}.get(src[i], 0)
            i += 1
        j = i
        while j < len(src) and src[j] not in "{;":
            j += 1
        if j >= len(src) or src[j] == ";":
            continue
        out.append((m.group(1), src[m.start():j], block_at(src, j, "fn " + m.group(1))))
    return out


def gen_settings_tables(read):
    ssrc = strip_comments(read("clap_builder/src/builder/app_settings.rs"))
    csrc = strip_comments(read("clap_builder/src/builder/command.rs"))
    variants = enum_variants(ssrc, r"pub\(crate\)\s+enum\s+AppSettings", "enum AppSettings")
    # AppFlags: set = |= bit, unset = &= !bit, is_set = & bit != 0, BitOr = |
    for fn, shape in (("set", r"self\.0 \|= setting\.bit\(\);"), ("unset", r"self\.0 &= !setting\.bit\(\);"),
                      ("is_set", r"self\.0 & setting\.bit\(\) != 0")):
        b = norm(fn_body(ssrc, r"pub\(crate\)\s+fn\s+%s\s*\(\s*&(?:mut\s+)?self\s*,\s*setting\s*:\s*AppSettings\s*\)(?:\s*->\s*bool)?" % fn,
                         "AppFlags::" + fn))
        if not re.fullmatch(shape, b):
            die("AppFlags::%s no longer has the shape %s: %s" % (fn, shape, b))
    b = norm(fn_body(ssrc, r"fn\s+bitor\s*\(\s*mut\s+self\s*,\s*rhs\s*:\s*Self\s*\)\s*->\s*Self::Output", "AppFlags::bitor"))
    if b != "self.insert(rhs); self":
        die("AppFlags::bitor is no longer `self.insert(rhs); self`: " + b)
    b = norm(fn_body(ssrc, r"pub\(crate\)\s+fn\s+insert\s*\(\s*&mut\s+self\s*,\s*other\s*:\s*Self\s*\)", "AppFlags::insert"))
    if b != "self.0 |= other.0;":
        die("AppFlags::insert is no longer `self.0 |= other.0;`: " + b)
    b = norm(fn_body(ssrc, r"fn\s+bit\s*\(\s*self\s*\)\s*->\s*u32", "AppSettings::bit"))
    if b != "1 << (self as u8)":
        die("AppSettings::bit is no longer `1 << (self as u8)` (one bit per variant): " + b)
    if len(variants) > 32:
        die("more than 32 AppSettings variants: bits of the u32 would collide")

    fns = split_fns(csrc)
    # ---- the four helpers
    helpers = []
    for h in HELPERS:
        hs = [f for f in fns if f[0] == h]
        if len(hs) != 1:
            die("expected exactly one `fn %s` in command.rs, found %d" % (h, len(hs)))
        if not re.search(r"\(\s*mut\s+self\s*,\s*setting\s*:\s*AppSettings\s*\)\s*->\s*Self", hs[0][1]):
            die("Command::%s no longer has the signature (mut self, setting: AppSettings) -> Self" % h)
        body = norm(hs[0][2])
        stmts = [s.strip() for s in body.split(";")]
        if stmts[-1] != "self":
            die("Command::%s no longer ends in `self`: %s" % (h, body))
        recs, ops = [], set()
        for s in stmts[:-1]:
            sm = re.fullmatch(r"self\.(\w+)\.(set|unset)\(setting\)", s)
            if not sm:
                die("Command::%s: unexpected statement %r" % (h, s))
            recs.append(sm.group(1))
            ops.add(sm.group(2))
        if len(ops) != 1:
            die("Command::%s mixes set and unset" % h)
        helpers.append((h, ops.pop() == "set", recs))
    hmap = {h: (is_set, recs) for h, is_set, recs in helpers}

    # ---- the bool setters built on them; every other direct caller of a helper must be known
    setters = []
    call = re.compile(r"\.(%s)\(\s*AppSettings::(\w+)\s*\)" % "|".join(HELPERS))
    for name, header, body in fns:
        calls = call.findall(body)
        if not calls or name in HELPERS:
            continue
        nb = norm(body)
        sm = re.fullmatch(r"if yes \{ self\.(\w+)\(AppSettings::(\w+)\) \} else \{ self\.(\w+)\(AppSettings::(\w+)\) \}", nb)
        if sm and re.search(r"\(\s*self\s*,\s*yes\s*:\s*bool\s*\)\s*->\s*Self", header):
            h1, v1, h2, v2 = sm.groups()
            if v1 != v2 or v1 not in variants:
                die("Command::%s sets %s but unsets %s" % (name, v1, v2))
            if (h1, h2) == ("setting", "unset_setting"):
                glob = False
            elif (h1, h2) == ("global_setting", "unset_global_setting"):
                glob = True
            else:
                die("Command::%s pairs %s with %s" % (name, h1, h2))
            setters.append((name, v1, glob))
        elif name in HELPER_CALLERS_READ or name in HELPER_CALLERS_NOT_MODELLED:
            continue
        else:
            die("Command::%s calls %s directly but is not a `if yes { .. } else { .. }` setter the translator can read: %s"
                % (name, "/".join(sorted({c[0] for c in calls})), nb[:200]))
    if not setters:
        die("no bool setters found in command.rs")
    if len({s[0] for s in setters}) != len(setters):
        die("duplicate setter names in command.rs")

    # ---- Command::is_set
    b = norm(fn_body(csrc, r"pub\(crate\)\s+fn\s+is_set\s*\(\s*&self\s*,\s*s\s*:\s*AppSettings\s*\)\s*->\s*bool", "Command::is_set"))
    parts = [p.strip() for p in b.split("||")]
    reads = []
    for p in parts:
        pm = re.fullmatch(r"self\.(\w+)\.is_set\(s\)", p)
        if not pm:
            die("Command::is_set no longer is a disjunction of self.<flags>.is_set(s): " + b)
        reads.append(pm.group(1))

    # ---- _propagate_subcommand
    b = norm(fn_body(csrc, r"fn\s+_propagate_subcommand\s*\(\s*&self\s*,\s*sc\s*:\s*&mut\s+Self\s*\)", "Command::_propagate_subcommand"))
    pm = re.fullmatch(
        r"\{ if self\.(\w+)\.is_set\(AppSettings::(\w+)\) \{ "
        r"if let Some\(version\) = self\.version\.as_ref\(\) \{ sc\.version\.get_or_insert_with\(\|\| version\.clone\(\)\); \} "
        r"if let Some\(long_version\) = self\.long_version\.as_ref\(\) \{ sc\.long_version\.get_or_insert_with\(\|\| long_version\.clone\(\)\); \} \} "
        r"((?:sc\.\w+ = sc\.\w+ \| self\.\w+; )*)sc\.app_ext\.update\(&self\.app_ext\); \}", b)
    if not pm:
        die("Command::_propagate_subcommand no longer has the shape the model transcribes (Parse/Build.v propagate_subcommand): " + b)
    guard = (pm.group(1), pm.group(2))
    assigns = re.findall(r"sc\.(\w+) = sc\.(\w+) \| self\.(\w+);", pm.group(3))
    if not assigns:
        die("Command::_propagate_subcommand no longer passes any settings to the subcommand")
    b = norm(fn_body(csrc, r"pub\(crate\)\s+fn\s+_propagate\s*\(\s*&mut\s+self\s*\)", "Command::_propagate"))
    if "for sc in &mut subcommands { self._propagate_subcommand(sc); }" not in b:
        die("Command::_propagate no longer calls _propagate_subcommand for every subcommand: " + b)

    # ---- _build_self: the settings block between the Built test and self._propagate()
    b = norm(fn_body(csrc, r"pub\(crate\)\s+fn\s+_build_self\s*\(\s*&mut\s+self\s*,\s*expand_help_tree\s*:\s*bool\s*\)", "Command::_build_self"))
    bm = re.search(r"if !self\.settings\.is_set\(AppSettings::Built\) \{ (?:if let Some\(deferred\) = self\.deferred\.take\(\) \{ [^}]* \} )?"
                   r"self\.(\w+) = self\.(\w+) \| self\.(\w+); ((?:if [^{}]* \{ (?:self\.settings\.set\(AppSettings::\w+\); )+\} ?)*)", b)
    if not bm:
        die("Command::_build_self no longer starts with `settings = settings | g_settings; <conditional sets>` (the order of the later "
            "steps is read by gen_build_tables): " + b[:400])
    merge = (bm.group(1), bm.group(2), bm.group(3))
    sets = []
    rest = bm.group(4).strip()
    while rest:
        im = re.match(r"if (.+?) \{ ((?:self\.settings\.set\(AppSettings::\w+\); )+)\} ?", rest)
        if not im:
            die("Command::_build_self: cannot read the settings block at: " + rest[:200])
        vs = re.findall(r"self\.settings\.set\(AppSettings::(\w+)\);", im.group(2))
        for v in vs:
            if v not in variants:
                die("Command::_build_self sets an unknown AppSettings::" + v)
        sets.append((im.group(1), vs))
        rest = rest[im.end():].strip()
    if "self.settings.set(AppSettings::Built);" not in b:
        die("Command::_build_self no longer sets AppSettings::Built")

    # ---- _check_help_and_version: what is done to the generated help subcommand after _propagate_subcommand
    b = norm(fn_body(csrc, r"pub\(crate\)\s+fn\s+_check_help_and_version\s*\(\s*&mut\s+self\s*,\s*expand_help_tree\s*:\s*bool\s*\)",
                     "Command::_check_help_and_version"))
    hm = re.search(r"self\._propagate_subcommand\(&mut help_subcmd\); help_subcmd\.version = None; help_subcmd\.long_version = None; "
                   r"help_subcmd = help_subcmd((?: \.\w+\(AppSettings::\w+\))+); self\.subcommands\.push\(help_subcmd\);", b)
    if not hm:
        die("Command::_check_help_and_version: the tail that finishes the generated `help` subcommand has an unknown shape")
    chain = re.findall(r"\.(\w+)\(AppSettings::(\w+)\)", hm.group(1))
    for h, v in chain:
        if h not in HELPERS or v not in variants:
            die("Command::_check_help_and_version: unknown call .%s(AppSettings::%s)" % (h, v))

    # ---- the model-side spec reader (ocaml/common_parse/spec.ml): scope helpers and setter arms
    with open(os.path.join(ROOT, "ocaml", "common_parse", "spec.ml"), encoding="utf-8") as f:
        osrc = f.read()
    om = re.search(r"let apply_setting \(c : Cmd\.cmd\) \(name : string\) : Cmd\.cmd =(.*?)\n\n", osrc, re.S)
    if not om:
        die("ocaml/common_parse/spec.ml: apply_setting not found")
    ob = om.group(1)
    scopes = []
    for sm in re.finditer(r"let (\w+) f = \{ c with ([^}]*) \} in", ob):
        recs = []
        for part in [p.strip() for p in sm.group(2).split(";") if p.strip()]:
            rm = re.fullmatch(r"(\w+) = f c\.(\w+)", part)
            if not rm or rm.group(1) != rm.group(2):
                die("spec.ml apply_setting: scope helper %s has an unexpected field update %r" % (sm.group(1), part))
            recs.append(rm.group(1))
        scopes.append((sm.group(1), recs))
    if not scopes:
        die("spec.ml apply_setting: no scope helpers (`let both f = ...`) found")
    arms = []
    body_arms = ob[ob.index("match name with"):]
    for line in [l.strip() for l in body_arms.split("\n")[1:] if l.strip()]:
        am = re.fullmatch(r'\| "(\w+)" -> (\w+) \(fun s -> \{ s with (\w+) = true \}\)', line)
        if am:
            if am.group(2) not in [s[0] for s in scopes]:
                die("spec.ml apply_setting: unknown scope helper in arm " + line)
            arms.append((am.group(1), am.group(2), am.group(3)))
        elif re.fullmatch(r'\| x -> failwith \("setting " \^ x\)', line):
            continue
        else:
            die("spec.ml apply_setting: arm with an unexpected shape: " + line)
    if not arms:
        die("spec.ml apply_setting: no arms")

    # ---- the implementation-side spec reader (harness/src/modes/parse.rs): which Command method a setter name calls
    with open(os.path.join(ROOT, "harness", "src", "modes", "parse.rs"), encoding="utf-8") as f:
        hsrc = f.read()
    hm2 = re.search(r'c = match f\.sym\(\) \{(.*?)x => panic!\("setting \{x\}"\),', hsrc, re.S)
    if not hm2:
        die("harness/src/modes/parse.rs: the `(set ...)` match on setter names was not found")
    harms = []
    for line in [l.strip() for l in hm2.group(1).split("\n") if l.strip()]:
        am = re.fullmatch(r'"(\w+)" => c\.(\w+)\(true\),', line)
        if not am:
            die("harness/src/modes/parse.rs: setter arm with an unexpected shape: " + line)
        harms.append((am.group(1), am.group(2)))

    def sl(l):
        return "[" + "; ".join(cstr(x) for x in l) + "]"
    lines = [
        "(* GENERATED by translators/builder_tables.py from clap_builder/src/builder/{app_settings,command}.rs and",
        "   (last three tables) from this framework's ocaml/common_parse/spec.ml and harness/src/modes/parse.rs -- do not edit. *)",
        "From Coq Require Import List String.",
        "Import ListNotations.",
        "Open Scope string_scope.",
        "",
        "(* variants of `enum AppSettings` in declaration order (one bit of a u32 each) *)",
        "Definition gen_appsettings : list string := " + clist([cstr(v) for v in variants]) + ".",
        "(* Command::{setting, unset_setting, global_setting, unset_global_setting}:",
        "   (fn, true = set / false = unset, the AppFlags fields of Command it changes, in order) *)",
        "Definition gen_setting_helpers : list (string * bool * list string) := "
        + clist(["(%s, %s, %s)" % (cstr(h), "true" if s else "false", sl(r)) for h, s, r in helpers]) + ".",
        "(* every `pub fn x(self, yes: bool) -> Self { if yes { self.<set>(AppSettings::V) } else { self.<unset>(AppSettings::V) } }`:",
        "   (x, V, true = through global_setting/unset_global_setting, false = through setting/unset_setting) *)",
        "Definition gen_setters : list (string * string * bool) := "
        + clist(["(%s, %s, %s)" % (cstr(n), cstr(v), "true" if g else "false") for n, v, g in setters]) + ".",
        "(* Command::is_set(s) = self.<f1>.is_set(s) || self.<f2>.is_set(s) ... *)",
        "Definition gen_is_set_reads : list string := " + sl(reads) + ".",
        "(* Command::_propagate_subcommand: `if self.<f>.is_set(AppSettings::<V>) { version, long_version: get_or_insert }` *)",
        "Definition gen_propagate_version_guard : string * string := (%s, %s)." % (cstr(guard[0]), cstr(guard[1])),
        "(* ... then, in order, `sc.<a> = sc.<b> | self.<c>;` *)",
        "Definition gen_propagate_assigns : list (string * string * string) := "
        + clist(["(%s, %s, %s)" % (cstr(a), cstr(b_), cstr(c)) for a, b_, c in assigns]) + ".",
        "(* Command::_build_self, first statement: `self.<a> = self.<b> | self.<c>;` *)",
        "Definition gen_build_self_merge : string * string * string := (%s, %s, %s)." % tuple(cstr(x) for x in merge),
        "(* ... then `if <condition> { self.settings.set(AppSettings::V); .. }` blocks, in order: (condition text, [V]) *)",
        "Definition gen_build_self_sets : list (string * list string) := "
        + clist(["(%s, %s)" % (cstr(c), sl(vs)) for c, vs in sets]) + ".",
        "(* Command::_check_help_and_version: calls applied to the generated `help` subcommand after _propagate_subcommand *)",
        "Definition gen_help_sub_chain : list (string * string) := "
        + clist(["(%s, %s)" % (cstr(h), cstr(v)) for h, v in chain]) + ".",
        "",
        "(** ---- ocaml/common_parse/spec.ml: apply_setting ---- *)",
        "(* scope helpers: (name, the fields of Cmd.cmd the update is applied to) *)",
        "Definition gen_spec_scopes : list (string * list string) := "
        + clist(["(%s, %s)" % (cstr(n), sl(r)) for n, r in scopes]) + ".",
        "(* arms: (setter name in a case file, scope helper, field of Cmd.settings set to true) *)",
        "Definition gen_spec_settings : list (string * string * string) := "
        + clist(["(%s, %s, %s)" % (cstr(n), cstr(s), cstr(f)) for n, s, f in arms]) + ".",
        "(** ---- harness/src/modes/parse.rs: (setter name in a case file, the Command method called with `true`) ---- *)",
        "Definition gen_harness_settings : list (string * string) := "
        + clist(["(%s, %s)" % (cstr(n), cstr(m_)) for n, m_ in harms]) + ".",
        "",
    ]
    return "SettingsTables.v", "\n".join(lines)


# ------------------------------------------------------------------------------------------------ generated help / version
def gen_build_tables(read):
    """Command::_check_help_and_version: the auto-generated `--help` / `--version` arguments and the `help` subcommand
    (names, shorts, actions, guards, order), Id::HELP / Id::VERSION, the three getters that guard them."""
    csrc = strip_comments(read("clap_builder/src/builder/command.rs"))
    isrc = strip_comments(read("clap_builder/src/util/id.rs"))
    rsrc = strip_comments(read("clap_builder/src/builder/range.rs"))
    ids = dict(re.findall(r'pub\(crate\)\s+const\s+(\w+)\s*:\s*&\'static\s+str\s*=\s*"([^"\\]*)"\s*;', isrc))
    for k in ("HELP", "VERSION"):
        if k not in ids:
            die("util/id.rs: constant Id::%s not found" % k)
    b = norm(fn_body(csrc, r"pub\(crate\)\s+fn\s+_check_help_and_version\s*\(\s*&mut\s+self\s*,\s*expand_help_tree\s*:\s*bool\s*\)",
                     "Command::_check_help_and_version"))
    b = re.sub(r'debug!\((?:[^()"]|"(?:[^"\\]|\\.)*")*\); ?', "", b)
    shape = (
        r"self\.long_help_exists = self\.long_help_exists_\(\); "
        r"if !self\.(?P<hguard>\w+)\(\) \{ "
        r"let mut arg = Arg::new\(Id::(?P<hid>\w+)\) ?\.short\('(?P<hshort>.)'\) ?\.long\(\"(?P<hlong>[^\"]*)\"\) ?\.action\(ArgAction::(?P<haction>\w+)\); "
        r"if self\.long_help_exists \{ arg = arg ?\.help\(\"[^\"]*\"\) ?\.long_help\(\"[^\"]*\"\); \} else \{ arg = arg\.help\(\"[^\"]*\"\); \} "
        r"self\.args\.push\(arg\); \} "
        r"if !self\.(?P<vguard>\w+)\(\) \{ "
        r"let arg = Arg::new\(Id::(?P<vid>\w+)\) ?\.short\('(?P<vshort>.)'\) ?\.long\(\"(?P<vlong>[^\"]*)\"\) ?\.action\(ArgAction::(?P<vaction>\w+)\) ?\.help\(\"[^\"]*\"\); "
        r"self\.args\.push\(arg\); \} "
        r"if !self\.is_set\(AppSettings::(?P<sguard>\w+)\) \{ "
        r"let help_about = \"(?P<about>[^\"]*)\"; "
        r"let mut help_subcmd = if expand_help_tree \{ .*? \} else \{ "
        r"Command::new\(\"(?P<sname>[^\"]*)\"\)\.about\(help_about\)\.arg\( "
        r"Arg::new\(\"(?P<said>[^\"]*)\"\) ?\.action\(ArgAction::(?P<saction>\w+)\) ?\.num_args\((?P<snum>[^()]*)\) ?\.value_name\(\"[^\"]*\"\) ?\.help\(\"[^\"]*\"\), \) \}; "
        r"self\._propagate_subcommand\(&mut help_subcmd\); .* self\.subcommands\.push\(help_subcmd\); \}")
    m = re.fullmatch(shape, b)
    if not m:
        die("Command::_check_help_and_version no longer has the shape the model transcribes (Parse/Build.v help_arg, version_arg, "
            "help_subcommand_arg, bs_help_version): " + b[:600])
    for k in ("hid", "vid"):
        if m.group(k) not in ids:
            die("Command::_check_help_and_version: unknown Id::" + m.group(k))
    if m.group("snum").strip() != "..":
        die("Command::_check_help_and_version: the `help` subcommand's argument no longer has num_args(..): " + m.group("snum"))
    if not re.search(r"impl\s+From<std::ops::RangeFull>\s+for\s+ValueRange\s*\{\s*fn\s+from\s*\(\s*_\s*:\s*std::ops::RangeFull\s*\)\s*->\s*Self\s*\{\s*Self::FULL\s*\}\s*\}", rsrc):
        die("`impl From<RangeFull> for ValueRange` no longer returns Self::FULL")
    # the guards
    guards = []
    for g in (m.group("hguard"), m.group("vguard")):
        gb = norm(fn_body(csrc, r"pub\s+fn\s+%s\s*\(\s*&self\s*\)\s*->\s*bool" % g, "Command::" + g))
        gm = re.fullmatch(r"self\.is_set\(AppSettings::(\w+)\)(?: \|\| \(self\.version\.is_none\(\) && self\.long_version\.is_none\(\)\))?", gb)
        if not gm:
            die("Command::%s has an unknown shape: %s" % (g, gb))
        guards.append((g, gm.group(1), "version.is_none()" in gb))

    # ---- mkeymap.rs: which keys an argument gets, in which order; get = first key that matches
    msrc = strip_comments(read("clap_builder/src/mkeymap.rs"))
    kb = norm(fn_body(msrc, r"fn\s+append_keys\s*\(\s*keys\s*:\s*&mut\s+Vec<Key>\s*,\s*arg\s*:\s*&Arg\s*,\s*index\s*:\s*usize\s*\)", "mkeymap::append_keys"))
    km = re.fullmatch(r"if let Some\(pos_index\) = arg\.index \{ let key = KeyType::Position\(pos_index\); keys\.push\(Key \{ key, index \}\); \} else \{ (.*) \}", kb)
    if not km:
        die("mkeymap::append_keys no longer has the shape `if let Some(pos_index) = arg.index { Position } else { .. }`: " + kb)
    key_sources = []
    rest = km.group(1).strip()
    while rest:
        m1 = re.match(r"if let Some\((\w+)\) = arg\.(\w+)(?:\.clone\(\))? \{ let key = KeyType::(\w+)\(\1(?:\.into\(\))?\); keys\.push\(Key \{ key, index \}\); \} ?", rest)
        m2 = re.match(r"for \((\w+), _\) in arg\.(\w+)\.iter\(\) \{ let key = KeyType::(\w+)\(\*?\1(?:\.into\(\))?\); keys\.push\(Key \{ key, index \}\); \} ?", rest)
        mm = m1 or m2
        if not mm:
            die("mkeymap::append_keys: cannot read the key source at: " + rest[:160])
        key_sources.append((mm.group(2), mm.group(3), "one" if m1 else "each"))
        rest = rest[mm.end():].strip()
    gb = norm(fn_body(msrc, r"pub\(crate\)\s+fn\s+get<K: \?Sized>\s*\(\s*&self\s*,\s*key\s*:\s*&K\s*\)\s*->\s*Option<&Arg>\s*where\s*KeyType\s*:\s*PartialEq<K>\s*,?", "MKeyMap::get"))
    if gb != "self.keys .iter() .find(|k| &k.key == key) .map(|k| &self.args[k.index])":
        die("MKeyMap::get is no longer `keys.iter().find(|k| &k.key == key).map(|k| &self.args[k.index])` (first matching key): " + gb)
    bb = norm(fn_body(msrc, r"pub\(crate\)\s+fn\s+_build\s*\(\s*&mut\s+self\s*\)", "MKeyMap::_build"))
    if "for (i, arg) in self.args.iter().enumerate() { append_keys(&mut self.keys, arg, i); }" not in bb:
        die("MKeyMap::_build no longer appends the keys of every argument in argument order: " + bb)

    # ---- arg.rs / arg_settings.rs: the bool setters and getters of Arg over ArgSettings; the `flags` of the two spec readers
    asrc = strip_comments(read("clap_builder/src/builder/arg.rs"))
    ssrc = strip_comments(read("clap_builder/src/builder/arg_settings.rs"))
    avariants = enum_variants(ssrc, r"pub\(crate\)\s+enum\s+ArgSettings", "enum ArgSettings")
    arg_setters, arg_getters = [], []
    for name, header, body in split_fns(asrc):
        nb = norm(body)
        if "ArgSettings::" not in nb:
            continue
        sm = re.fullmatch(r"if yes \{ self\.setting\(ArgSettings::(\w+)\) \} else \{ self\.unset_setting\(ArgSettings::(\w+)\) \}", nb)
        gm = re.fullmatch(r"self\.is_set\(ArgSettings::(\w+)\)", nb)
        if sm and re.search(r"\(\s*self\s*,\s*yes\s*:\s*bool\s*\)\s*->\s*Self", header):
            if sm.group(1) != sm.group(2) or sm.group(1) not in avariants:
                die("Arg::%s sets %s but unsets %s" % (name, sm.group(1), sm.group(2)))
            arg_setters.append((name, sm.group(1)))
        elif gm and re.search(r"\(\s*&self\s*\)\s*->\s*bool", header):
            if gm.group(1) not in avariants:
                die("Arg::%s reads an unknown ArgSettings::%s" % (name, gm.group(1)))
            arg_getters.append((name, gm.group(1)))
        else:
            die("Arg::%s mentions ArgSettings but is neither a `if yes { setting } else { unset_setting }` setter nor a "
                "`self.is_set(ArgSettings::V)` getter: %s" % (name, nb[:200]))
    if not arg_setters or not arg_getters:
        die("no ArgSettings setters / getters found in arg.rs")
    for h, shape in (("setting", r"self\.settings\.set\(setting\); self"), ("unset_setting", r"self\.settings\.unset\(setting\); self")):
        hb = norm(fn_body(asrc, r"pub\(crate\)\s+fn\s+%s\s*\(\s*mut\s+self\s*,\s*setting\s*:\s*ArgSettings\s*\)\s*->\s*Self" % h, "Arg::" + h))
        if not re.fullmatch(shape, hb):
            die("Arg::%s has an unknown shape: %s" % (h, hb))
    with open(os.path.join(ROOT, "ocaml", "common_parse", "spec.ml"), encoding="utf-8") as f:
        osrc = f.read()
    fm = re.search(r'\| "flags" ->\s*Stdlib\.List\.iter \(fun f -> match Sx\.sym f with(.*?)\| x -> failwith \("flag " \^ x\)\) args', osrc, re.S)
    if not fm:
        die("ocaml/common_parse/spec.ml: the `flags` item of build_arg was not found")
    spec_flags = []
    for line in [l.strip() for l in fm.group(1).split("\n") if l.strip()]:
        am = re.fullmatch(r'\| "(\w+)" -> a := \{ !a with (\w+) = true \}', line)
        if not am:
            die("spec.ml build_arg flags: arm with an unexpected shape: " + line)
        spec_flags.append((am.group(1), am.group(2)))
    with open(os.path.join(ROOT, "harness", "src", "modes", "parse.rs"), encoding="utf-8") as f:
        hsrc = f.read()
    hm = re.search(r'a = match f\.sym\(\) \{(.*?)x => panic!\("flag \{x\}"\),', hsrc, re.S)
    if not hm:
        die("harness/src/modes/parse.rs: the `(flags ...)` match was not found")
    harness_flags = []
    for line in [l.strip() for l in hm.group(1).split("\n") if l.strip()]:
        am = re.fullmatch(r'"(\w+)" => a\.(\w+)\(true\),', line)
        if not am:
            die("harness/src/modes/parse.rs: flag arm with an unexpected shape: " + line)
        harness_flags.append((am.group(1), am.group(2)))

    # ---- Command::_build_self: the order of its steps, the argument loop, the deprecated command-level settings
    bsb = norm(fn_body(csrc, r"pub\(crate\)\s+fn\s+_build_self\s*\(\s*&mut\s+self\s*,\s*expand_help_tree\s*:\s*bool\s*\)", "Command::_build_self"))
    bsb = re.sub(r'debug!\((?:[^()"]|"(?:[^"\\]|\\.)*"|\([^()]*\))*\); ?', "", bsb)
    def tile(text, segs, what):
        """each (name, regex) must match `text` exactly once; the matches must tile `text` without gaps; returns the names
        in source order and the match objects"""
        found = []
        for name, rx in segs:
            ms = list(re.finditer(rx, text))
            if len(ms) != 1:
                die("%s: expected exactly one `%s` part, found %d" % (what, name, len(ms)))
            found.append((ms[0].start(), ms[0].end(), name, ms[0]))
        found.sort()
        pos = 0
        for st, en, name, _ in found:
            if text[pos:st].strip():
                die("%s: code the translator does not know before the `%s` part: %r" % (what, name, text[pos:st].strip()[:160]))
            if st < pos:
                die("%s: the parts `%s` overlap" % (what, name))
            pos = en
        if text[pos:].strip():
            die("%s: code the translator does not know at the end: %r" % (what, text[pos:].strip()[:160]))
        return [f[2] for f in found], {f[2]: f[3] for f in found}

    hm3 = re.fullmatch(r"if !self\.settings\.is_set\(AppSettings::Built\) \{ (?:if let Some\(deferred\) = self\.deferred\.take\(\) \{ [^}]* \} )?(.*) \} else \{ \}", bsb)
    if not hm3:
        die("Command::_build_self is no longer `if !self.settings.is_set(AppSettings::Built) { .. } else { }`: " + bsb[:200])
    steps, sm3 = tile(hm3.group(1), [
        ("settings_block", r"self\.settings = self\.settings \| self\.g_settings; (?:if [^{}]* \{ (?:self\.settings\.set\(AppSettings::\w+\); )+\} ?)+"),
        ("_propagate", r"self\._propagate\(\); ?"),
        ("_check_help_and_version", r"self\._check_help_and_version\(expand_help_tree\); ?"),
        ("_propagate_global_args", r"self\._propagate_global_args\(\); ?"),
        ("args_loop", r"let mut pos_counter = (?P<pos0>\d+); let hide_pv = self\.is_set\(AppSettings::HidePossibleValues\); "
                      r"for a in self\.args\.args_mut\(\) \{ (?P<loop>.*?) \} (?=self\.args\._build)"),
        ("args._build", r"self\.args\._build\(\); ?"),
        ("deprecated_block", r"#\[allow\(deprecated\)\] \{ let highest_idx = self \.get_keymap\(\) \.keys\(\) \.filter_map\(\|x\| \{ if let crate::mkeymap::KeyType::Position\(n\) = x \{ Some\(\*n\) \} else \{ None \} \}\) "
                             r"\.max\(\) \.unwrap_or\((?P<hi0>\d+)\); (?P<lets>(?:let \w+ = self\.\w+\(\); )+)"
                             r"for arg in self\.args\.args_mut\(\) \{ (?P<rules>(?:if \w+ && [^{}]* \{ arg\.settings\.set\(ArgSettings::\w+\); \} )+)\} \} ?"),
        ("assert_app", r"#\[cfg\(debug_assertions\)\] assert_app\(self\); ?"),
        ("set_built", r"self\.settings\.set\(AppSettings::Built\); ?"),
    ], "Command::_build_self")
    loop_steps, _ = tile(sm3["args_loop"].group("loop"), [
        ("groups", r"for g in &a\.groups \{ if let Some\(ag\) = self\.groups\.iter_mut\(\)\.find\(\|grp\| grp\.id == \*g\) \{ ag\.args\.push\(a\.get_id\(\)\.clone\(\)\); \} "
                   r"else \{ let mut ag = ArgGroup::new\(g\); ag\.args\.push\(a\.get_id\(\)\.clone\(\)\); self\.groups\.push\(ag\); \} \} ?"),
        ("_build", r"a\._build\(\); ?"),
        ("hide_possible_values", r"if hide_pv && a\.is_takes_value_set\(\) \{ a\.settings\.set\(ArgSettings::HidePossibleValues\); \} ?"),
        ("index", r"if a\.is_positional\(\) && a\.index\.is_none\(\) \{ a\.index = Some\(pos_counter\); pos_counter \+= 1; \} ?"),
    ], "Command::_build_self, loop over the arguments")

    class _G:   # the two matches the code below reads
        def group(self, k):
            return sm3["args_loop"].group(k) if k == "pos0" else sm3["deprecated_block"].group(k)
    bm2 = _G()
    lets = dict(re.findall(r"let (\w+) = self\.(\w+)\(\); ", bm2.group("lets")))
    dep_rules = []
    for v, cond, setv in re.findall(r"if (\w+) && ([^{}]*) \{ arg\.settings\.set\(ArgSettings::(\w+)\); \} ", bm2.group("rules")):
        if v not in lets:
            die("Command::_build_self deprecated block: unknown local " + v)
        getter = lets[v]
        gb2 = norm(fn_body(csrc, r"pub(?:\(crate\))?\s+fn\s+%s\s*\(\s*&self\s*\)\s*->\s*bool" % getter, "Command::" + getter))
        gm2 = re.fullmatch(r"self\.is_set\(AppSettings::(\w+)\)", gb2)
        if not gm2:
            die("Command::%s is no longer `self.is_set(AppSettings::V)`: %s" % (getter, gb2))
        if setv not in avariants:
            die("Command::_build_self sets an unknown ArgSettings::" + setv)
        dep_rules.append((gm2.group(1), cond.strip(), setv))

    def row(i, s, l, a):
        return "(%s, %s, %s, %s)" % (cstr(ids[i]), cstr(s), cstr(l), cstr(a))

    def pairs(l):
        return clist(["(%s, %s)" % (cstr(a_), cstr(b_)) for a_, b_ in l])
    lines = [
        "(* GENERATED by translators/builder_tables.py from Command::{_check_help_and_version, _build_self} (clap_builder/src/builder/command.rs),",
        "   util/id.rs, range.rs, mkeymap.rs, arg.rs, arg_settings.rs and the two spec readers of this framework -- do not edit. *)",
        "From Coq Require Import List String NArith.",
        "Import ListNotations.",
        "Open Scope string_scope.",
        "",
        "(* the generated arguments: (id, short, long, action); pushed in this order, each behind its guard *)",
        "Definition gen_help_arg : string * string * string * string := " + row(m.group("hid"), m.group("hshort"), m.group("hlong"), m.group("haction")) + ".",
        "Definition gen_version_arg : string * string * string * string := " + row(m.group("vid"), m.group("vshort"), m.group("vlong"), m.group("vaction")) + ".",
        "(* guards `if !self.<getter>()`: (getter, the AppSettings variant it reads through is_set, `|| (version.is_none() && long_version.is_none())`) *)",
        "Definition gen_help_guard : string * string * bool := (%s, %s, %s)." % (cstr(guards[0][0]), cstr(guards[0][1]), "true" if guards[0][2] else "false"),
        "Definition gen_version_guard : string * string * bool := (%s, %s, %s)." % (cstr(guards[1][0]), cstr(guards[1][1]), "true" if guards[1][2] else "false"),
        "(* the `help` subcommand (non-expanded form): guard `!self.is_set(AppSettings::<V>)`, name, about, its argument (id, action);",
        "   the argument has num_args(..) = ValueRange::FULL and one value name *)",
        "Definition gen_help_sub_guard : string := %s." % cstr(m.group("sguard")),
        "Definition gen_help_sub_name : string := %s." % cstr(m.group("sname")),
        "Definition gen_help_sub_about : string := %s." % cstr(m.group("about")),
        "Definition gen_help_sub_arg : string * string := (%s, %s)." % (cstr(m.group("said")), cstr(m.group("saction"))),
        "",
        "(** mkeymap.rs append_keys: an argument with an index gets the one key Position(index); otherwise, in this order,",
        "    (field of Arg, KeyType constructor, \"one\" = `if let Some(x) = arg.<field>` / \"each\" = `for (x, _) in arg.<field>.iter()`);",
        "    MKeyMap::_build appends per argument in argument order, MKeyMap::get returns the argument of the FIRST equal key *)",
        "Definition gen_key_sources : list (string * string * string) := "
        + clist(["(%s, %s, %s)" % (cstr(f), cstr(k), cstr(q)) for f, k, q in key_sources]) + ".",
        "",
        "(** arg.rs: every `fn x(self, yes: bool) -> Self { if yes { self.setting(ArgSettings::V) } else { self.unset_setting(ArgSettings::V) } }`",
        "    as (x, V), every `fn g(&self) -> bool { self.is_set(ArgSettings::V) }` as (g, V) *)",
        "Definition gen_arg_setters : list (string * string) := " + pairs(arg_setters) + ".",
        "Definition gen_arg_getters : list (string * string) := " + pairs(arg_getters) + ".",
        "(** the `(flags ...)` item of an argument spec: ocaml/common_parse/spec.ml (flag name, field of Cmd.arg set to true) and",
        "    harness/src/modes/parse.rs (flag name, Arg method called with `true`) *)",
        "Definition gen_spec_arg_flags : list (string * string) := " + pairs(spec_flags) + ".",
        "Definition gen_harness_arg_flags : list (string * string) := " + pairs(harness_flags) + ".",
        "",
        "(** Command::_build_self (when not yet Built): the steps in source order; the loop over the arguments in source order;",
        "    the first positional index handed out; `highest_idx` when there is no positional;",
        "    the deprecated command-level settings: (AppSettings variant read on the command, condition on the argument, ArgSettings variant set) *)",
        "Definition gen_build_self_steps : list string := [" + "; ".join(cstr(x) for x in steps) + "].",
        "Definition gen_args_loop_steps : list string := [" + "; ".join(cstr(x) for x in loop_steps) + "].",
        "Definition gen_pos_counter_start : N := %s%%N." % bm2.group("pos0"),
        "Definition gen_highest_idx_default : N := %s%%N." % bm2.group("hi0"),
        "Definition gen_deprecated_rules : list (string * string * string) := "
        + clist(["(%s, %s, %s)" % (cstr(a_), cstr(b_), cstr(c_)) for a_, b_, c_ in dep_rules]) + ".",
        "",
    ]
    return "BuildTables.v", "\n".join(lines)


# ------------------------------------------------------------------------------------------------ the configuration gate
def macro_calls(body, names):
    """[(macro, inner text)] for every `<macro>!( ... )` with balanced parentheses (string literals skipped)"""
    out = []
    for m in re.finditer(r"\b(%s)!\s*\(" % "|".join(names), body):
        j, depth, instr = m.end(), 1, False
        while depth:
            if j >= len(body):
                die("unbalanced macro call in debug_asserts.rs")
            c = body[j]
            if instr:
                if c == "\\":
                    j += 1
                elif c == '"':
                    instr = False
            elif c == '"':
                instr = True
            elif c == "(":
                depth += 1
            elif c == ")":
                depth -= 1
            j += 1
        out.append((m.group(1), body[m.end():j - 1]))
    return out


def gen_gate_sites(read):
    """builder/debug_asserts.rs: every assertion of the configuration gate, per function, in source order, identified by the
    first 60 characters of its message; the `checker!` tables of assert_arg_flags / assert_app_flags."""
    src = read("clap_builder/src/builder/debug_asserts.rs")
    # comments are stripped outside string literals only (messages contain `//`-free text, but be careful with "http://")
    code = re.sub(r'("(?:[^"\\]|\\.)*")|//[^\n]*', lambda m: m.group(1) or "", src, flags=re.S)
    sites = []
    for name, header, body in split_fns(code):
        if name in ("duplicate_tip", "find_duplicates"):
            continue
        for mac, inner in macro_calls(body, ["assert", "assert_eq", "assert_ne", "panic", "debug_assert", "unreachable", "todo", "unimplemented"]):
            lits = re.findall(r'"((?:[^"\\]|\\.)*)"', inner, re.S)
            if not lits:
                die("debug_asserts.rs %s: a %s! without a message literal: %s" % (name, mac, norm(inner)[:120]))
            msg = lits[0]
            if re.fullmatch(r"(?:Command \{\}: )?\{\}", msg) and len(lits) > 1:
                msg = lits[1]          # assert!(cond, "Command {}: {}", name, "<the actual text>")
            msg = norm(re.sub(r"\\\s*\n\s*", "", msg).replace("\\n", " ").replace("\\t", " "))
            sites.append((name, mac, msg[:60]))
    if not sites:
        die("no assertions found in debug_asserts.rs")

    def checker_rows(fn, kw):
        body = fn_body(code, r"fn\s+%s\s*\(\s*\w+\s*:\s*&\w+\s*\)" % fn, fn)
        rows = re.findall(r"checker!\(\s*(\w+)\s+%s\s+([\w\s|]+?)\s*\)\s*;" % kw, body)
        n_calls = len(re.findall(r"checker!\(", body))
        if not rows or len(rows) != n_calls:
            die("%s: cannot read the checker! table (%d rows read, %d calls)" % (fn, len(rows), n_calls))
        return [(a, [b.strip() for b in bs.split("|")]) for a, bs in rows]
    arg_rows = checker_rows("assert_arg_flags", "requires")
    app_rows = checker_rows("assert_app_flags", "conflicts")

    def sl(l):
        return "[" + "; ".join(cstr(x) for x in l) + "]"
    lines = [
        "(* GENERATED by translators/builder_tables.py from clap_builder/src/builder/debug_asserts.rs -- do not edit. *)",
        "From Coq Require Import List String.",
        "Import ListNotations.",
        "Open Scope string_scope.",
        "",
        "(* every assert!/assert_eq!/panic! of the configuration gate: (function, macro, first 60 characters of the message) *)",
        "Definition gen_gate_sites : list (string * string * string) := "
        + clist(["(%s, %s, %s)" % (cstr(f), cstr(m), cstr(t)) for f, m, t in sites]) + ".",
        "(* assert_arg_flags: `checker!(a requires b | ..)` *)",
        "Definition gen_arg_flag_requires : list (string * list string) := "
        + clist(["(%s, %s)" % (cstr(a), sl(bs)) for a, bs in arg_rows]) + ".",
        "(* assert_app_flags: `checker!(a conflicts b | ..)` *)",
        "Definition gen_app_flag_conflicts : list (string * list string) := "
        + clist(["(%s, %s)" % (cstr(a), sl(bs)) for a, bs in app_rows]) + ".",
        "",
    ]
    return "GateSites.v", "\n".join(lines)
