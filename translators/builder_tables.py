#!/usr/bin/env python3
"""Tables of clap's *builder* API, read off the sources under verification on every run.

gen_action_tables(read)   -> Gen/ActionTables.v
    clap_builder/src/builder/action.rs : enum ArgAction and every `match self` accessor
        (takes_values, max_num_args, default_num_args, default_value, default_missing_value,
         default_value_parser, value_type_id, type CountType)
    clap_builder/src/builder/range.rs  : the associated constants of ValueRange, `impl Default`,
        and the one-expression predicates (takes_values, is_unbounded, is_fixed, is_multiple,
        num_values, accepts_more, min_values, max_values) translated into a small expression AST
    clap_builder/src/builder/arg.rs    : Arg::_build (block structure and the constants it branches on),
        is_takes_value_set / is_multiple_values_set (the default they substitute)
gen_settings_tables(read) -> Gen/SettingsTables.v
    clap_builder/src/builder/app_settings.rs : enum AppSettings
    clap_builder/src/builder/command.rs      : setting / unset_setting / global_setting / unset_global_setting,
        every `pub fn x(self, yes: bool)` setter built on them, Command::is_set, _propagate_subcommand,
        the settings block of _build_self
    ocaml/common_parse/spec.ml (the model-side spec reader, part of THIS framework): `apply_setting`,
        i.e. which model field a setter name sets and whether in both records or only the local one

ParseProofs/TablesActions.v and ParseProofs/TablesSettings.v prove that the hand-written model
(Parse/Cmd.v, Parse/Build.v) agrees with these tables (C07_*_table*, C10_*settings*).

Every reader raises SystemExit with a message naming the construct when the source no longer has the shape it
understands: vp/core.py build_coq() then fails the proof gate ("translator failed"), and the check reports
VIOLATION ... no-failing-input-found (unless a stream finds a failing input).
"""
import os
import re

ROOT = os.path.dirname(os.path.dirname(os.path.abspath(__file__)))


def die(msg):
    raise SystemExit("builder_tables.py: " + msg)


def strip_comments(src):
    src = re.sub(r"/\*.*?\*/", "", src, flags=re.S)
    return re.sub(r"//[^\n]*", "", src)


def norm(s):
    return re.sub(r"\s+", " ", s).strip()


def block_at(src, open_idx, what):
    """src[open_idx] == '{' : return the text between it and the matching '}' (strings are not expected to hold braces
    in the functions read here; a mismatch is reported)."""
    if src[open_idx] != "{":
        die("internal: no '{' where the body of %s should start" % what)
    depth = 0
    for i in range(open_idx, len(src)):
        c = src[i]
        if c == "{":
            depth += 1
        elif c == "}":
            depth -= 1
            if depth == 0:
                return src[open_idx + 1:i]
    die("unbalanced braces in " + what)


def fn_body(src, header_re, what):
    """body of the unique fn whose header matches header_re (a regex ending just before the '{')"""
    ms = list(re.finditer(header_re + r"\s*\{", src))
    if len(ms) != 1:
        die("expected exactly one `%s`, found %d" % (what, len(ms)))
    return block_at(src, ms[0].end() - 1, what)


def cstr(s):
    return '"' + s.replace('"', '""') + '"'


def copt(o):
    return "None" if o is None else "Some " + cstr(o)


def clist(items, indent="  "):
    if not items:
        return "[]"
    return "[\n" + ";\n".join(indent + it for it in items) + "\n]"


def enum_variants(src, header_re, what):
    m = re.search(header_re + r"\s*\{", src)
    if not m:
        die("cannot find " + what)
    body = block_at(src, m.end() - 1, what)
    body = re.sub(r"#\[[^\]]*\]", "", body)
    vs = [v.strip() for v in body.split(",") if v.strip()]
    for v in vs:
        if not re.fullmatch(r"[A-Z][A-Za-z0-9]*", v):
            die("%s: variant with an unexpected shape: %r" % (what, v))
    if not vs or len(set(vs)) != len(vs):
        die("%s: empty or duplicate variant list" % what)
    return vs


# ------------------------------------------------------------------------------------------------ ArgAction
def action_match(src, fn, ret_re, variants, value):
    """arms of `fn <fn>(&self) -> <ret> { match self { Self::V => <expr>, ... } }` as a list aligned with
    `variants`; `value(expr)` translates one right-hand side (and dies on an unknown one)."""
    what = "ArgAction::" + fn
    body = norm(fn_body(src, r"fn\s+%s\s*\(\s*&self\s*\)\s*->\s*%s" % (fn, ret_re), what))
    m = re.fullmatch(r"match self \{ (.*) \}", body)
    if not m:
        die("%s is no longer a single `match self`: %s" % (what, body))
    arms = {}
    for arm in [a.strip() for a in re.split(r",(?![^()]*\))", m.group(1)) if a.strip()]:
        am = re.fullmatch(r"Self::(\w+) => (.+)", arm)
        if not am:
            die("%s: match arm with an unexpected shape (or-patterns and `_` arms are not read): %r" % (what, arm))
        if am.group(1) in arms:
            die("%s: two arms for %s" % (what, am.group(1)))
        if am.group(1) not in variants:
            die("%s: arm for an unknown variant %s" % (what, am.group(1)))
        arms[am.group(1)] = value(am.group(2).strip(), what)
    missing = [v for v in variants if v not in arms]
    if missing:
        die("%s: no arm for %s" % (what, ", ".join(missing)))
    return [arms[v] for v in variants]


def v_bool(e, what):
    if e not in ("true", "false"):
        die("%s: expected a bool literal, got %r" % (what, e))
    return e


def v_range(consts):
    def f(e, what):
        m = re.fullmatch(r"ValueRange::([A-Z_]+)", e)
        if not m or m.group(1) not in consts:
            die("%s: expected ValueRange::<constant of range.rs>, got %r" % (what, e))
        return m.group(1)
    return f


def v_osstr(e, what):
    if e == "None":
        return None
    m = re.fullmatch(r'Some\(std::ffi::OsStr::new\("([^"\\]*)"\)\)', e)
    if not m:
        die("%s: expected None or Some(std::ffi::OsStr::new(\"..\")), got %r" % (what, e))
    return m.group(1)


def v_parser(e, what):
    if e == "None":
        return None
    if e == "Some(super::ValueParser::bool())":
        return "bool"
    m = re.fullmatch(r"Some\(crate::value_parser!\((\w+)\)\.into\(\)\)", e)
    if m:
        return m.group(1)
    die("%s: unknown default value parser expression %r" % (what, e))


def v_typeid(aliases):
    def f(e, what):
        if e == "None":
            return None
        m = re.fullmatch(r"Some\(AnyValueId::of::<(\w+)>\(\)\)", e)
        if not m:
            die("%s: expected None or Some(AnyValueId::of::<T>()), got %r" % (what, e))
        return aliases.get(m.group(1), m.group(1))
    return f


# ------------------------------------------------------------------------------------------------ ValueRange
def range_consts(src):
    """`pub const NAME: Self = Self { start_inclusive: a, end_inclusive: b };` inside `impl ValueRange`"""
    out = []
    for m in re.finditer(r"((?:#\[[^\]]*\]\s*)*)pub(?:\([a-z]+\))?\s+const\s+([A-Z_]+)\s*:\s*Self\s*=\s*Self\s*\{(.*?)\}\s*;", src, re.S):
        body = norm(m.group(3))
        bm = re.fullmatch(r"start_inclusive: (\w+(?:::\w+)?), end_inclusive: (\w+(?:::\w+)?),?", body)
        if not bm:
            die("ValueRange::%s: unexpected initialiser %r" % (m.group(2), body))
        out.append((m.group(2), bound(bm.group(1), "ValueRange::" + m.group(2)),
                    bound(bm.group(2), "ValueRange::" + m.group(2)), "debug_assertions" in m.group(1)))
    if not out:
        die("no associated constants found in `impl ValueRange`")
    return out


def bound(e, what):
    if re.fullmatch(r"\d+", e):
        return "(GLit %s)" % e
    if e == "usize::MAX":
        return "GUsizeMax"
    die("%s: cannot read the bound %r" % (what, e))


def range_expr(e, what):
    """translate a one-expression body over self.start_inclusive / self.end_inclusive / current"""
    e = e.strip()
    parts = e.split("||")
    if len(parts) > 1:
        r = range_expr(parts[-1], what)
        for p in reversed(parts[:-1]):
            r = "(GOr %s %s)" % (range_expr(p, what), r)
        return r
    for op, ctor in (("==", "GEq"), ("!=", "GNe"), ("<", "GLt")):
        if op in e:
            l, r = e.split(op, 1)
            return "(%s %s %s)" % (ctor, range_term(l, what), range_term(r, what))
    die("%s: cannot read the boolean expression %r" % (what, e))


def range_term(t, what):
    t = t.strip()
    if t == "self.start_inclusive":
        return "GStart"
    if t == "self.end_inclusive":
        return "GEnd"
    if t == "current":
        return "GCurrent"
    if re.fullmatch(r"\d+", t):
        return "(GNum %s)" % t
    if t == "usize::MAX":
        return "GMax"
    die("%s: cannot read the operand %r" % (what, t))


RANGE_BOOL_FNS = [("takes_values", r"&self"), ("is_unbounded", r"&self"), ("is_fixed", r"&self"),
                  ("is_multiple", r"&self"), ("accepts_more", r"&self\s*,\s*current\s*:\s*usize")]


def gen_action_tables(read):
    asrc = strip_comments(read("clap_builder/src/builder/action.rs"))
    rsrc = strip_comments(read("clap_builder/src/builder/range.rs"))
    gsrc = strip_comments(read("clap_builder/src/builder/arg.rs"))

    # ---- range.rs
    consts = range_consts(rsrc)
    cnames = [c[0] for c in consts]
    dm = re.search(r"impl\s+Default\s+for\s+ValueRange\s*\{\s*fn\s+default\s*\(\s*\)\s*->\s*Self\s*\{\s*Self::([A-Z_]+)\s*\}\s*\}", rsrc)
    if not dm or dm.group(1) not in cnames:
        die("`impl Default for ValueRange` no longer returns one of the associated constants")
    preds = []
    for fn, params in RANGE_BOOL_FNS:
        what = "ValueRange::" + fn
        b = norm(fn_body(rsrc, r"fn\s+%s\s*\(\s*%s\s*\)\s*->\s*bool" % (fn, params), what))
        preds.append((fn, range_expr(b, what)))
    for fn, fld in (("min_values", "GStart"), ("max_values", "GEnd")):
        b = norm(fn_body(rsrc, r"fn\s+%s\s*\(\s*&self\s*\)\s*->\s*usize" % fn, "ValueRange::" + fn))
        if range_term(b, "ValueRange::" + fn) != fld:
            die("ValueRange::%s no longer returns %s: %s" % (fn, fld, b))
    b = norm(fn_body(rsrc, r"fn\s+num_values\s*\(\s*&self\s*\)\s*->\s*Option<usize>", "ValueRange::num_values"))
    nm = re.fullmatch(r"self\.(\w+)\(\)\.then_some\((self\.\w+)\)", b)
    if not nm or nm.group(1) not in [p[0] for p in preds]:
        die("ValueRange::num_values no longer has the shape `self.<pred>().then_some(self.<field>)`: " + b)
    num_values = (nm.group(1), range_term(nm.group(2), "ValueRange::num_values"))

    # ---- action.rs
    variants = enum_variants(asrc, r"pub\s+enum\s+ArgAction", "enum ArgAction")
    aliases = dict(re.findall(r"pub(?:\([a-z]+\))?\s+type\s+(\w+)\s*=\s*(\w+)\s*;", asrc))
    cols = [
        action_match(asrc, "takes_values", "bool", variants, v_bool),
        action_match(asrc, "max_num_args", "ValueRange", variants, v_range(cnames)),
        action_match(asrc, "default_num_args", "ValueRange", variants, v_range(cnames)),
        action_match(asrc, "default_value", r"Option<&'static\s+std::ffi::OsStr>", variants, v_osstr),
        action_match(asrc, "default_missing_value", r"Option<&'static\s+std::ffi::OsStr>", variants, v_osstr),
        action_match(asrc, "default_value_parser", r"Option<super::ValueParser>", variants, v_parser),
        action_match(asrc, "value_type_id", r"Option<AnyValueId>", variants, v_typeid(aliases)),
    ]
    rows = []
    for i, v in enumerate(variants):
        tv, mx, dn, dv, dmv, vp, ty = [c[i] for c in cols]
        rows.append("{| ga_name := %s; ga_takes_values := %s; ga_max_num_args := %s; ga_default_num_args := %s;\n"
                    "     ga_default_value := %s; ga_default_missing_value := %s; ga_default_value_parser := %s; ga_value_type_id := %s |}"
                    % (cstr(v), tv, cstr(mx), cstr(dn), copt(dv), copt(dmv), copt(vp), copt(ty)))

    # ---- arg.rs: Arg::_build
    b = norm(fn_body(gsrc, r"pub\(crate\)\s+fn\s+_build\s*\(\s*&mut\s+self\s*\)", "Arg::_build"))
    shape = (
        r"if self\.action\.is_none\(\) \{ "
        r"if self\.num_vals == Some\(ValueRange::(?P<flag_range>[A-Z_]+)\) \{ let action = ArgAction::(?P<flag_action>\w+); self\.action = Some\(action\); \} "
        r"else \{ let action = if self\.is_positional\(\) && self\.num_vals\.unwrap_or_default\(\)\.is_unbounded\(\) \{ ArgAction::(?P<pos_action>\w+) \} "
        r"else \{ ArgAction::(?P<else_action>\w+) \}; self\.action = Some\(action\); \} \} "
        r"if let Some\(action\) = self\.action\.as_ref\(\) \{ "
        r"if let Some\(default_value\) = action\.default_value\(\) \{ if self\.default_vals\.is_empty\(\) \{ self\.default_vals = vec!\[default_value\.into\(\)\]; \} \} "
        r"if let Some\(default_value\) = action\.default_missing_value\(\) \{ if self\.default_missing_vals\.is_empty\(\) \{ self\.default_missing_vals = vec!\[default_value\.into\(\)\]; \} \} \} "
        r"if self\.value_parser\.is_none\(\) \{ if let Some\(default\) = self\.action\.as_ref\(\)\.and_then\(\|a\| a\.default_value_parser\(\)\) \{ self\.value_parser = Some\(default\); \} "
        r"else \{ self\.value_parser = Some\(super::ValueParser::(?P<fallback>\w+)\(\)\); \} \} "
        r"let val_names_len = self\.val_names\.len\(\); "
        r"if val_names_len > (?P<names_gt>\d+) \{ self\.num_vals\.get_or_insert\(val_names_len\.into\(\)\); \} "
        r"else \{ let nargs = self\.get_action\(\)\.default_num_args\(\); self\.num_vals\.get_or_insert\(nargs\); \}")
    bm = re.fullmatch(shape, b)
    if not bm:
        die("Arg::_build no longer has the block structure the model transcribes (Parse/Build.v ab_action, ab_default, "
            "ab_dmissing, ab_vp, ab_num): " + b)
    for k in ("flag_action", "pos_action", "else_action"):
        if bm.group(k) not in variants:
            die("Arg::_build names an unknown action " + bm.group(k))
    if bm.group("flag_range") not in cnames:
        die("Arg::_build names an unknown ValueRange constant " + bm.group("flag_range"))
    # `impl From<usize> for ValueRange`: (n..=n)
    fm = re.search(r"impl\s+From<usize>\s+for\s+ValueRange\s*\{\s*fn\s+from\s*\(\s*fixed\s*:\s*usize\s*\)\s*->\s*Self\s*\{\s*\(fixed\.\.=fixed\)\.into\(\)\s*\}\s*\}", rsrc)
    if not fm:
        die("`impl From<usize> for ValueRange` no longer is `(fixed..=fixed).into()`")
    # get_action(): self.action.as_ref().unwrap_or(&ArgAction::Set)
    ga = norm(fn_body(gsrc, r"pub\s+fn\s+get_action\s*\(\s*&self\s*\)\s*->\s*&ArgAction", "Arg::get_action"))
    gm = re.fullmatch(r"const DEFAULT: ArgAction = ArgAction::(\w+); self\.action\.as_ref\(\)\.unwrap_or\(&DEFAULT\)", ga)
    if not gm or gm.group(1) not in variants:
        die("Arg::get_action no longer has the shape `const DEFAULT: ArgAction = ArgAction::X; self.action.as_ref().unwrap_or(&DEFAULT)`: " + ga)
    tk = norm(fn_body(gsrc, r"pub\(crate\)\s+fn\s+is_takes_value_set\s*\(\s*&self\s*\)\s*->\s*bool", "Arg::is_takes_value_set"))
    tm = re.fullmatch(r"self\.get_num_args\(\) \.unwrap_or_else\(\|\| (\d+)\.into\(\)\) \.takes_values\(\)", tk)
    if not tm:
        die("Arg::is_takes_value_set no longer has the shape `self.get_num_args().unwrap_or_else(|| N.into()).takes_values()`: " + tk)
    mv = norm(fn_body(gsrc, r"pub\(crate\)\s+fn\s+is_multiple_values_set\s*\(\s*&self\s*\)\s*->\s*bool", "Arg::is_multiple_values_set"))
    if mv != "self.get_num_args().unwrap_or_default().is_multiple()":
        die("Arg::is_multiple_values_set no longer is `self.get_num_args().unwrap_or_default().is_multiple()`: " + mv)

    lines = [
        "(* GENERATED by translators/builder_tables.py from clap_builder/src/builder/{action,range,arg}.rs -- do not edit. *)",
        "From Coq Require Import List NArith String.",
        "Import ListNotations.",
        "Open Scope N_scope.",
        "Open Scope string_scope.",
        "",
        "(** ---- range.rs ---- *)",
        "Inductive gbound := GLit (n : N) | GUsizeMax.",
        "(* associated constants of ValueRange: (name, start_inclusive, end_inclusive, only under cfg(debug_assertions)) *)",
        "Definition gen_range_consts : list (string * gbound * gbound * bool) := "
        + clist(["(%s, %s, %s, %s)" % (cstr(n), lo, hi, "true" if dbg else "false") for n, lo, hi, dbg in consts]) + ".",
        "(* impl Default for ValueRange *)",
        "Definition gen_range_default : string := %s." % cstr(dm.group(1)),
        "(* the one-expression predicates of ValueRange, as expressions over the two fields *)",
        "Inductive gterm := GStart | GEnd | GCurrent | GNum (n : N) | GMax.",
        "Inductive gbexpr := GEq (a b : gterm) | GNe (a b : gterm) | GLt (a b : gterm) | GOr (a b : gbexpr).",
        "Definition gen_range_preds : list (string * gbexpr) := "
        + clist(["(%s, %s)" % (cstr(fn), e) for fn, e in preds]) + ".",
        "(* num_values = self.<pred>().then_some(<field>) *)",
        "Definition gen_range_num_values : string * gterm := (%s, %s)." % (cstr(num_values[0]), num_values[1]),
        "",
        "(** ---- action.rs ---- *)",
        "Record gaction_row := {",
        "  ga_name : string; ga_takes_values : bool; ga_max_num_args : string; ga_default_num_args : string;",
        "  ga_default_value : option string; ga_default_missing_value : option string;",
        "  ga_default_value_parser : option string; ga_value_type_id : option string }.",
        "(* one row per variant of `enum ArgAction`, in declaration order; ranges by constant name; the value parser is",
        "   \"bool\" (ValueParser::bool()) or the T of value_parser!(T); the type id is the T of AnyValueId::of::<T>()",
        "   with type aliases of action.rs resolved *)",
        "Definition gen_action_rows : list gaction_row := " + clist(rows) + ".",
        "",
        "(** ---- arg.rs: Arg::_build, Arg::get_action, is_takes_value_set ---- *)",
        "(* if self.action.is_none(): num_vals == Some(ValueRange::<r>) => <a1>; positional && unbounded => <a2>; else <a3> *)",
        "Definition gen_build_flag_range : string := %s." % cstr(bm.group("flag_range")),
        "Definition gen_build_flag_action : string := %s." % cstr(bm.group("flag_action")),
        "Definition gen_build_unbounded_positional_action : string := %s." % cstr(bm.group("pos_action")),
        "Definition gen_build_other_action : string := %s." % cstr(bm.group("else_action")),
        "(* value_parser: the action's default_value_parser(), else ValueParser::<this>() *)",
        "Definition gen_build_fallback_parser : string := %s." % cstr(bm.group("fallback")),
        "(* num_vals: val_names.len() > <this> => that many; else the action's default_num_args() *)",
        "Definition gen_build_val_names_more_than : N := %s." % bm.group("names_gt"),
        "(* Arg::get_action: unwrap_or(&ArgAction::<this>) *)",
        "Definition gen_get_action_default : string := %s." % cstr(gm.group(1)),
        "(* Arg::is_takes_value_set: get_num_args().unwrap_or_else(|| <this>.into()).takes_values() *)",
        "Definition gen_takes_value_default_fixed : N := %s." % tm.group(1),
        "",
    ]
    return "ActionTables.v", "\n".join(lines)
