"""C01: the panic sites of clap's parse path, read off the Rust sources on every run.

Output: coq/theories/Gen/ParseSites.v, `parse_sites : list (string * string * string * N)` =
(file, enclosing fn, kind, ordinal of that kind within that fn), in source order per file.  No line
numbers: an edit elsewhere in the file does not disturb the table; a new `unwrap()` in a function on
the parse path adds a row and `C01_sites_match` (ParseProofs/Sites.v) no longer holds until the row
is accounted for in the model-side table.

Scope (files):
  parser/parser.rs, parser/arg_matcher.rs, parser/matches/matched_arg.rs, parser/validator.rs : every fn;
  builder/command.rs : the fns the parser can reach, computed here: roots = the entry points
    (`try_get_matches_from`, `try_get_matches_from_mut`, `_do_parse`, the `Index<&Id>` impl) + every
    method name that occurs as `.name(` / `::name(` in the four parser files and is a fn defined in
    command.rs; closed under "a fn of command.rs whose name occurs as `.name(`/`::name(`/`name(` in the body of a
    fn already in the set".  Name-based, hence an over-approximation (an iterator's `.find(` also selects
    `Command::find`): a superset of the call graph, never a subset.
  Code inside `#[cfg(test)] mod … { }` is dropped.

Syntactic shapes counted (after comments, string and char literals have been blanked):
  unwrap        `.unwrap()`              (not unwrap_or / unwrap_or_else / unwrap_or_default: total)
  expect        `.expect(`
  unreachable!  panic!  todo!  unimplemented!
  assert!  assert_eq!  assert_ne!  debug_assert!  debug_assert_eq!  debug_assert_ne!
                (debug builds are the reference configuration: the validity gate only exists there)
  index         `e[...]` where `[` directly follows an identifier character, `)`, `]` or `?`
                (Index/IndexMut/slicing).  Not counted: `#[...]` attributes, `name![...]` macro brackets, array
                types/literals (`[` after whitespace, `(`, `&`, `=`, `:`, `,`, `<`).
  sub           binary ` - ` and `-=` (usize underflow panics in a debug build)
  assert_app    a call `assert_app(` of the configuration gate itself (builder/debug_asserts.rs; panics by design on
                a definition it rejects -- `_build_self` runs it on every lazily built subcommand)
Not counted, on purpose: `+`/`*` overflow (would need 2^64 increments of a counter), `as` casts (never panic),
allocation failure, stack overflow, panics inside callees outside these files (std, clap_lex, value parsers,
the help/usage renderer — C12 owns that), `?`/`return Err` (structured errors, not panics).
"""
import re

FILES = ["clap_builder/src/parser/parser.rs", "clap_builder/src/parser/arg_matcher.rs",
         "clap_builder/src/parser/matches/matched_arg.rs", "clap_builder/src/parser/validator.rs"]
# round 5: files reached while an error is CONSTRUCTED (the usage string of every error: Usage::create_usage_with_title; the
# help text of a DisplayHelp error: HelpTemplate, StyledStr::wrap).  Their panic sites are modelled by C12 (Help/UsageModel.v,
# HelpModel.v), not by the parser model; C01 only pins the list (C01_render_path_sites) so that a new site there is noticed.
RENDER_FILES = ["clap_builder/src/output/usage.rs", "clap_builder/src/output/help_template.rs",
                "clap_builder/src/builder/styled_str.rs"]
COMMAND = "clap_builder/src/builder/command.rs"
COMMAND_ROOTS = ["try_get_matches_from", "try_get_matches_from_mut", "_do_parse", "index"]

MACROS = ["unreachable", "panic", "todo", "unimplemented", "assert", "assert_eq", "assert_ne",
          "debug_assert", "debug_assert_eq", "debug_assert_ne"]


def blank(src):
    """Replace comments, string literals and char literals by spaces (newlines kept, offsets kept)."""
    out = list(src)
    i, n = 0, len(src)

    def wipe(a, b):
        for k in range(a, b):
            if out[k] != "\n":
                out[k] = " "

    while i < n:
        ch = src[i]
        if src.startswith("//", i):
            j = src.find("\n", i)
            j = n if j < 0 else j
            wipe(i, j)
            i = j
        elif src.startswith("/*", i):
            depth, j = 1, i + 2
            while j < n and depth:
                if src.startswith("/*", j):
                    depth += 1
                    j += 2
                elif src.startswith("*/", j):
                    depth -= 1
                    j += 2
                else:
                    j += 1
            wipe(i, j)
            i = j
        elif ch == '"' or (ch in "br" and re.match(r'b?r#*"|b"', src[i:i + 8]) and (i == 0 or not (src[i - 1].isalnum() or src[i - 1] == "_"))):
            m = re.match(r'(b?)(r(#*))?"', src[i:])
            if m.group(2) is not None:
                close = '"' + m.group(3)
                j = src.find(close, i + m.end())
                if j < 0:
                    raise SystemExit("parse_sites.py: unterminated raw string")
                j += len(close)
            else:
                j = i + m.end()
                while j < n and src[j] != '"':
                    j += 2 if src[j] == "\\" else 1
                j += 1
            wipe(i + m.end(), j - 1 if m.group(2) is None else j - len(m.group(3)) - 1)
            i = j
        elif ch == "'":
            m = re.match(r"'(\\x[0-9a-fA-F]{2}|\\u\{[0-9a-fA-F_]+\}|\\.|[^\\'])'", src[i:])
            if m:
                wipe(i + 1, i + m.end() - 1)
                i += m.end()
            else:
                i += 1                      # a lifetime
        else:
            i += 1
    return "".join(out)


def match_brace(code, i):
    """code[i] == '{' -> index just after its matching '}'"""
    depth = 0
    for j in range(i, len(code)):
        if code[j] == "{":
            depth += 1
        elif code[j] == "}":
            depth -= 1
            if depth == 0:
                return j + 1
    raise SystemExit("parse_sites.py: unbalanced braces")


def drop_test_mods(code):
    out = code
    for m in list(re.finditer(r"#\[cfg\(test\)\]\s*(?:pub\s+)?mod\s+\w+\s*\{", code)):
        a = m.end() - 1
        b = match_brace(code, a)
        out = out[:m.start()] + re.sub(r"[^\n]", " ", code[m.start():b]) + out[b:]
    return out


def body_start(code, i):
    """first `{` or `;` at paren/bracket/angle-free depth 0 after position i (a fn/impl header)"""
    depth = 0
    for j in range(i, len(code)):
        c = code[j]
        if c in "([":
            depth += 1
        elif c in ")]":
            depth -= 1
        elif depth == 0 and c in "{;":
            return j
    raise SystemExit("parse_sites.py: header without body")


def impl_type(header):
    """`impl<'a> Trait<X> for path::Type<'a> where …` -> Type"""
    h = re.sub(r"^impl\s*", "", header.strip())
    if h.startswith("<"):                  # generics of the impl
        depth = 0
        for j, c in enumerate(h):
            if c == "<":
                depth += 1
            elif c == ">":
                depth -= 1
                if depth == 0:
                    h = h[j + 1:]
                    break
    h = re.split(r"\bwhere\b", h)[0]
    parts = re.split(r"\bfor\b", h)
    t = parts[-1].strip()
    t = re.sub(r"^[&\s]*(?:'\w+\s+)?(?:mut\s+)?", "", t)
    m = re.match(r"((?:\w+::)*)(\w+)", t)
    if not m:
        raise SystemExit("parse_sites.py: cannot read impl header: " + header)
    return m.group(2)


def functions(code):
    """[(qualified name, bare name, body start, body end)] for every fn with a body, in source order."""
    impls = []
    for m in re.finditer(r"(?m)^[ \t]*(?:unsafe\s+)?impl\b", code):
        b = body_start(code, m.end())
        if code[b] != "{":
            continue
        impls.append((b, match_brace(code, b), impl_type(code[m.start():b].strip())))
    fns = []
    for m in re.finditer(r"\bfn\s+(\w+)", code):
        b = body_start(code, m.end())
        if code[b] != "{":
            continue                        # a declaration in a trait
        e = match_brace(code, b)
        owner = [t for (a, z, t) in impls if a < m.start() < z]
        q = (owner[-1] + "::" if owner else "") + m.group(1)
        fns.append((q, m.group(1), b, e))
    return fns


SITE_RE = re.compile(
    r"(?P<unwrap>\.\s*unwrap\s*\(\s*\))"
    r"|(?P<expect>\.\s*expect\s*\()"
    r"|(?<![\w!])(?P<macro>" + "|".join(sorted(MACROS, key=len, reverse=True)) + r")!"
    r"|(?P<index>(?<=[\w)\]?])\[)"
    r"|(?P<sub>(?<=\s)-=?(?=\s))"
    r"|(?<![\w.:])(?P<gate>assert_app)\s*\(")


def sites_of(code, fns):
    """[(fn qualified name, kind, ordinal)] in source order; a site belongs to the innermost fn containing it."""
    rows, counts = [], {}
    for m in SITE_RE.finditer(code):
        pos = m.start()
        if m.lastgroup == "index":
            # `name![` is a macro bracket; `#[`/`#![` never match (no word char before `[`)
            if code[pos - 1] == "!":
                continue
        inside = [f for f in fns if f[2] <= pos < f[3]]
        if not inside:
            if m.lastgroup in ("index", "sub"):
                continue                    # e.g. a const array type outside any fn
            owner = "<top>"
        else:
            owner = max(inside, key=lambda f: f[2])[0]
        kind = {"unwrap": "unwrap", "expect": "expect", "index": "index", "sub": "sub", "gate": "assert_app"}.get(m.lastgroup) or (m.group("macro") + "!")
        k = counts.get((owner, kind), 0)
        counts[(owner, kind)] = k + 1
        rows.append((owner, kind, k))
    return rows


def reachable_command_fns(parser_codes, ccode, cfns):
    names = {}
    for q, bare, b, e in cfns:
        names.setdefault(bare, []).append((q, b, e))
    called = set()
    for code in parser_codes:
        for m in re.finditer(r"(?:\.|::)\s*(\w+)\s*(?:::<[^>]*>)?\s*\(", code):
            if m.group(1) in names:
                called.add(m.group(1))
    for r in COMMAND_ROOTS:
        if r not in names:
            raise SystemExit("parse_sites.py: builder/command.rs no longer defines fn %s" % r)
        called.add(r)
    work = list(called)
    while work:
        f = work.pop()
        for q, b, e in names[f]:
            for m in re.finditer(r"(?<![\w!])(\w+)\s*(?:::<[^>]*>)?\s*\(", ccode[b:e]):
                g = m.group(1)
                if g in names and g not in called:
                    called.add(g)
                    work.append(g)
    return called


def collect(read):
    rows = []
    parser_codes = []
    for rel in FILES:
        code = drop_test_mods(blank(read(rel)))
        parser_codes.append(code)
        fns = functions(code)
        if not fns:
            raise SystemExit("parse_sites.py: no functions found in " + rel)
        short = rel.replace("clap_builder/src/", "")
        rows += [(short, f, k, n) for (f, k, n) in sites_of(code, fns)]
    ccode = drop_test_mods(blank(read(COMMAND)))
    cfns = functions(ccode)
    reach = reachable_command_fns(parser_codes, ccode, cfns)
    keep = [f for f in cfns if f[1] in reach]
    short = COMMAND.replace("clap_builder/src/", "")
    for (f, k, n) in sites_of(ccode, cfns):
        if any(f == q for (q, _, _, _) in keep):
            rows.append((short, f, k, n))
    return rows, sorted(reach)


def collect_render(read):
    rows = []
    for rel in RENDER_FILES:
        code = drop_test_mods(blank(read(rel)))
        fns = functions(code)
        if not fns:
            raise SystemExit("parse_sites.py: no functions found in " + rel)
        short = rel.replace("clap_builder/src/", "")
        rows += [(short, f, k, n) for (f, k, n) in sites_of(code, fns)]
    return rows


def gen_parse_sites(read):
    rows, reach = collect(read)
    rrows = collect_render(read)
    if len(rows) < 20:
        raise SystemExit("parse_sites.py: implausibly few panic sites found (%d): the source shapes changed" % len(rows))
    lines = [
        "(* GENERATED by translators/parse_sites.py from clap_builder/src/parser/{parser,arg_matcher,validator}.rs,",
        "   parser/matches/matched_arg.rs and the parse-reachable functions of builder/command.rs -- do not edit *)",
        "From Coq Require Import List NArith String.",
        "Import ListNotations.",
        "Open Scope N_scope.",
        "Open Scope string_scope.",
        "(** (file, enclosing fn, kind, ordinal of that kind within that fn); the counted shapes are listed in",
        "    translators/parse_sites.py *)",
        "Definition parse_sites : list (string * string * string * N) := [",
        ";\n".join('  ("%s", "%s", "%s", %d)' % r for r in rows),
        "].",
        "(** the same shapes in the files reached while an error is constructed (usage string, help text): C12's models *)",
        "Definition render_path_sites : list (string * string * string * N) := [",
        ";\n".join('  ("%s", "%s", "%s", %d)' % r for r in rrows),
        "].",
        "(** functions of builder/command.rs taken to be reachable from the parser (name-based over-approximation) *)",
        "Definition command_fns_on_parse_path : list string := [",
        ";\n".join('  "%s"' % r for r in reach),
        "].",
        "",
    ]
    return "ParseSites.v", "\n".join(lines)


# ---------------------------------------------------------------------------------------------------------------
# C01 (2): what the error constructors attach, what ErrorKind::as_str returns -- for Errors/RenderModel.v
def gen_error_ctx(read):
    """Gen/ErrorCtx.v:
      gen_kind_has_msg : (ErrorKind variant, as_str is Some)              from error/kind.rs `fn as_str`
      gen_ctor_ctx     : (constructor fn, ErrorKind it creates, has a message (for_app), ContextKinds attached by the
                          unconditional `extend_context_unchecked([...])` in order, ContextKinds attached by conditional
                          `insert_context_unchecked(...)` calls in order)  from error/mod.rs
      gen_context_kinds: the variants of enum ContextKind in order          from error/context.rs
      gen_format_unwraps: number of unwrap()/expect( in error/format.rs per fn (RenderModel has one visible site)"""
    kind_rs = blank_keep_strings(read("clap_builder/src/error/kind.rs"))
    m = re.search(r"pub fn as_str\(self\)\s*->\s*Option<&'static str>\s*\{\s*match self \{(.*?)\n        \}\n", kind_rs, re.S)
    if not m:
        raise SystemExit("parse_sites.py: ErrorKind::as_str not found / changed shape")
    has_msg = []
    for arm in re.finditer(r"Self::(\w+)\s*=>\s*(\{?\s*)(Some\(|None)", m.group(1)):
        has_msg.append((arm.group(1), arm.group(3) != "None"))
    if len(has_msg) < 10:
        raise SystemExit("parse_sites.py: too few arms in ErrorKind::as_str")
    ctx_rs = blank_keep_strings(read("clap_builder/src/error/context.rs"))
    m = re.search(r"pub enum ContextKind \{(.*?)\n\}", ctx_rs, re.S)
    if not m:
        raise SystemExit("parse_sites.py: enum ContextKind not found")
    ckinds = re.findall(r"^\s*(\w+),\s*$", m.group(1), re.M)
    mod_rs = blank_keep_strings(read("clap_builder/src/error/mod.rs"))
    fns = functions(mod_rs)
    helpers = {"display_help": "DisplayHelp", "display_help_error": "DisplayHelpOnMissingArgumentOrSubcommand",
               "display_version": "DisplayVersion"}
    ctors = []
    for q, bare, b, e in fns:
        body = mod_rs[b:e]
        if not q.startswith("Error::"):
            continue
        mk = re.search(r"Self::new\(ErrorKind::(\w+)\)", body)
        fa = re.search(r"Self::for_app\(\s*ErrorKind::(\w+)", body)
        deleg = re.search(r"^\s*\{\s*Self::(\w+)\(cmd,", body)
        if bare in ("new", "raw", "for_app", "format", "with_cmd", "apply"):
            continue
        if fa:
            ctors.append((bare, fa.group(1), True, [], []))
        elif mk and "ContextKind::" in body or (mk and bare in ("invalid_utf8",)):
            ext = re.search(r"extend_context_unchecked\(\[(.*?)\]\);", body, re.S)
            mand = re.findall(r"ContextKind::(\w+)", ext.group(1)) if ext else []
            rest = body[:ext.start()] + body[ext.end():] if ext else body
            cond = re.findall(r"insert_context_unchecked\(\s*ContextKind::(\w+)", rest)
            ctors.append((bare, mk.group(1), False, mand, cond))
        elif deleg and bare == "empty_value":
            ctors.append((bare, "=" + deleg.group(1), False, [], []))
    names = [c[0] for c in ctors]
    for need in ("argument_conflict", "subcommand_conflict", "empty_value", "no_equals", "invalid_value", "invalid_subcommand",
                 "unrecognized_subcommand", "missing_required_argument", "missing_subcommand", "invalid_utf8",
                 "too_many_values", "too_few_values", "value_validation", "wrong_number_of_values", "unknown_argument",
                 "unnecessary_double_dash", "display_help", "display_help_error", "display_version"):
        if need not in names:
            raise SystemExit("parse_sites.py: error constructor %s not found in error/mod.rs" % need)
    fmt_rs = drop_test_mods(blank(read("clap_builder/src/error/format.rs")))
    ffns = functions(fmt_rs)
    fsites = [(f, k, n) for (f, k, n) in sites_of(fmt_rs, ffns) if k in ("unwrap", "expect", "unreachable!", "panic!", "index")]
    for rel in ("mod.rs", "kind.rs", "context.rs"):
        code = drop_test_mods(blank(read("clap_builder/src/error/" + rel)))
        fsites += [(f, k, n) for (f, k, n) in sites_of(code, functions(code))]

    def sl(l):
        return "[" + "; ".join('"%s"' % x for x in l) + "]"
    lines = [
        "(* GENERATED by translators/parse_sites.py from clap_builder/src/error/{kind,context,mod,format}.rs -- do not edit *)",
        "From Coq Require Import List NArith String.",
        "Import ListNotations.",
        "Open Scope N_scope.",
        "Open Scope string_scope.",
        "(** ErrorKind::as_str: (variant, returns Some) *)",
        "Definition gen_kind_has_msg : list (string * bool) := [",
        ";\n".join('  ("%s", %s)' % (k, "true" if v else "false") for k, v in has_msg),
        "].",
        "(** enum ContextKind, in order *)",
        "Definition gen_context_kinds : list string := " + sl(ckinds) + ".",
        "(** the pub(crate) constructors of error/mod.rs: (fn, ErrorKind created (\"=f\": delegates to f), sets a message through",
        "    for_app, kinds of the unconditional extend_context_unchecked([..]) in order, kinds of the conditional",
        "    insert_context_unchecked(..) calls in source order) *)",
        "Definition gen_ctor_ctx : list (string * string * bool * list string * list string) := [",
        ";\n".join('  ("%s", "%s", %s, %s, %s)' % (n, k, "true" if fm else "false", sl(a), sl(b)) for n, k, fm, a, b in ctors),
        "].",
        "(** unwrap()/expect(/unreachable!/panic!/index sites of error/format.rs, then every counted shape of error/mod.rs,",
        "    kind.rs, context.rs: (fn, kind, ordinal) *)",
        "Definition gen_format_sites : list (string * string * N) := [",
        ";\n".join('  ("%s", "%s", %d)' % r for r in fsites),
        "].",
        "",
    ]
    return "ErrorCtx.v", "\n".join(lines)


def blank_keep_strings(src):
    """comments removed, strings kept (the tables above do not look inside strings, but `"` must stay balanced)"""
    out = re.sub(r"//[^\n]*", "", src)
    return out
