#!/usr/bin/env python3
# usage: dbg.py file.v LINE  -> compile prefix up to LINE (inclusive) then Show.
import sys,subprocess,os
f,line=sys.argv[1],int(sys.argv[2])
src=open(f).read().split('\n')
pre='\n'.join(src[:line])+'\nShow.\n'
tmp='/tmp/dbg_tmp.v'
open(tmp,'w').write(pre)
r=subprocess.run(['coqc','-Q',os.path.join(os.path.dirname(os.path.dirname(os.path.abspath(__file__))),'coq','theories'),'ClapModel',tmp],capture_output=True,text=True)
out=(r.stdout+r.stderr)
print(out[-int(sys.argv[3]) if len(sys.argv)>3 else -3000:])
