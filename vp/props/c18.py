"""C18: the dynamic completion engine never fails and only offers valid continuations."""
import os

from .. import core, gen_cmd
from ..core import hexs, unhex, sx_parse
from ..runner import Stream

ID = "C18"
AREAS = ["dynamic"]
RULE = ("random: command trees from vp/gen_cmd.py (hyphen=0.3, flag_subs=0.3) decorated with hidden args/subcommands/"
        "aliases and possible values; argv rendered from invocations, mutated with boundary tokens (dash-looking "
        "values, `--`, unknown flags, `-1`, `=`, non-UTF-8, empty); EVERY cursor index 0..len+1 plus 2^64-1; the word "
        "under the cursor replaced by one of {'', '-', '--', '--a', prefixes/full names of real options and "
        "subcommands, `--opt=`, `--opt=v`, clusters, non-UTF-8}.  states: six fixed commands x every token sequence "
        "over a 24-token alphabet up to a length bound x every index (the ParseState x token-shape sweep).  A case is "
        "non-trivial when the engine returned at least one candidate; distinct = distinct case text.")
TRUSTED = [
    "Coq 8.16.1 kernel (coqc); no native_compute; theorems C18_* are 'Closed under the global context' (no axioms, also no "
    "standard-library axioms); round-2/3 proofs reuse ParseProofs/{Spelling,Dispatch,ErrorSound,Chain,Actions,ActionsLoop,ActionsTop,UnparseProofs}.v "
    "of C08/C09/C10/C07/C02 (imported, unchanged)",
    "extraction: ExtrOcamlBasic only, no Extract Constant; OCaml driver ocaml/dynamic_driver.ml + common_parse/spec.ml",
    "correspondence: vp/props/c18.py generators, harness/src/modes/dynamic.rs, multiset comparison of (value, hidden) candidates; "
    "stream `order`: LIST comparison against complete_model_ord (the model with the final stable sort; display orders and "
    "help headings explicit in the case: (x-ord n), (x-heading h))",
    "modelled not verified: Parse/Build.v blocks of Command::_build_self and Parse/Valid.v assert_app (shared parser model), "
    "Vec::sort/dedup/retain of Rust core, str::starts_with, to_string_lossy on the ASCII '-'",
    "acceptance oracle: the real parser (Command::try_get_matches_from) run by the harness on the completed line",
]
ASSUMPTIONS = [
    "64-bit usize; OsStr = bytes (Unix); debug build (assert_app active inside Command::build)",
    "the command handed to complete() has not been built before (Built flag clear)",
    "no custom completers / value hints installed (path completion out of scope, current_dir = None)",
    "the final stable sort by (tag, display order) is modelled in Complete/EngineOrder.v (complete_model_ord; stream `order` compares "
    "lists); the other streams compare multisets.  The tag of a VALUE candidate (arg.to_string()) is the abstract tag TArg id: the "
    "rendered names of the arguments of one level are assumed pairwise different and different from the help headings; implicit "
    "display orders (clap's next_display_order counter) and subcommand_help_heading are not modelled: stream `order` sets every "
    "display order explicitly and leaves out lines through the generated `help` subcommand",
    "pos_index/count arithmetic is unbounded N in the model (bounded by the number of argv words in the code)",
]
TECHNIQUE = ("Coq proof (totality incl. fuel, soundness, completeness of the engine model; simulation between the engine's shadow "
             "parse and the PARSER model's token loop along option prefixes and subcommand names; end-to-end acceptance of every "
             "offered option/subcommand candidate by parse_top on whole lines - round 4: lines with positional values, multi-valued "
             "options, -o=v, per-level subcommand_precedence_over_arg and args_conflicts_with_subcommands, with the engine's pos_index "
             "and valid_arg_found proved equal to the parser's counter and flag; round 5: value terminators of options and positionals; "
             "level correspondence) + extracted-model/implementation "
             "correspondence")
LEVEL_TEXT = ("Machine-checked theorems (Coq 8.16, 84 pinned, all closed under the global context) about a function-by-function "
              "model of clap_complete::engine::complete: no panic site is reachable and no fuel runs out for any command, argv "
              "and index (build_full's fuel proved sufficient); in state ValueDone every option/subcommand candidate extends the "
              "word and names an option/alias/subcommand of the level reached by the shadow parse; under assert_app's uniqueness "
              "the engine's flag resolution equals the parser model's key lookup (same argument), the two models lex every word "
              "identically, and every offered candidate, given to the parser model's token loop (Parse/Parser.v) at a level with the "
              "same arguments and subcommand names, starts an occurrence of exactly that argument resp. dispatches to that "
              "subcommand.  Round 3: SIMULATION of the two state machines along prefixes made of --flag, --opt=v, --opt v, -abc, "
              "-ov, -o v (C09's class prefix_ok: exact keys, single-valued options without require_equals, values not starting "
              "with '-' and not subcommand names) and subcommand names: after every item the engine is in ValueDone exactly where "
              "the parser is in ValuesDone, inside `--opt v` the engine is in Opt(a) exactly where the parser is in PSOpt(a) for "
              "the same argument, both at related levels (C18_state_agreement_prefix/_open, C18_shadow_line); END TO END "
              "(C18_candidate_accepted_line): for every such line and every option/subcommand candidate the engine offers at the "
              "cursor, parse_top on the completed line does not fail with UnknownArgument/InvalidSubcommand (classes decidable: "
              "lvl18_b, cand_class_b).  Every visible long, visible alias, short (after '', '-', clusters of flags) and subcommand "
              "name extending the word is represented (arguments with a long name), hidden candidates appear only when no visible "
              "one does; value candidates of an option awaiting a value are exactly the declared possible values extending the "
              "last element behind the typed delimiter prefix; candidates without id in state ValueDone/Pos are declared possible "
              "values of the positional at pos_index (sound for plain words, complete for visible values, hidden ones offered "
              "unless a visible candidate is); after `--` the shadow parse reads no token as an option (C18_escaped_step) while "
              "the candidates are not restricted to positionals (C18_escape_only_positionals_refuted, outside the property).  "
              "Round 4 (Complete/EngineItems.v, EngineWide.v; the model follows the repair of finding C18-args-conflict: shadow_step keeps "
              "the parser's per-level valid_arg_found): the engine's find_pos IS the parser's get_pos; items widened by -o=v and multi-valued "
              "options with exactly max values (C18_state_agreement_item18), inside such an occurrence Opt a (j+1) <-> PSOpt with j pending "
              "values (C18_values_agree); values of single-valued positionals move pos_index exactly as the parser's counter, values of a "
              "multi-valued positional keep Pos pos k <-> PSPos at the same counter, a subcommand name behind them dispatches iff THE LEVEL "
              "REACHED sets subcommand_precedence_over_arg (C18_state_agreement_positionals); whole lines pline (C18_shadow_pline, "
              "C18_flag_agreement: level, pos_index and valid_arg_found equal the parser's) and END TO END C18_candidate_accepted_pline "
              "(supersedes the round-3 line theorem: C18_cline_is_pline), including levels with args_conflicts_with_subcommands "
              "(left before their own arguments; behind one, a subcommand name is a positional value for both machines: "
              "C18_args_conflict_levels; before/after witnesses of the finding: C18_args_conflict_before_after; complete_arg is told the flag: "
              "C18_complete_arg_v_cut transfers every theorem about complete_arg, C18_no_subcommand_candidates_behind_args).  The candidate's hide "
              "flag is the DEFINITIONAL one in every state - a hidden alias of a visible option is a hidden spelling "
              "(C18_hide_flag_definitional, C18_hidden_rule_definitional).  ORDER: the final stable sort by (position of the tag, display "
              "order) is modelled (complete_model_ord); C18_sort_final_spec: its result is a permutation of its input, sorted by the key, "
              "stable; C18_order_is_permutation: the ordered result is a permutation of the unordered model's.  "
              "Round 5 (Complete/EngineTerm.v; the model follows the repair of finding C18-value-terminator, docs/pending/"
              "engine_value_terminator_fix.diff: parse_opt_value / parse_positional take the word and do what the parser's check_terminator "
              "does): C18_terminator_step_agreement - on the value terminator of the pending option (any count) both machines are back between "
              "arguments with nothing pushed; on the terminator of the positional at the counter (between arguments or while it is being "
              "filled) both move the index / counter on; the classes item18 (`--opt v1..vj ;`, `-o v1..vj ;`, j below the maximum) and pitems18 "
              "(`;` alone, `v1..vk ;`) now contain terminators, so C18_state_agreement_item18, C18_state_agreement_positionals, C18_shadow_pline and "
              "the END-TO-END theorem C18_candidate_accepted_pline cover lines with terminators (non-vacuity: EngineTerm.TermLine); "
              "C18_pending_option_dash_agreement: while an option is pending with ANY number of values a word lexed as an exact long key or a "
              "non-empty short cluster is handled by both machines exactly as between arguments (level without hyphen-accepting arguments: "
              "hyphen_free); item18 therefore also contains partially filled occurrences `--opt v1..vj <item>` (the minimum is judged by the parser's "
              "flush: TooFewValues-class, never an unknown error; non-vacuity EngineTerm.PartialLine).  "
              "A bounded multi-valued positional that has all the values the engine's num_args admits (body18's b18_multi_max; body18 now carries the "
              "engine's index beside the parser's counter): the engine is in ValueDone at index+1 where the parser stays in PSPos at the counter "
              "(C18_state_agreement_positionals, restated); a subcommand name behind it is read by both iff the level sets "
              "subcommand_precedence_over_arg - such lines are in pline (non-vacuity EngineTerm.MaxLine).  "
              "Lines with the escape `--` (Complete/EngineEscape.v; beyond the letter of the property): C18_escaped_agreement (engine: is_escaped set, "
              "index moved by the escaped values exactly as the parser's counter, state Pos; parser: trailing-mode loop, LDone or an error of a flush), "
              "C18_escaped_accepted (pline line, `--`, words that all find a positional: never UnknownArgument/InvalidSubcommand), "
              "C18_candidate_accepted_escaped (EVERY candidate offered behind `line -- v1..vk` is accepted; directly behind `--` a positional at the "
              "counter is needed: C18_escape_no_positional_refuted).  "
              "Finding C18-require-equals (docs/pending/engine_require_equals_fix.diff, model follows): behind `--opt` of an option that requires `=` the "
              "engine no longer waits for a value; C18_require_equals_before_after (before: `p --opt sub --<TAB>` offered an option of `p` although the "
              "parser is at `sub`); item18 contains `--opt` (require_equals, minimum 0) as a complete occurrence.  "
              "C18_terminator_before_after: the unrepaired loop stood at the wrong level behind `p --opt a ; sub` / `p a ; sub` and offered an "
              "option the parser rejects as unknown, the repaired one stands where the parser does.  "
              "The model is tied to clap_complete by running the extracted model "
              "and the real crate on the same generated cases on every check; an independent python oracle splices each candidate "
              "into the line and has the real parser accept it.")
LEVEL_NOTE = ("Trusted: Coq kernel, extraction, OCaml driver, Rust harness, generators; Command::build blocks and assert_app "
              "shared with the parser model.  Differential/oracle only: the sort data themselves (clap's display-order counter, headings, rendered argument names as tags: "
              "stream `order` compares lists with the real crate); agreement of the shadow parse's "
              "state with the parser's OUTSIDE the classes item18/pitems18/body18 (partially filled multi-valued options on a level with "
              "hyphen-accepting arguments, a terminator that starts with `-` or follows the maximum of the range, hyphen values, require_equals, low-index multiples / allow_missing_positional, "
              "a line that goes on at the same level behind a full bounded multi-valued positional (the two counters differ by one), flag subcommands, inferred names, the generated help subtree, escaped values that name a subcommand, last(true) positionals behind `--`); "
              "acceptance on whole lines by the REAL parser; custom/path completers not modelled.  Finding C18-value-terminator (the engine did "
              "not know Arg::value_terminator; C18_terminator_before_after, corpus accept.value-terminator.cases) is repaired by "
              "docs/pending/engine_value_terminator_fix.diff, which model and proofs follow: so is finding C18-require-equals by "
              "docs/pending/engine_require_equals_fix.diff (stacked on it); until both are committed in /repo the check fails "
              "against /repo (oracle + correspondence) and passes with VERIF_REPO=<clone with the patches>; the oracle reads terminators and "
              "partially filled multi-valued options (option_values).  Class boundaries kept as theorems with witnesses replayed on the real crate: an option "
              "without long name but with a visible alias is neither recognised by the shadow parse (C18_same_long_refuted) nor "
              "offered (C18_complete_options_alias_refuted = known finding C18-alias-without-primary); --alias=<TAB> offers no values "
              "(C18_long_alias_value_refuted).  Known finding C18-low-index-multiples (round 5, not repaired): the engine has no counterpart of the "
              "parser's low-index-multiples correction of the positional counter - behind `p a b sub` (files=[a], dst=b for the parser) it still "
              "fills <files> at `p` and offers an option the parser rejects as unknown (C18_low_index_multiples_refuted; corpus witness; the "
              "premise pos_plain of the positional theorems is necessary).  Known findings C18-infer-subcommands / C18-infer-long-args (round 5, not "
              "repaired): the engine knows neither setting - `p su --<TAB>` (su = sub for the parser) offers an option of `p`, `p --opti sub --<TAB>` "
              "(--opti = --option taking `sub`) offers an option of `sub`, both rejected as unknown (C18_inferred_names_refuted; the oracle reads "
              "inference instead of giving up on such trees).  Known finding C18-flag-subcommands (an observation since round 1): flag-subcommands are "
              "neither offered nor followed - `p --sync --<TAB>` offers an option of `p` (C18_flag_subcommands_refuted; the oracle follows `--long-flag` "
              "and a single `-s`).")

U64_MAX = 2**64 - 1
BAD_KINDS = {"UnknownArgument", "InvalidSubcommand", "PANIC"}
CLEAN_PREFIX = {"ok", "MissingRequiredArgument", "MissingSubcommand", "DisplayHelpOnMissingArgumentOrSubcommand",
                "ArgumentConflict"}


# ------------------------------------------------------------------------------------------ result decoding
def split_result(impl):
    """-> (head, extra sexp or None); head = 'INVALID' | 'err' | 'PANIC...' | 'ok (...)...'"""
    if impl is None:
        return "ABORT", None
    if " ;; " in impl:
        a, b = impl.split(" ;; ", 1)
        return a, b
    return impl, None


def cands_of(head):
    """'ok (xV h) (xW v)' -> [(bytes, hidden)]"""
    out = []
    if not head.startswith("ok"):
        return out
    for it in sx_parse("(" + head[2:] + ")"):
        out.append((unhex(it[0]), it[1] == "h"))
    return out


def project(r):
    head, _ = split_result(r)
    if head.startswith("PANIC"):
        return "PANIC"
    if head.startswith("ok"):
        return "ok " + " ".join(sorted("%s:%s" % (hexs(v), "h" if h else "v") for v, h in cands_of(head)))
    return head


def nontrivial(case, impl):
    head, _ = split_result(impl)
    return head.startswith("ok (")


# ------------------------------------------------------------------------------------------ tree dump decoding
def node_of(sx):
    """(c xNAME h|v (f ..) (va ..) (aa ..) (a ...)* (c ...)*)"""
    n = {"name": unhex(sx[1]), "hidden": sx[2] == "h", "flags": set(), "va": [], "aa": [], "args": [], "subs": [], "lf": [], "sf": []}
    for it in sx[3:]:
        h = it[0]
        if h == "f":
            n["flags"] = set(it[1:])
        elif h == "va":
            n["va"] = [unhex(x) for x in it[1:]]
        elif h == "aa":
            n["aa"] = [unhex(x) for x in it[1:]]
        elif h == "lf":
            n["lf"] = [unhex(x) for x in it[1:]]
        elif h == "sf":
            n["sf"] = [chr(int(x)) for x in it[1:]]
        elif h == "a":
            a = {"id": unhex(it[1]), "hidden": it[2] == "h"}
            for f in it[3:]:
                k = f[0]
                if k in ("l", "va", "aa"):
                    a[k] = [unhex(x) for x in f[1:]]
                elif k in ("s", "vsa", "asa"):
                    a[k] = [chr(int(x)) for x in f[1:]]
                elif k == "f":
                    a["flags"] = set(f[1:])
                elif k == "n":
                    a["min"], a["max"] = int(f[1]), int(f[2])
                elif k == "i":
                    a["index"] = int(f[1])
                elif k == "t":
                    a["term"] = unhex(f[1])
            n["args"].append(a)
        elif h == "c":
            n["subs"].append(node_of(it))
    return n


def spec_settings(sx, acc):
    """all setting names anywhere in the command spec"""
    for it in sx[1:]:
        if isinstance(it, list) and it:
            if it[0] == "set":
                acc.update(it[1:])
            elif it[0] == "sub":
                spec_settings(it[1], acc)
    return acc


def long_names(a):
    return a.get("l", []) + a.get("aa", [])


def short_names(a):
    return a.get("s", []) + a.get("asa", [])


def find_long(node, name):
    for a in node["args"]:
        if name in long_names(a):
            return a
    return None


def find_short(node, ch):
    for a in node["args"]:
        if ch in short_names(a):
            return a
    return None


def find_sub(node, name):
    for s in node["subs"]:
        if s["name"] == name or name in s["aa"]:
            return s
    return None


UNSAFE_CMD_FLAGS = {"allow_external_subcommands", "allow_missing_positional", "multicall"}
# `args_conflicts_with_subcommands` is per level and so is the parser's "an argument was seen" flag: at a level that sets
# it a subcommand name is recognised as long as no argument OF THAT LEVEL came before it (after one, it is a plain word).
# `subcommand_precedence_over_arg` is a per-command setting (it is not propagated): at a level that sets it a word naming a
# subcommand is that subcommand even while a multiple positional is being filled; the scan follows the level it is at.


def find_sub_infer(node, name, infer):
    """Command::infer_subcommands (the parser's possible_subcommand): a word that is a prefix of the name or of an alias of
    exactly ONE subcommand names it; otherwise the exact name / alias.  -> (subcommand or None, was it found by inference)"""
    if infer:
        hits = [s for s in node["subs"] if s["name"].startswith(name) or any(x.startswith(name) for x in s["aa"])]
        if len(hits) == 1:
            exact = find_sub(node, name)
            return hits[0], exact is not hits[0]
    return find_sub(node, name), False


def find_long_infer(node, name, infer):
    """Command::infer_long_args (parse_long_arg): the exact key first; otherwise the ONE argument whose long name or one of
    whose aliases the word is a prefix of.  -> (argument or None, was it found by inference)"""
    a = find_long(node, name)
    if a is not None or not infer:
        return a, False
    hits = [x for x in node["args"] if "positional" not in x["flags"] and any(l.startswith(name) for l in long_names(x))]
    if len(hits) == 1:
        return hits[0], True
    return None, False


def plain_terminator(a):
    """the argument's value terminator is a plain word (non-empty, no leading dash): only then does the scan read it"""
    t = a.get("term")
    return t is not None and t != b"" and not t.startswith(b"-")


def option_values(level, a, words, j):
    """The words from index j on behind an option `a` that was given without an attached value: by clap's conventions
    the following plain words are its values until the maximum of `num_args` is reached, the option's
    `value_terminator` is read (it is dropped) or - the minimum being reached - a word that looks like an option
    follows.  Returns the index of the first word that is no longer part of the occurrence, None when that cannot be
    decided by convention or the cursor is still inside the occurrence (a value is pending)."""
    if "term" in a["flags"] and not plain_terminator(a):
        return None
    if a["flags"] & {"hyphen", "negnum"}:
        return None
    if (a["min"], a["max"]) != (1, 1) and "delim" in a["flags"]:
        return None
    count = 0
    n = len(words)
    while True:
        if j >= n:
            return None                      # the word under the cursor may still be a value of the option
        w = words[j]
        if w == b"" or w == b"-" or w == b"--":
            return None
        if w.startswith(b"-"):
            # a new option: the occurrence is over if it has its minimum (otherwise the line is an error of the prefix)
            if count < a["min"]:
                return None
            return j
        if "term" in a["flags"] and w == a["term"]:
            return j + 1
        if "subcommand_precedence_over_arg" in level["flags"] and \
                any(x["name"].startswith(w) or any(y.startswith(w) for y in x["aa"]) for x in level["subs"]):
            return None
        count += 1
        j += 1
        if count >= a["max"]:
            return j


def scan_prefix(root, words, settings=frozenset(), note=None):
    """Conventional scan of the words before the cursor, written from clap's documented command-line
    conventions (not from the engine): returns the level reached when a NEW ARGUMENT MAY START there,
    None when that cannot be decided soundly (pending value, `--`, anything unconventional)."""
    level = root
    pc = 0
    i = 0
    n = len(words)
    in_pos = False      # a multiple positional is being filled (the parser's ParseState::Pos)
    weak = False        # ... has happened: only soundness is judged from then on
    seen_arg = False    # an option / flag / positional value of the CURRENT level was read (reset on descent)
    lowidx = False      # a word was read as a value of a multi-valued positional that is not the last positional of its level
    infer_sub = "infer_subcommands" in settings      # global settings (propagated to every subcommand)
    infer_long = "infer_long_args" in settings
    if note is None:
        note = {}
    while i < n:
        if level["flags"] & UNSAFE_CMD_FLAGS:
            return None
        w = words[i]
        try:
            ws = w.decode("utf-8")
        except UnicodeDecodeError:
            return None
        if w == b"--" or w == b"-" or w == b"":
            return None
        if w.startswith(b"-"):
            in_pos = False
            seen_arg = True
        if w.startswith(b"--"):
            body = w[2:]
            name, eq, _val = body.partition(b"=")
            a, by_inference = find_long_infer(level, name, infer_long)
            if a is None and not eq and not infer_sub and not infer_long:
                # a flag-subcommand (`Command::long_flag`): `--name` selects the subcommand that declares it (arguments first)
                fs = [x for x in level["subs"] if name in x["lf"]]
                if len(fs) == 1:
                    note["flagsub"] = True
                    in_pos = False
                    seen_arg = False
                    level = fs[0]
                    pc = 0
                    i += 1
                    continue
            if a is None or a["id"] in (b"help", b"version") or a["flags"] & {"positional"}:
                return None
            if "reqeq" in a["flags"] and a["max"] > 0:
                # `require_equals`: the value must be attached with `=`; without it the option is complete when no value
                # is required (otherwise the line is an error: NoEquals) - it never takes the next word
                if (eq and (a["min"], a["max"]) not in ((1, 1), (0, 1))) or (not eq and a["min"] != 0) or "term" in a["flags"]:
                    return None
                if by_inference:
                    note["inferred"] = "infer-long-args"
                i += 1
                continue
            if by_inference:
                note["inferred"] = "infer-long-args"
            if a["max"] == 0:
                if eq:
                    return None
                i += 1
                continue
            if eq:
                if (a["min"], a["max"]) != (1, 1) or "term" in a["flags"]:
                    return None
                i += 1
                continue
            i = option_values(level, a, words, i + 1)
            if i is None:
                return None
            continue
        if w.startswith(b"-"):
            chars = ws[1:]
            if chars[0].isdigit():
                return None
            if len(chars) == 1 and find_short(level, chars[0]) is None:
                # a flag-subcommand (`Command::short_flag`) given alone: `-S` selects the subcommand (inside a cluster the rest
                # of the cluster belongs to the subcommand: not read here)
                fs = [x for x in level["subs"] if chars[0] in x["sf"]]
                if len(fs) == 1:
                    note["flagsub"] = True
                    in_pos = False
                    seen_arg = False
                    level = fs[0]
                    pc = 0
                    i += 1
                    continue
            k = 0
            consumed_next = False
            while k < len(chars):
                a = find_short(level, chars[k])
                if a is None or a["id"] in (b"help", b"version") or a["flags"] & {"reqeq", "positional"}:
                    return None
                if a["max"] == 0:
                    k += 1
                    continue
                rest = chars[k + 1:]
                if rest:
                    if (a["min"], a["max"]) != (1, 1) or "term" in a["flags"]:
                        return None
                    if rest.startswith("=") and len(rest) == 1:
                        return None
                    break
                consumed_next = True
                break
            if consumed_next:
                i = option_values(level, a, words, i + 1)
                if i is None:
                    return None
            else:
                i += 1
            continue
        s, sub_by_inference = find_sub_infer(level, w, infer_sub)
        if s is not None and seen_arg and "args_conflicts_with_subcommands" in level["flags"]:
            # behind an argument of such a level the parser does not look for subcommands: the word is a plain word
            # (a positional value, or an error of the prefix line - then CLEAN_PREFIX drops the case); the level reached
            # is still this one (finding C18-args-conflict: the engine used to descend)
            s = None
        if s is not None and (not in_pos or "subcommand_precedence_over_arg" in level["flags"]):
            if sub_by_inference:
                note["inferred"] = "infer-subcommands"
            in_pos = False
            seen_arg = False
            level = s
            pc = 0
            i += 1
            continue
        pos = [a for a in level["args"] if "positional" in a["flags"] and a.get("index") == pc + 1]
        if len(pos) == 1 and "term" in pos[0]["flags"]:
            # `value_terminator`: the word equal to it ends the values of the positional at the counter (also when it has
            # none yet) and is itself dropped - the next positional is up and a new argument may start
            if not plain_terminator(pos[0]) or pos[0]["flags"] & {"last", "tva", "hyphen", "negnum", "delim"}:
                return None
            if w == pos[0]["term"]:
                in_pos = False
                seen_arg = True
                pc += 1
                i += 1
                continue
        if len(pos) == 1 and (pos[0]["max"] >= 2 or "append" in pos[0]["flags"]) and pos[0]["min"] <= 1 \
                and not pos[0]["flags"] & {"last", "tva", "hyphen", "negnum", "delim"}:
            # multi-valued / appending positional: every further plain word is one of its values, also one
            # that names a subcommand (Parser::get_matches_with looks for subcommands only outside Pos); the parser
            # keeps collecting beyond the maximum of a bounded range (then the prefix line is TooManyValues at
            # validation and CLEAN_PREFIX drops the case)
            in_pos = True
            weak = True
            seen_arg = True
            if "term" not in pos[0]["flags"] \
                    and any("positional" in a["flags"] and a.get("index", 0) > pc + 1 for a in level["args"]):
                # clap's "low index multiples": which positional takes a word depends on the NEXT word (Parser::get_matches_with
                # peeks; not for a positional with a value terminator); the scan reads the word as a value of the multiple
                # positional - known finding C18-low-index-multiples
                lowidx = True
            i += 1
            continue
        # a positional that takes several values or appends is "multiple" for the parser: while it is being
        # filled subcommand names are values, so the level cannot be decided by convention
        if len(pos) != 1 or (pos[0]["min"], pos[0]["max"]) != (1, 1) \
                or pos[0]["flags"] & {"last", "tva", "append"}:
            return None
        pc += 1
        seen_arg = True
        i += 1
    if level["flags"] & UNSAFE_CMD_FLAGS:
        return None
    # behind an argument of a level with args_conflicts_with_subcommands subcommand names are no valid continuation (third
    # component): the parser answers ArgumentConflict, takes the name as the value of a positional, or answers UnknownArgument
    # when the positional at the counter is last(true); no subcommand candidate may be offered there and none is required
    nosubs = bool(seen_arg and "args_conflicts_with_subcommands" in level["flags"])
    return level, weak, nosubs, lowidx


def decode_case(case):
    sx = sx_parse(case)
    argv = [unhex(t) for t in sx[2][1:]]
    index = int(sx[3])
    return sx, argv, index


def accept_oracle(case, impl):
    """the oracle proper is accept_oracle_core; a complaint about a line on which the scan had to use clap's name INFERENCE
    (infer_subcommands / infer_long_args - the engine knows neither) belongs to a recorded finding and is tagged"""
    note = {}
    r = accept_oracle_core(case, impl, note)
    if isinstance(r, str) and not r.startswith("the completion engine panicked"):
        if note.get("flagsub"):
            r += " [flag-subcommand]"
        elif note.get("inferred"):
            r += " [%s]" % note["inferred"]
    return r


def accept_oracle_core(case, impl, note):
    head, extra = split_result(impl)
    if head.startswith("PANIC") or head.startswith("ABORT"):
        return "the completion engine panicked: %s" % head[:300]
    if head == "INVALID" or head == "err" or extra is None:
        return None
    ex = sx_parse("(" + extra + ")")
    info = {it[0]: it[1:] for it in ex}
    cands = cands_of(head)
    if not cands and False:
        return None
    sx, argv, index = decode_case(case)
    if index >= len(argv):
        return "candidates returned for an index outside the argument vector"
    settings = spec_settings(sx[1], set())
    if settings & {"ignore_errors"}:
        return None
    # behind the generated `help` subcommand the candidates are the copies `build()` hangs under it; a copy is hidden iff the
    # user's subcommand of that name (same path from the root) is (seeded change seed4/C18-2: the copy lost its hide flag).
    # (judged before the prefix filter: the prefix `prog help ..` itself answers DisplayHelp)
    root0 = node_of(info["tree"][0])
    start0 = 0 if "no_binary_name" in root0["flags"] else 1
    pre_toks = argv[start0:index]
    if pre_toks and pre_toks[0] == b"help" and "disable_help_subcommand" not in settings \
            and "(sub (cmd x68656c70" not in case and all(t and not t.startswith(b"-") for t in pre_toks):
        user = root0
        for t in pre_toks[1:]:
            user = find_sub(user, t) if user is not None else None
        if user is not None:
            cids = {}
            for it in info["acc"]:
                cids.setdefault(unhex(it[0]), []).append(None if it[2] == "none" else unhex(it[2]))
            hidden_user = [v for v, _ in cands for cid in cids.get(v, [None]) if cid and cid.startswith(b"command::")
                           and (find_sub(user, v) or {}).get("hidden")]
            visible_any = [v for v, _ in cands if v not in hidden_user]
            if hidden_user and visible_any:
                return "behind `help`, %r names a subcommand hidden by definition but is offered although %r matches" % (
                    hidden_user[0], visible_any[0])
    if info["prefix"][0] not in CLEAN_PREFIX:
        return None
    root = node_of(info["tree"][0])
    start = 0 if "no_binary_name" in root["flags"] else 1
    if index < start:
        return "candidates returned for the binary name"
    sc = scan_prefix(root, argv[start:index], settings, note)
    if sc is None:
        return None
    level, weak, nosubs, lowidx = sc
    word = argv[index]
    acc = {}
    ids = {}
    for it in info["acc"]:
        acc[unhex(it[0])] = it[1]
        ids.setdefault(unhex(it[0]), []).append(None if it[2] == "none" else unhex(it[2]))
    word_kind = info["word"][0]
    seen_ids = set()
    any_visible = any(not h for _, h in cands)
    # ---- soundness of every option / subcommand candidate
    for v, hidden in cands:
        for cid in ids.get(v, [None]):
            if cid is None:
                continue
            seen_ids.add(cid)
            what = None
            if cid.startswith(b"arg::"):
                aid = cid[5:]
                owner = [a for a in level["args"] if a["id"] == aid]
                if not owner:
                    what = "does not name an option of the level reached (%r)" % level["name"]
                else:
                    a = owner[0]
                    if v.startswith(b"--"):
                        if v[2:] not in long_names(a):
                            what = "is not a long name or alias of the option it stands for"
                    elif v.startswith(b"-"):
                        try:
                            last = v.decode("utf-8")[-1]
                        except UnicodeDecodeError:
                            last = None
                        if last not in short_names(a):
                            what = "is not a short name or alias of the option it stands for"
                    else:
                        what = "option candidate without a leading dash"
            elif cid.startswith(b"command::"):
                s = find_sub(level, v)
                if nosubs:
                    # behind an argument of a command whose arguments conflict with subcommands the parser does not look for
                    # subcommands: it answers ArgumentConflict or UnknownArgument, or takes the word as a positional value
                    what = "is a subcommand offered behind an argument of a command whose arguments conflict with subcommands " \
                           "(the real parser: %s)" % acc.get(v)
                if s is None or s["name"] != cid[9:]:
                    what = "does not name a subcommand of the level reached (%r)" % level["name"]
            else:
                continue
            if what is None and not v.startswith(word):
                what = "does not extend the word under the cursor %r" % word
            if what is None and acc.get(v) in BAD_KINDS:
                cluster = word.startswith(b"-") and not word.startswith(b"--") and len(word) >= 2
                # a cluster is judged only when the typed part consists of flags of this level (the engine
                # knows nothing of short flag-subcommands; an unknown flag typed by the user is not the
                # candidate's fault)
                typed_ok = cluster and word_kind not in BAD_KINDS and all(
                    (find_short(level, ch) or {"max": 1})["max"] == 0 for ch in word.decode("utf-8", "replace")[1:])
                if not cluster or typed_ok:
                    what = "is rejected by the real parser on the completed line (%s)" % acc.get(v)
                    if lowidx:
                        # recorded finding: the engine does not model the parser's low-index-multiples counter correction
                        what += " [low-index-multiples]"
            if what:
                return "candidate %r %s" % (v, what)
    # ---- hidden only when nothing visible matches
    if any_visible and any(h for _, h in cands):
        return "hidden candidates offered although a visible one matches"
    # the same rule read off the DEFINITION (a candidate's own hide flag is what the engine claims): a spelling that is
    # hidden by definition -- a hidden argument/subcommand, or an alias that is not a visible alias -- may be offered only
    # when no candidate with a visible spelling is (seeded change seed2/C18-3: the hide flag of alias candidates was lost)
    def def_hidden(v, cid):
        if cid is None:
            return None
        if cid.startswith(b"arg::"):
            own = [a for a in level["args"] if a["id"] == cid[5:]]
            if not own:
                return None
            a = own[0]
            if a["hidden"]:
                return True
            if v.startswith(b"--"):
                nm = v[2:].split(b"=")[0]
                if nm in a.get("l", []) or nm in a.get("va", []):
                    return False
                return True if nm in a.get("aa", []) else None
            if v.startswith(b"-") and len(v) >= 2:
                try:
                    ch = v.decode("utf-8")[-1]
                except UnicodeDecodeError:
                    return None
                if ch in a.get("s", []) or ch in a.get("vsa", []):
                    return False
                return True if ch in a.get("asa", []) else None
            return None
        if cid.startswith(b"command::"):
            sub = find_sub(level, v)
            if sub is None:
                return None
            if sub["hidden"]:
                return True
            if v == sub["name"] or v in sub["va"]:
                return False
            return True
        return None
    dh = [(v, def_hidden(v, cid)) for v, _ in cands for cid in ids.get(v, [None])]
    if any(x is False for _, x in dh):
        bad = [v for v, x in dh if x is True]
        if bad:
            return "spelling %r is hidden by definition but offered although a visible spelling matches" % bad[0]
    # ---- completeness: visible options / subcommands with a spelling extending the (well-formed) word
    if weak:
        return None
    try:
        word.decode("utf-8")
    except UnicodeDecodeError:
        return None
    for a in level["args"]:
        if a["hidden"] or "positional" in a["flags"]:
            continue
        spell = [b"--" + x for x in a.get("l", []) + a.get("va", [])]
        if a.get("s") and word in (b"", b"-"):
            spell += [b"-" + c.encode() for c in a.get("s", []) + a.get("vsa", [])]
        if any(sp.startswith(word) for sp in spell) and (b"arg::" + a["id"]) not in seen_ids:
            # recorded finding (family alias-without-primary, shared with C16): a visible long alias of an option that has
            # no long name (resp. a visible short alias without a short) is a key for the parser but the engine, like the
            # ahead-of-time generators, goes through Arg::get_long_and_visible_aliases, which returns nothing without a primary
            primary = [b"--" + x for x in a.get("l", [])] + ([b"-" + c.encode() for c in a.get("s", [])] if word in (b"", b"-") else [])
            tag = "" if any(sp.startswith(word) for sp in primary) or (a.get("l") and a.get("s")) \
                or any(sp.startswith(word) for sp in ([b"--" + x for x in a.get("va", [])] if a.get("l") else [])
                       + ([b"-" + c.encode() for c in a.get("vsa", [])] if a.get("s") and word in (b"", b"-") else [])) \
                else " [alias-without-primary]"
            return "visible option %r has a spelling extending %r but is not represented%s" % (a["id"], word, tag)
    for s in ([] if nosubs else level["subs"]):
        if s["hidden"]:
            continue
        if any(sp.startswith(word) for sp in [s["name"]] + s["va"]) and (b"command::" + s["name"]) not in seen_ids:
            return "visible subcommand %r has a spelling extending %r but is not represented" % (s["name"], word)
    return None


def total_oracle(case, impl):
    head, _ = split_result(impl)
    if head.startswith("PANIC") or head.startswith("ABORT"):
        return "the completion engine panicked: %s" % head[:300]
    if head == "INVALID" or head == "err" or head.startswith("ok") or head == "badcase":
        return None
    return "unexpected result %s" % head[:200]


# ------------------------------------------------------------------------------------------ generators
PV_POOL = [b"pva", b"pvb", b"pvab", b"qq", "pé".encode()]


def _pv_eligible(a):
    return bool(gen_cmd.takes_value(a) and a.get("action") in ("set", "append", None) and not a.get("vp")
                and not a.get("default") and not a.get("env") and not a.get("dmissing") and not a.get("difs"))


def _ineligible_ids(c, acc):
    for a in c["args"]:
        if not _pv_eligible(a):
            acc.add(a["id"])
    for s in c["subs"]:
        _ineligible_ids(s, acc)
    return acc


def decorate(rng, c, pvmap, bad=None):
    """hidden args / subcommands, extra aliases, possible values (the model's side table is keyed by the
    arg id: the same id gets the same values everywhere in one tree, or none if it is ineligible anywhere)"""
    if bad is None:
        bad = _ineligible_ids(c, set())
    for a in c["args"]:
        if rng.random() < 0.15:
            a["flags"].add("hide")
        if a.get("long") and not a.get("aliases") and rng.random() < 0.25:
            nm = a["long"] + rng.choice([b"x", b"-al", b"2"])
            a["aliases"] = [(nm, rng.random() < 0.5)]
        if _pv_eligible(a) and a["id"] not in bad:
            if a["id"] not in pvmap:
                pvmap[a["id"]] = None
                if rng.random() < 0.3:
                    pvmap[a["id"]] = [(v, rng.random() < 0.3) for v in rng.sample(PV_POOL, rng.randrange(1, 4))]
            if pvmap[a["id"]]:
                a["x_pv"] = pvmap[a["id"]]
    for s in c["subs"]:
        if rng.random() < 0.15:
            s["settings"].append("hide")
        decorate(rng, s, pvmap, bad)


def cmd_sx(c):
    """gen_cmd.cmd_sx plus the x-pv extension items"""
    txt = gen_cmd.cmd_sx(c)
    return txt


def arg_sx_x(a):
    s = gen_cmd.arg_sx(a)
    if a.get("x_pv"):
        s = s[:-1] + " (x-pv %s))" % " ".join("(%s %s)" % (hexs(v), "h" if h else "v") for v, h in a["x_pv"])
    if a.get("x_ord") is not None:
        s = s[:-1] + " (x-ord %d))" % a["x_ord"]
    if a.get("x_heading") is not None:
        s = s[:-1] + " (x-heading %s))" % hexs(a["x_heading"])
    return s


def cmd_sx_x(c):
    it = [hexs(c["name"])]
    if c.get("about") is not None:
        it.append("(about %s)" % hexs(c["about"]))
    if c.get("version") is not None:
        it.append("(version %s)" % hexs(c["version"]))
    for n, v in c.get("aliases", []):
        it.append("(alias %s%s)" % (hexs(n), " v" if v else ""))
    if c.get("short_flag"):
        it.append("(short_flag %d)" % ord(c["short_flag"]))
    if c.get("long_flag"):
        it.append("(long_flag %s)" % hexs(c["long_flag"]))
    if c.get("settings"):
        it.append("(set %s)" % " ".join(c["settings"]))
    if c.get("ext"):
        it.append("(ext %s)" % c["ext"])
    if c.get("x_ord") is not None:
        it.append("(x-ord %d)" % c["x_ord"])
    for a in c.get("args", []):
        it.append(arg_sx_x(a))
    for g in c.get("groups", []):
        it.append(gen_cmd.group_sx(g))
    for s in c.get("subs", []):
        it.append("(sub %s)" % cmd_sx_x(s))
    return "(cmd %s)" % " ".join(it)


def names_of(c, longs, shorts, subs):
    for a in c["args"]:
        if a.get("long"):
            longs.append(a["long"])
        for n, _ in a.get("aliases", []):
            longs.append(n)
        if a.get("short"):
            shorts.append(a["short"])
    for s in c["subs"]:
        subs.append(s["name"])
        for n, _ in s.get("aliases", []):
            subs.append(n)
        names_of(s, longs, shorts, subs)


def words_for(rng, longs, shorts, subs):
    w = [b"", b"-", b"--", b"--a", b"--h", b"--he", b"--help", b"-h", b"h", b"he", b"help", b"-1", b"=", b"\xff", b"-\xff",
         b"--\xff", b"-x", b"--unknown", b"s", b"--version", b"--v"]
    for l in rng.sample(longs, min(3, len(longs))):
        w += [b"--" + l, b"--" + l[:max(1, len(l) // 2)], b"--" + l + b"=", b"--" + l + b"=p", b"--" + l + b"=a,p"]
    for s in rng.sample(shorts, min(3, len(shorts))):
        w += [b"-" + s.encode(), b"-" + s.encode() + b"=", b"-" + s.encode() + b"p", b"-" + s.encode() + b"\xff"]
    if len(shorts) >= 2:
        a, b = rng.sample(shorts, 2)
        w.append(b"-" + a.encode() + b.encode())
    for s in rng.sample(subs, min(3, len(subs))):
        w += [s, s[:1], s[:max(1, len(s) - 1)]]
    w += [b"p", b"pv", b"pva", b"a,p"]
    return w


def case_line(mode, cmdtxt, argv, index):
    return "(%s %s (argv%s) %d)" % (mode, cmdtxt, "".join(" " + hexs(t) for t in argv), index)


def gen_random(rng, ntrees, per_tree, mode, every_index=True, conventional=False):
    kw = dict(hyphen=0.3, flag_subs=0.3, invalid=0.01, env=0.0)
    if conventional:
        kw = dict(gen_cmd.CONVENTIONAL)
        kw.update(env=0.0, settings=0.05, relations=0.1, groups=0.1)
    prof = gen_cmd.Profile(**kw)
    out = []
    for _ in range(ntrees):
        c = gen_cmd.gen_cmd(rng, prof)
        decorate(rng, c, {})
        cmdtxt = cmd_sx_x(c)
        longs, shorts, subs = [b"help", b"version"], ["h", "V"], [b"help"]
        names_of(c, longs, shorts, subs)
        for _ in range(per_tree):
            argv = gen_cmd.gen_argv(rng, c, p_mutate=0.5, safe_p=0.5)
            if rng.random() < 0.3:
                argv.insert(rng.randrange(len(argv) + 1), rng.choice(gen_cmd.BOUNDARY))
            if len(argv) > 9:
                argv = argv[:9]
            words = words_for(rng, longs, shorts, subs)
            idxs = list(range(0, len(argv) + 2)) if every_index else [rng.randrange(0, len(argv) + 1)]
            if every_index and rng.random() < 0.2:
                idxs.append(U64_MAX)
            for i in idxs:
                av = list(argv)
                if i < len(av):
                    if rng.random() < 0.75:
                        av[i] = rng.choice(words)
                elif i == len(av) and rng.random() < 0.8:
                    av.append(rng.choice(words))
                out.append(case_line(mode, cmdtxt, av, i))
    return out


HEADINGS = [b"Head", b"Zed", b"Options", b"Commands"]


def order_decorate(rng, c, amap, smap, top=True):
    """explicit sort data on EVERY argument and subcommand (the model's side table is keyed by the arg id resp. the
    subcommand name: the same id / name gets the same display order and heading everywhere in one tree); small numbers, so
    that ties - which the stable sort must leave in generation order - are frequent"""
    # the names clap generates itself keep clap's defaults (999, no heading) wherever they occur: the table cannot tell a
    # user-defined `help` subcommand of one level from the generated one of another
    for a in c["args"]:
        if a["id"] not in amap:
            amap[a["id"]] = (999, None) if a["id"] in (b"help", b"version") else \
                (rng.randrange(0, 4), rng.choice(HEADINGS) if rng.random() < 0.25 else None)
        a["x_ord"], a["x_heading"] = amap[a["id"]]
    for sc in c["subs"]:
        if sc["name"] not in smap:
            smap[sc["name"]] = 999 if sc["name"] == b"help" else rng.randrange(0, 4)
        sc["x_ord"] = smap[sc["name"]]
        order_decorate(rng, sc, amap, smap, False)


def gen_order(rng, ntrees, per_tree):
    """stream `order`: the candidates AS A LIST against the model with the final stable sort (complete_model_ord).  Lines that
    walk through the generated `help` subcommand are left out (its subtree is rebuilt by clap with display orders of its own)"""
    prof = gen_cmd.Profile(hyphen=0.2, flag_subs=0.0, invalid=0.0, env=0.0)
    out = []
    for _ in range(ntrees):
        c = gen_cmd.gen_cmd(rng, prof)
        decorate(rng, c, {})
        order_decorate(rng, c, {}, {})
        cmdtxt = cmd_sx_x(c)
        longs, shorts, subs = [b"help", b"version"], ["h", "V"], [b"help"]
        names_of(c, longs, shorts, subs)
        for _ in range(per_tree):
            argv = gen_cmd.gen_argv(rng, c, p_mutate=0.3, safe_p=0.7)
            if len(argv) > 7:
                argv = argv[:7]
            words = [b"", b"-", b"--", b"--a", b"-h", b"h", b"s", b"p", b"pv", b"a,p"] + words_for(rng, longs, shorts, subs)
            for i in range(1, len(argv) + 1):
                av = list(argv)
                if b"help" in av[:i]:
                    continue
                w = rng.choice([b"", b"", b"-", b"--"]) if rng.random() < 0.65 else rng.choice(words)
                if i < len(av):
                    av[i] = w
                else:
                    av.append(w)
                out.append(case_line("dynorder", cmdtxt, av, i))
    return out


def project_order(r):
    """the candidates in the order returned: lists, not multisets"""
    head, _ = split_result(r)
    if head.startswith("PANIC"):
        return "PANIC"
    if head.startswith("ok"):
        return "ok " + " ".join("%s:%s" % (hexs(v), "h" if h else "v") for v, h in cands_of(head))
    return head


def h(b):
    return hexs(b)


def fixed_commands():
    """hand-written commands for the ParseState x token-shape sweep"""
    def arg(id_, *items):
        return "(arg %s%s)" % (h(id_), "".join(" " + x for x in items))

    def long(l):
        return "(long %s)" % h(l)

    def short(c):
        return "(short %d)" % ord(c)

    sub1 = "(sub (cmd %s (alias %s v) (alias %s) %s %s))" % (
        h(b"sub"), h(b"sv"), h(b"sh"),
        arg(b"so", long(b"sopt"), short("s"), "(action set)"), arg(b"sp"))
    hid_sub = "(sub (cmd %s (set hide) %s))" % (h(b"hid"), arg(b"hf", long(b"hflag"), "(action settrue)"))
    c1 = "(cmd %s %s %s %s %s %s)" % (
        h(b"p"),
        arg(b"opt", long(b"opt"), short("o"), "(action set)", "(alias %s v)" % h(b"optv"), "(alias %s)" % h(b"opth")),
        arg(b"flag", long(b"flag"), short("f"), "(action settrue)"),
        arg(b"pos", "(flags hyphen)"), sub1, hid_sub)
    c2 = "(cmd %s %s %s %s %s)" % (
        h(b"p"),
        arg(b"opt", long(b"opt"), short("o"), "(action set)", "(num 0 1)", "(delim 44)",
            "(x-pv (%s v) (%s h))" % (h(b"va"), h(b"vh"))),
        arg(b"two", long(b"two"), short("t"), "(action set)", "(num 2 2)"),
        arg(b"flag", long(b"flag"), short("f"), "(action count)", "(flags hide)"),
        arg(b"pos", "(num 1 3)", "(x-pv (%s v) (%s v))" % (h(b"va"), h(b"sub"))))
    c3 = "(cmd %s (set no_binary_name) %s %s %s %s)" % (
        h(b"p"),
        arg(b"opt", long(b"opt"), short("o"), "(action append)", "(num 1 inf)", "(flags hyphen)", "(delim 44)"),
        arg(b"flag", long(b"flag"), short("f"), "(action settrue)", "(flags global)"),
        arg(b"pos", "(flags negnum)", "(vp bool)"), sub1)
    c4 = "(cmd %s (version %s) (set propagate_version) %s %s %s %s %s)" % (
        h(b"p"), h(b"1.0"),
        arg(b"opt", long(b"opt"), short("o"), "(salias %d v)" % ord("O"), "(salias %d)" % ord("q"), "(action set)",
            "(flags global)"),
        arg(b"flag", long(b"flag"), short("f"), "(action settrue)", "(alias %s v)" % h(b"fl")),
        arg(b"p1"), arg(b"p2", "(num 0 inf)", "(flags tva hyphen)"), sub1)
    c5 = "(cmd %s (set disable_help_flag disable_help_subcommand) %s %s %s)" % (
        h(b"p"),
        arg(b"opt", long(b"opt"), "(action set)", "(flags reqeq)"),
        arg(b"pos", "(flags last)", "(num 1 inf)"),
        sub1)
    c6 = "(cmd %s %s %s %s)" % (
        h(b"p"),
        arg(b"opt", short("o"), "(action set)", "(flags hyphen)"),
        arg(b"flag", short("f"), "(action settrue)", "(flags hide)"),
        "(sub (cmd %s (short_flag %d) (long_flag %s) %s %s))" % (
            h(b"sub"), ord("S"), h(b"sync"), arg(b"so", long(b"sopt"), "(action set)"),
            "(sub (cmd %s %s))" % (h(b"deep"), arg(b"df", long(b"dflag"), "(action settrue)"))))
    return [c1, c2, c3, c4, c5, c6]


ALPHABET = [b"", b"-", b"--", b"--opt", b"--opt=", b"--opt=v", b"--optv", b"--opth", b"--unknown", b"-o", b"-ov", b"-o=v",
            b"-f", b"-fo", b"-x", b"-1", b"v", b"sub", b"sh", b"hid", b"=", b"\xff", b"-f\xff", b"--two", b"--fl", b"s",
            b"va", b"--sopt", b"-S", b"help", b"va,v", b"--opt=va,"]


def gen_states(rng, tier, mode, maxlen_full, nrandom):
    out = []
    cmds = fixed_commands()
    import itertools
    for c in cmds:
        for L in range(0, maxlen_full + 1):
            for seq in itertools.product(ALPHABET, repeat=L):
                av = [b"prog"] + list(seq)
                for i in range(0, len(av) + 1):
                    out.append(case_line(mode, c, av, i))
    for _ in range(nrandom):
        c = rng.choice(cmds)
        L = rng.choice([3, 3, 4, 5])
        av = [b"prog"] + [rng.choice(ALPHABET) for _ in range(L)]
        for i in range(max(0, L - 2), len(av) + 1):
            out.append(case_line(mode, c, av, i))
    return out


def precedence_commands():
    """subcommand_precedence_over_arg differs between the levels of one tree (seeded change C18-2): the level reached
    by `run files.. build` depends on the setting of `run`, not of the root"""
    def arg(id_, *items):
        return "(arg %s%s)" % (h(id_), "".join(" " + x for x in items))
    out = []
    for root_p in (False, True):
        for mid_p in (False, True):
            leaf = "(sub (cmd %s %s %s))" % (h(b"build"), arg(b"rel", "(long %s)" % h(b"release"), "(action settrue)"),
                                              arg(b"tgt", "(long %s)" % h(b"target"), "(short %d)" % ord("t"), "(action set)"))
            mid = "(sub (cmd %s%s %s %s %s %s))" % (
                h(b"run"), " (set subcommand_precedence_over_arg)" if mid_p else "",
                arg(b"jobs", "(long %s)" % h(b"jobs"), "(short %d)" % ord("j"), "(action set)"),
                arg(b"vb", "(long %s)" % h(b"verbose"), "(short %d)" % ord("v"), "(action settrue)"),
                arg(b"files", "(num 1 inf)"), leaf)
            root = "(cmd %s%s %s %s %s)" % (
                h(b"p"), " (set subcommand_precedence_over_arg)" if root_p else "",
                arg(b"quiet", "(long %s)" % h(b"quiet"), "(short %d)" % ord("q"), "(action settrue)"),
                arg(b"items", "(num 1 inf)"), mid)
            out.append(root)
    return out


def gen_argsconflict(mode):
    """args_conflicts_with_subcommands on a middle level, arguments given on the OUTER level before it (seeded change
    seed2/C18-1: the engine's 'an argument was seen' flag must start afresh in every subcommand, as the parser's does)"""
    def arg(id_, *items):
        return "(arg %s%s)" % (h(id_), "".join(" " + x for x in items))
    out = []
    for root_s in (False, True):
        for mid_s in (False, True):
            leaf = "(sub (cmd %s %s))" % (h(b"add"), arg(b"fetch", "(long %s)" % h(b"fetch"), "(action settrue)"))
            mid = "(sub (cmd %s%s %s %s))" % (h(b"remote"), " (set args_conflicts_with_subcommands)" if mid_s else "",
                                            arg(b"all", "(long %s)" % h(b"all"), "(short %d)" % ord("a"), "(action settrue)"), leaf)
            root = "(cmd %s%s %s %s %s)" % (h(b"p"), " (set args_conflicts_with_subcommands)" if root_s else "",
                                         arg(b"verbose", "(long %s)" % h(b"verbose"), "(short %d)" % ord("v"), "(action settrue)"),
                                         arg(b"cfg", "(long %s)" % h(b"cfg"), "(action set)"), mid)
            lines = [[b"--verbose", b"remote", b"add"], [b"remote", b"add"], [b"-v", b"remote"], [b"--cfg", b"x", b"remote", b"add"],
                     [b"remote", b"--all"], [b"remote"], [b"--verbose"], [b"--cfg=x", b"remote", b"add", b"--fetch"]]
            for ln in lines:
                for w in (b"", b"-", b"--", b"--f", b"--a", b"a", b"r"):
                    out.append(case_line(mode, root, [b"prog"] + ln + [w], len(ln) + 1))
    return out


def gen_terminators(mode):
    """value terminators and partially filled multi-valued arguments (finding C18-value-terminator): an option with
    `num_args(lo..=hi)` and a `value_terminator`, a multi-valued positional with one, a subcommand behind them; lines
    with 0..hi values, with and without the terminator, followed by a flag, a subcommand name or nothing - every
    count around the bounds of the range x terminator present / absent x continuation x word under the cursor"""
    def arg(id_, *items):
        return "(arg %s%s)" % (h(id_), "".join(" " + x for x in items))
    out = []
    sub = "(sub (cmd %s %s))" % (h(b"sub"), arg(b"so", "(long %s)" % h(b"so"), "(short %d)" % ord("s"), "(action settrue)"))
    words = (b"", b"-", b"--", b"--s", b"--p", b"s", b";")
    for lo, hi in ((1, 3), (0, 2), (2, 2), (1, "inf")):
        for prec in (False, True):
            # the option
            root = "(cmd %s%s %s %s %s)" % (
                h(b"p"), " (set subcommand_precedence_over_arg)" if prec else "",
                arg(b"pf", "(long %s)" % h(b"pf"), "(short %d)" % ord("f"), "(action settrue)"),
                arg(b"opt", "(long %s)" % h(b"opt"), "(short %d)" % ord("o"), "(action set)", "(num %s %s)" % (lo, hi), "(term %s)" % h(b";")),
                sub)
            top = 4 if hi == "inf" else hi + 1
            for k in range(0, top + 1):
                vals = [b"v%d" % j for j in range(k)]
                for head in ([b"--opt"], [b"-o"], [b"-fo"]):
                    for tail in ([], [b";"], [b";", b"sub"], [b"--pf"], [b";", b"--pf"], [b"sub"], [b";", b";"]):
                        ln = head + vals + tail
                        for w in words:
                            out.append(case_line(mode, root, [b"prog"] + ln + [w], len(ln) + 1))
        # the positional (multi-valued positionals must come last: no low-index multiples here)
        for with_src in (False, True):
            args = [arg(b"pf", "(long %s)" % h(b"pf"), "(short %d)" % ord("f"), "(action settrue)")]
            idx = 1
            if with_src:
                args.append(arg(b"src", "(index 1)", "(action set)", "(term %s)" % h(b";")))
                idx = 2
            args.append(arg(b"files", "(index %d)" % idx, "(action set)", "(num %s %s)" % (max(lo, 1), hi), "(term %s)" % h(b";")))
            root = "(cmd %s %s %s)" % (h(b"p"), " ".join(args), sub)
            top = 4 if hi == "inf" else hi + 1
            for k in range(0, top + 1):
                vals = [b"v%d" % j for j in range(k)]
                for tail in ([], [b";"], [b";", b"sub"], [b"--pf"], [b";", b"--pf"], [b"sub"], [b";", b";"], [b";", b"x", b";", b"sub"]):
                    ln = vals + tail
                    for w in words:
                        out.append(case_line(mode, root, [b"prog"] + ln + [w], len(ln) + 1))
    return out


def gen_reqeq(mode):
    """require_equals (finding C18-require-equals): an option that requires `=` with 0..=1 / exactly 1 / 0..=2 values, given with and
    without `=`, long and short, followed by a value-looking word, a subcommand name, a flag or nothing x the word under the cursor"""
    def arg(id_, *items):
        return "(arg %s%s)" % (h(id_), "".join(" " + x for x in items))
    out = []
    sub = "(sub (cmd %s %s))" % (h(b"sub"), arg(b"so", "(long %s)" % h(b"so"), "(short %d)" % ord("s"), "(action settrue)"))
    words = (b"", b"-", b"--", b"--s", b"--p", b"s", b"v", b"--opt=")
    for lo, hi in ((0, 1), (1, 1), (0, 2)):
        root = "(cmd %s %s %s %s %s)" % (
            h(b"p"),
            arg(b"pf", "(long %s)" % h(b"pf"), "(short %d)" % ord("f"), "(action settrue)"),
            arg(b"opt", "(long %s)" % h(b"opt"), "(short %d)" % ord("o"), "(action set)", "(num %d %d)" % (lo, hi), "(flags reqeq)",
                "(x-pv (%s v) (%s v))" % (h(b"va"), h(b"vb"))),
            arg(b"file", "(action set)"),
            sub)
        for head in ([b"--opt"], [b"-o"], [b"-fo"], [b"--opt=va"], [b"-o=va"], [b"--opt="], [b"-ova"]):
            for tail in ([], [b"va"], [b"sub"], [b"--pf"], [b"x", b"sub"], [b"sub", b"--so"]):
                ln = head + tail
                for w in words:
                    out.append(case_line(mode, root, [b"prog"] + ln + [w], len(ln) + 1))
    return out


def gen_precedence(mode):
    out = []
    lines = [[b"run", b"a", b"build"], [b"run", b"build"], [b"a", b"run"], [b"a", b"run", b"b", b"build"],
             [b"run", b"a", b"b", b"build"], [b"run", b"-v", b"a", b"build"], [b"run"], [b"a"], [b"run", b"a"],
             [b"-q", b"run", b"a", b"build", b"--release"]]
    words = [b"", b"-", b"--", b"--r", b"--j", b"--t", b"b", b"r", b"-t"]
    for c in precedence_commands():
        for ln in lines:
            for w in words:
                out.append(case_line(mode, c, [b"prog"] + ln + [w], len(ln) + 1))
    return out


def gen_paths():
    """value hints reach the path completers of engine/custom.rs (not modelled: their candidates are file names); the
    property's first sentence still covers them: a candidate list or a plain error, never a panic -- for every word,
    in particular `.`, `..`, `x/..`, a trailing slash, the empty word (seeded change seed2/C18-2)"""
    def arg(id_, *items):
        return "(arg %s%s)" % (h(id_), "".join(" " + x for x in items))
    out = []
    words = [b"", b".", b"..", b"../", b"./", b"sub/..", b"sub/.", b"sub/", b"sub", b"su", b"a.t", b"/", b"//", b"sub/deep/..",
             b".h", b"-dash", b"\xff", b"sub/\xff", b"~", b"nope/..", b"...", b"sub/b"]
    for hint in ("AnyPath", "FilePath", "DirPath", "ExecutablePath", "Other"):
        c = "(cmd %s %s %s %s %s)" % (
            h(b"p"),
            arg(b"input", "(long %s)" % h(b"input"), "(short %d)" % ord("i"), "(action set)", "(x-hint %s)" % hint),
            arg(b"many", "(long %s)" % h(b"many"), "(action append)", "(num 1 inf)", "(delim 44)", "(x-hint %s)" % hint),
            arg(b"flag", "(short %d)" % ord("f"), "(action settrue)"),
            arg(b"file", "(x-hint %s)" % hint, "(num 0 inf)"))
        for w in words:
            for line in ([b"--input", w], [b"--input=" + w], [b"-i", w], [b"-i" + w], [b"-fi" + w], [w], [b"x", w], [b"--", w],
                         [b"--many", b"a", w], [b"--many=a," + w]):
                out.append(case_line("dynpath", c, [b"prog"] + line, len(line)))
    # value delimiters that are not one byte wide: the word under the cursor is split behind the LAST delimiter, at a character
    # boundary (seeded change seed4/C18-1 assumed a one-byte delimiter and sliced inside it: panic)
    for d in (0x3001, 0xE9, 0x1F600, ord(",")):
        ds = chr(d).encode("utf-8")
        c = "(cmd %s %s %s %s)" % (
            h(b"p"),
            arg(b"tags", "(long %s)" % h(b"tags"), "(short %d)" % ord("t"), "(action append)", "(num 1 inf)", "(delim %d)" % d,
                "(x-pv (%s v) (%s v) (%s v))" % (h(b"alpha"), h(b"beta"), h("b\u00e9ta".encode("utf-8")))),
            arg(b"flag", "(long %s)" % h(b"verbose"), "(action settrue)"),
            arg(b"names", "(num 0 inf)", "(delim %d)" % d, "(x-pv (%s v) (%s v))" % (h(b"ann"), h(b"bob"))))
        for w in (b"", b"al", b"alpha" + ds, b"alpha" + ds + b"be", ds, ds + ds, b"alpha" + ds + b"beta" + ds + b"b", b"a" + ds[:1],
                  "b\u00e9".encode("utf-8"), b"ann" + ds + b"b", b"x" + ds + ds + b"a"):
            for line in ([b"--tags", w], [b"--tags=" + w], [b"-t", w], [b"-t" + w], [w], [b"--verbose", w], [b"ann", w], [b"--", w]):
                out.append(case_line("dynpath", c, [b"prog"] + line, len(line)))
    return out


def gen_behind_help(mode):
    """the level behind the generated `help` subcommand, on the fixed commands (one of which has a hidden subcommand)"""
    out = []
    for c in fixed_commands():
        for w in (b"", b"h", b"s", b"hi", b"su", b"he", b"x"):
            out.append(case_line(mode, c, [b"prog", b"help", w], 2))
            out.append(case_line(mode, c, [b"prog", b"help", b"sub", w], 3))
    return out


def gen_pending(mode):
    """directed family: an option spelling, then any token (its value, or not), then the word under the
    cursor - every (pending option x token shape x word) combination on the fixed commands"""
    out = []
    heads = [b"--opt", b"-o", b"-fo", b"--two", b"--optv", b"--flag", b"v"]
    words = [b"", b"-", b"--", b"--s", b"--o", b"s", b"-f", b"v"]
    for c in fixed_commands():
        for t1 in heads:
            for t2 in ALPHABET:
                for w in words:
                    out.append(case_line(mode, c, [b"prog", t1, t2, w], 3))
    return out


def shape(w):
    if w is None:
        return "none"
    if w == b"":
        return "empty"
    if w == b"-":
        return "dash"
    if w == b"--":
        return "escape"
    try:
        w.decode("utf-8")
    except UnicodeDecodeError:
        return "nonutf8"
    if w.startswith(b"--"):
        return "long=" if b"=" in w else "long"
    if w.startswith(b"-"):
        return "negnum" if w[1:2].isdigit() else "short"
    return "plain"


def order_stats(cases):
    """how often the final sort matters: cases with >= 2 candidates, and cases in which the sorted list differs from the
    generation order (model driver: `dynorder` against `dyn`)"""
    mbin = os.path.join(core.ROOT, "ocaml", "bin", "dynamic")
    if not os.path.exists(mbin):
        return {}
    a = core.run_cases(mbin, cases, "C18.ordstat.a")
    b = core.run_cases(mbin, ["(dyn" + c[len("(dynorder"):] for c in cases], "C18.ordstat.b")
    two = sum(1 for x in a if x and x.count("(") >= 2)
    diff = sum(1 for x, y in zip(a, b) if x != y)
    return {"cases": len(cases), "at least two candidates": two, "sorted order differs from generation order": diff}


def coverage(cases, tag):
    """ParseState (from the model driver's `dynstate` mode) x shape of the word under the cursor"""
    mbin = os.path.join(core.ROOT, "ocaml", "bin", "dynamic")
    if not os.path.exists(mbin):
        return {"note": "model driver not built when the streams were generated"}
    probe = []
    for c in cases:
        k = c.index(" ")
        probe.append("(dynstate" + c[k:])
    res = core.run_cases(mbin, probe, "C18.cov.%s" % tag)
    mat = {}
    for c, r in zip(cases, res):
        _, argv, index = decode_case(c)
        w = argv[index] if index < len(argv) else None
        st = (r or "abort").split(" ")
        key = st[0] if st[0] != "at" else "%s/%s" % (st[2], st[3])
        k = "%s x %s" % (key, shape(w))
        mat[k] = mat.get(k, 0) + 1
    return dict(sorted(mat.items()))


def streams(tier, rng):
    quick = tier == "quick"
    dyn_cases = gen_random(rng, 120 if quick else 1500, 3, "dyn")
    st_cases = gen_states(rng, tier, "dyn", 2 if quick else 3, 400 if quick else 6000) + gen_precedence("dyn") + gen_argsconflict("dyn") + gen_terminators("dyn") + gen_reqeq("dyn")
    acc_cases = gen_random(rng, 60 if quick else 500, 2, "dynaccept", conventional=False) \
        + gen_random(rng, 80 if quick else 700, 2, "dynaccept", conventional=True) \
        + gen_states(rng, tier, "dynaccept", 1 if quick else 2, 250 if quick else 3000) \
        + gen_pending("dynaccept") + gen_precedence("dynaccept") + gen_argsconflict("dynaccept") + gen_terminators("dynaccept") + gen_reqeq("dynaccept") \
        + gen_behind_help("dynaccept")
    ord_cases = gen_order(rng, 60 if quick else 600, 3)
    return [
        Stream("dyn", dyn_cases, oracle=total_oracle, area="dynamic", project=project, nontrivial=nontrivial,
               describe={"state x word-shape": coverage(dyn_cases, "dyn")}),
        Stream("states", st_cases, oracle=total_oracle, area="dynamic", project=project, nontrivial=nontrivial,
               describe={"state x word-shape": coverage(st_cases, "states")}),
        Stream("accept", acc_cases, oracle=accept_oracle, area="dynamic", project=project, nontrivial=nontrivial,
               describe={"state x word-shape": coverage(acc_cases, "accept")}),
        Stream("order", ord_cases, oracle=total_oracle, area="dynamic", project=project_order, nontrivial=nontrivial,
               describe={"final sort": order_stats(ord_cases)}),
        Stream("paths", gen_paths(), oracle=total_oracle, area=None, nontrivial=lambda c, r: bool(r) and r.startswith("ok")),
    ]


def classify_known(stream, case, impl, failure):
    if isinstance(failure, str) and failure.endswith("[alias-without-primary]"):
        return "C18-alias-without-primary"
    if isinstance(failure, str) and failure.endswith("[low-index-multiples]"):
        return "C18-low-index-multiples"
    if isinstance(failure, str) and failure.endswith("[infer-subcommands]"):
        return "C18-infer-subcommands"
    if isinstance(failure, str) and failure.endswith("[infer-long-args]"):
        return "C18-infer-long-args"
    if isinstance(failure, str) and failure.endswith("[flag-subcommand]"):
        return "C18-flag-subcommands"
    return None
