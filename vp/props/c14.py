"""C14: OS-string helpers and the argument cursor behave like their simple models."""
import itertools

from ..core import hexs, unhex, sx_parse, sx_all
from ..runner import Stream

ID = "C14"
AREAS = ["lex"]
RULE = ("osstr: every haystack over the boundary alphabet {a,=,-,C3,A9,FF} up to a length bound x a fixed "
        "needle set (incl. empty, multi-byte, overlapping), plus random longer ones; cursor: random histories of "
        "next/peek/remaining/seek/insert/is_end with boundary offsets.  A case is non-trivial when the needle "
        "occurs in the haystack (osstr) or the history moves the cursor past the end or seeks with a non-zero "
        "offset (cursor); distinct = distinct case text.")
TRUSTED = [
    "Coq 8.16.1 kernel (coqc); no native_compute; theorems C14_* are 'Closed under the global context'",
    "extraction: ExtrOcamlBasic only, no Extract Constant; OCaml driver ocaml/lex_driver.ml + zarith conversions",
    "correspondence: vp/props/c14.py generators, harness/src/modes/lex.rs, string comparison of canonical results",
    "modelled not verified: Vec::splice / slice indexing / saturating_add / `as` casts of Rust core (Machine.v)",
]
ASSUMPTIONS = [
    "64-bit usize; OsStr = bytes (Unix)",
    "C14_cursor_refines assumes len + history size < 2^62 (a 64-bit counter cannot be driven further in practice)",
]

I64_MIN, I64_MAX, U64_MAX = -2**63, 2**63 - 1, 2**64 - 1


# ----------------------------------------------------------------- osstr
def py_osstr(h, n):
    find = h.find(n)
    f = "none" if find < 0 else "(some %d)" % find
    contains = "true" if find >= 0 else "false"
    sw = "true" if h.startswith(n) else "false"
    sp = "(some %s)" % hexs(h[len(n):]) if h.startswith(n) else "none"
    if find >= 0:
        so = "(some %s %s)" % (hexs(h[:find]), hexs(h[find + len(n):]))
    else:
        so = "none"
    if n == b"":
        spl = "panic"
    else:
        spl = "(" + " ".join(hexs(p) for p in h.split(n)) + ")"
    return "(find %s) (contains %s) (starts_with %s) (strip_prefix %s) (split_once %s) (split %s)" % (
        f, contains, sw, sp, so, spl)


def osstr_oracle(case, impl):
    v = sx_parse(case)
    h, n = unhex(v[1]), unhex(v[2])
    exp = py_osstr(h, n)
    if impl != exp:
        return "OsStrExt result differs from the byte-level operation: expected %s got %s" % (exp, impl)
    return None


def osstr_nontrivial(case, impl):
    return "(contains true)" in impl


def gen_osstr(tier, rng):
    alpha = [0x61, 0x3D, 0x2D, 0xC3, 0xA9, 0xFF]
    # needles of >= 3 bytes whose proper prefix overlaps itself ("aa=", "==a", "--a", "aab"): a search that skips
    # past a failed partial match misses the occurrence starting inside it ("aaa=".find("aa=") = 1)
    needles = [b"", b"=", b"a", b"==", b"a=", b"=a", "é".encode(), b"-", b"--", b"aa", b"a=a",
               b"aa=", b"==a", b"--a", b"aab", b"-->", b"a-a-"]
    maxlen = 4 if tier == "quick" else 6
    cases = []
    for L in range(maxlen + 1):
        for h in itertools.product(alpha, repeat=L):
            hb = bytes(h)
            for n in needles:
                if L == maxlen and tier == "quick" and rng.random() < 0.5:
                    continue
                cases.append("(osstr %s %s)" % (hexs(hb), hexs(n)))
    nrand = 1500 if tier == "quick" else 40000
    for _ in range(nrand):
        L = rng.choice([0, 1, 2, 3, 5, 8, 13, 21, 40])
        hb = bytes(rng.choice(alpha + [0x62, 0xE2, 0x82, 0xAC]) for _ in range(L))
        if rng.random() < 0.5 and L >= 2:
            a = rng.randrange(L)
            b = min(L, a + rng.choice([1, 1, 2, 3]))
            nb = hb[a:b]
            try:
                nb.decode("utf-8")
            except UnicodeDecodeError:
                nb = rng.choice(needles)
        else:
            nb = rng.choice(needles)
        cases.append("(osstr %s %s)" % (hexs(hb), hexs(nb)))
    return cases


# ----------------------------------------------------------------- cursor
def py_cursor(items, ops):
    """Ideal model from the property text: an index into a growable list, never out of bounds."""
    items = list(items)
    idx = 0
    outs = []

    def item(i):
        return "(some %s)" % hexs(items[i]) if 0 <= i < len(items) else "none"
    for op in ops:
        k = op[0]
        if k == "next":
            outs.append(item(idx))
            idx += 1
        elif k == "peek":
            outs.append(item(idx))
        elif k == "remaining":
            outs.append("(" + " ".join(hexs(x) for x in items[min(idx, len(items)):]) + ")")
            idx = len(items)
        elif k == "is_end":
            outs.append("true" if idx >= len(items) else "false")
        elif k == "seek_start":
            idx = min(int(op[1]), len(items))
            outs.append("unit")
        elif k == "seek_end":
            idx = min(max(len(items) + int(op[1]), 0), len(items))
            outs.append("unit")
        elif k == "seek_cur":
            idx = min(max(idx + int(op[1]), 0), len(items))
            outs.append("unit")
        elif k == "insert":
            at = min(idx, len(items))
            items[at:at] = [unhex(x) for x in op[1:]]
            outs.append("unit")
    return " ".join(outs)


def cursor_oracle(case, impl):
    v = sx_parse(case)
    items = [unhex(x) for x in v[1]]
    exp = py_cursor(items, v[2])
    if impl != exp:
        return "cursor history differs from the index-into-a-list model: expected [%s] got [%s]" % (exp, impl)
    return None


def cursor_nontrivial(case, impl):
    return "none" in impl or "seek" in case


def gen_cursor(tier, rng):
    cases = []
    n = 3000 if tier == "quick" else 60000
    pool = [b"a", b"--", b"-b", b"", b"\xff", b"sub", b"--opt=v"]
    for _ in range(n):
        ln = rng.choice([0, 1, 1, 2, 3, 5])
        items = [rng.choice(pool) for _ in range(ln)]
        ops = []
        cur_len = ln
        for _ in range(rng.choice([1, 2, 3, 5, 8, 12])):
            r = rng.random()
            if r < 0.30:
                ops.append("(next)")
            elif r < 0.38:
                ops.append("(peek)")
            elif r < 0.50:
                ops.append("(remaining)")
            elif r < 0.58:
                ops.append("(is_end)")
            elif r < 0.72:
                k = rng.randrange(0, 3)
                xs = [rng.choice(pool) for _ in range(k)]
                cur_len += k
                ops.append("(insert %s)" % " ".join(hexs(x) for x in xs) if xs else "(insert)")
            else:
                kind = rng.choice(["seek_start", "seek_end", "seek_cur"])
                if kind == "seek_start":
                    off = rng.choice([0, 1, cur_len, cur_len + 1, max(cur_len - 1, 0), U64_MAX, 2**63, 2**63 - 1, rng.randrange(0, 8)])
                else:
                    off = rng.choice([0, 1, -1, cur_len, -cur_len, cur_len + 1, -(cur_len + 1), I64_MIN, I64_MAX,
                                      rng.randrange(-6, 7)])
                ops.append("(%s %d)" % (kind, off))
        cases.append("(cursor (%s) (%s))" % (" ".join(hexs(x) for x in items), " ".join(ops)))
    return cases


def streams(tier, rng):
    return [
        Stream("osstr", gen_osstr(tier, rng), oracle=osstr_oracle, area="lex", nontrivial=osstr_nontrivial),
        Stream("cursor", gen_cursor(tier, rng), oracle=cursor_oracle, area="lex", nontrivial=cursor_nontrivial),
    ]


def classify_known(stream, case, impl, failure):
    return None

TECHNIQUE = "Coq proof (refinement of OsStrExt/RawArgs models to list specs) + extracted-model/implementation correspondence"
LEVEL_TEXT = ("Machine-checked theorems (Coq 8.16, closed under the global context) that the model of OsStrExt "
              "find/contains/starts_with/strip_prefix/split_once/split equals the byte-list specification for every "
              "haystack and needle, and that the machine-integer model of the RawArgs cursor refines an unbounded "
              "index into a growable list for every operation history and never reads out of bounds; the model is "
              "tied to clap_lex by running the extracted model and the real crate on the same generated cases on "
              "every check, and an independent python oracle is applied to the implementation's output.")
LEVEL_NOTE = ("Trusted: Coq kernel, extraction (ExtrOcamlBasic), OCaml driver, Rust harness, generators; Rust core "
              "(Vec, slices, integer casts) modelled by Machine.v; history size < 2^62 in the cursor theorem.")
