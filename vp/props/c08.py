"""C08: equivalent spellings of the same invocation parse to identical matches.

Metamorphic check on the implementation: a base command line A is generated from the command
spec, a python scan of A (written from clap's documented grammar, independent of the Coq model)
lists the places where an equivalent spelling exists, 1-3 of them are applied giving B, and both
lines are parsed by the real crate (`respell` mode).  Oracle: if A succeeds, B's result is identical
(ids, sources, indices, raw occurrences, subcommand chain).  `ambig` rewrites replace a long flag /
subcommand name by a prefix that extends >= 2 candidates (no exact match): if A succeeds, B must fail.
"""
from collections import Counter

from .. import gen_cmd
from ..core import hexs, sx_parse, unhex
from ..parse_common import parse_result
from ..parse_streams import cmd_of_sx, GLOBAL_SETTINGS
from ..runner import Stream

ID = "C08"
AREAS = ["c08"]
RULE = ("A command tree (vp/gen_cmd.py, inference and alias rates raised, extra visible/hidden aliases and "
        "long-flag aliases added) and a mostly-valid argv A rendered from an invocation; B = A after 1-3 random "
        "applicable rewrites found by a python scan of A against the spec (=/space, short attached/=/space, cluster "
        "split/join, alias<->name for args, short aliases, subcommands and flag-subcommand aliases, unique prefixes "
        "under infer_long_args/infer_subcommands, `--` before the trailing positionals) or one ambiguous-prefix "
        "replacement.  Non-trivial: A parses successfully and B differs from A textually; distinct by case text.")
TRUSTED = [
    "Coq 8.16.1 kernel (coqc); theorems C08_* are 'Closed under the global context'",
    "extraction: ExtrOcamlBasic only, no Extract Constant; OCaml driver ocaml/c08_driver.ml + common_parse/{spec,show}.ml",
    "correspondence: harness/src/modes/{c08,parse}.rs against /repo's working tree; string comparison of projections",
    "python scan of the command line (vp/props/c08.py) decides where a rewrite is applicable; it is conservative "
    "(unknown token shape => no further rewrites)",
]
ASSUMPTIONS = [
    "rewrites are applied only at levels without allow_hyphen_values/allow_negative_numbers args, value terminators, "
    "allow_missing_positional, low-index multiples, args_conflicts_with_subcommands (the conventional class)",
    "=/space and attached/space rewrites only for options taking at most one value, without require_equals, "
    "value not starting with '-'",
    "step-level theorems are about parse_opt_value/short_loop/lookup functions for all states; whole-line theorems "
    "(ParseProofs/SpellingLine.v) are for one rewritten occurrence at an arbitrary loop/parser state of a named class "
    "with an ARBITRARY rest of the line, lifted to parse_top for an occurrence at the head of the line (and behind a "
    "prefix of separate flag tokens for `--opt v`/`--opt=v`); classes: subcommand_precedence_over_arg off, ignore_errors "
    "off (parse_top level), single-valued option without require_equals whose id is not a positional's, value token not "
    "`--`/long/short-looking and not the terminator, the occurrence itself accepted (`--opt=<bad> --zzz` and "
    "`--opt <bad> --zzz` report different errors: C08_spelling_needs_success_witness, confirmed on the implementation), "
    "short spellings/clusters at ParseState::ValuesDone with no hyphen/negative-number positional at the counter, flag_subcmd_skip = 0, "
    "and (clusters, short aliases) no short flag-subcommands; compositions of rewrites, occurrences behind arbitrary "
    "prefixes, inside subcommands, subcommand alias/prefix at the loop level and `--` insertion remain differential",
]

EXTRA_LONGS = ["alpine", "betamax", "optional", "outer", "colour", "gam", "gamut", "abacus", "oo", "colt"]
EXTRA_SUBS = ["subway", "runner", "tester", "adder", "rum", "tea", "hxx", "suite"]
EXTRA_LFLAGS = ["alphabet", "bet", "optic", "output", "collect", "gamble"]


# ---------------------------------------------------------------- command post-processing
def decorate(rng, c, used):
    """add aliases (visible and hidden) from pools disjoint from gen_cmd's names; each pool name is used
    at most once in the whole tree, so no new collisions can arise"""
    def take(pool):
        cand = [x for x in pool if x not in used]
        if not cand:
            return None
        x = cand[rng.randrange(len(cand))]
        used.add(x)
        return x
    for a in c["args"]:
        if a.get("long") and rng.random() < 0.35:
            n = take(EXTRA_LONGS)
            if n:
                a.setdefault("aliases", [])
                a["aliases"] = list(a["aliases"]) + [(n.encode(), rng.random() < 0.5)]
    for s in c["subs"]:
        if rng.random() < 0.4:
            n = take(EXTRA_SUBS)
            if n:
                s["aliases"] = list(s.get("aliases", [])) + [(n.encode(), rng.random() < 0.5)]
        if s.get("long_flag") and rng.random() < 0.5:
            n = take(EXTRA_LFLAGS)
            if n:
                s["long_flag_aliases"] = list(s.get("long_flag_aliases", [])) + [(n.encode(), rng.random() < 0.5)]
        decorate(rng, s, used)


# ---------------------------------------------------------------- the level view of a command
def takes_value(a):
    act = a.get("action")
    if act in ("settrue", "setfalse", "count", "help", "helpshort", "helplong", "version"):
        return False
    if a.get("num") is not None:
        return a["num"][1] is None or a["num"][1] > 0
    return True


def is_opt(a):
    return bool(a.get("short") or a.get("long"))


def num_of(a):
    return a["num"] if a.get("num") is not None else (1, 1)


def pos_is_multiple(a):
    lo, hi = num_of(a)
    multiple_values = (lo != hi) or lo > 1 if hi is not None else True
    act = a.get("action")
    if act is None:
        act = "append" if (a.get("num") is not None and hi is None) else "set"
    return multiple_values or act == "append"


class Level:
    def __init__(self, cmd, inh_settings, inh_globals):
        self.cmd = cmd
        self.settings = set(cmd["settings"]) | set(inh_settings)
        own_ids = {a["id"] for a in cmd["args"]}
        self.args = list(cmd["args"]) + [g for g in inh_globals if g["id"] not in own_ids]
        self.own = list(cmd["args"])
        self.opts = [a for a in self.args if is_opt(a)]
        self.pos = [a for a in cmd["args"] if not is_opt(a)]
        if any(a.get("index") is not None for a in self.pos):
            self.pos.sort(key=lambda a: a.get("index") or 0)
        self.longs = {}     # name -> arg
        self.shorts = {}
        for a in self.opts:
            for n in self.long_names(a):
                self.longs.setdefault(n, a)
            for s in self.short_names(a):
                self.shorts.setdefault(s, a)
        self.subs = list(cmd["subs"])
        self.has_help_sub = bool(self.subs) and "disable_help_subcommand" not in self.settings
        self.child_settings = self.settings & GLOBAL_SETTINGS
        self.child_globals = [a for a in self.args if "global" in a["flags"]]
        multi_before_last = any(pos_is_multiple(p) for p in self.pos[:-1])
        self.unsafe = (any(("hyphen" in a["flags"] or "negnum" in a["flags"] or a.get("term") is not None)
                           for a in self.args)
                       or "allow_missing_positional" in self.settings
                       or "args_conflicts_with_subcommands" in self.settings
                       or multi_before_last)

    @staticmethod
    def long_names(a):
        return ([a["long"]] if a.get("long") else []) + [n for n, _ in a.get("aliases", [])]

    @staticmethod
    def short_names(a):
        return ([a["short"]] if a.get("short") else []) + [n for n, _ in a.get("saliases", [])]

    @staticmethod
    def sub_names(s):
        return [s["name"]] + [n for n, _ in s.get("aliases", [])]

    @staticmethod
    def lflag_names(s):
        return ([s["long_flag"]] if s.get("long_flag") else []) + [n for n, _ in s.get("long_flag_aliases", [])]

    def possible_subcommand(self, tok):
        """the documented resolution: a unique prefix candidate when inference is on, else the exact name/alias.
        Returns the sub dict, the string 'help', or None."""
        try:
            tok.decode("utf-8")
        except UnicodeDecodeError:
            return None
        cands = [(s, self.sub_names(s)) for s in self.subs]
        if self.has_help_sub:
            cands.append(("help", [b"help"]))
        if "infer_subcommands" in self.settings:
            hit = [s for s, ns in cands if any(n.startswith(tok) for n in ns)]
            if len(hit) == 1:
                return hit[0]
        for s, ns in cands:
            if tok in ns:
                return s
        return None

    # conservative candidate name lists for prefix computations (help/version always counted)
    def all_long_names(self):
        out = [(n, a["id"]) for a in self.opts for n in self.long_names(a)]
        return out + [(b"help", b"help"), (b"version", b"version")]

    def all_sub_names(self):
        out = [(n, s["name"]) for s in self.subs for n in self.sub_names(s)]
        return out + [(b"help", b"help")]

    def shadowed(self, n):
        """is the exact long flag-subcommand name `n` taken by argument inference first?  (parse_long_arg
        looks for an inferred argument before it looks at flag subcommands.)  None = cannot tell."""
        if "infer_long_args" not in self.settings:
            return False
        if b"help".startswith(n) or b"version".startswith(n):
            return None
        r = {a["id"] for a in self.opts if any(x.startswith(n) for x in self.long_names(a))}
        return len(r) == 1

    def all_lflag_names(self):
        return [(n, s["name"]) for s in self.subs for n in self.lflag_names(s)]


def unique_prefixes(name, owner, table):
    """proper non-empty prefixes p of `name` such that every name of `table` starting with p belongs to `owner`"""
    out = []
    for k in range(1, len(name)):
        p = name[:k]
        if all(o == owner for n, o in table if n.startswith(p)):
            out.append(p)
    return out


def ambiguous_prefixes(name, owner, own_table, full_table):
    """proper non-empty prefixes p of `name`: some *other* owner of own_table has a name starting with p, and no
    name of full_table equals p"""
    out = []
    for k in range(1, len(name)):
        p = name[:k]
        if any(n == p for n, _ in full_table):
            continue
        if any(o != owner and n.startswith(p) for n, o in own_table):
            out.append(p)
    return out


# ---------------------------------------------------------------- scanning a command line for rewrite sites
def scan(cmd, argv):
    """-> list of (kind, new_argv).  Conservative mirror of the documented grammar; any token shape it
    does not understand ends the scan (sites found so far stay valid: rewrites are local)."""
    sites = []
    i = 0 if "no_binary_name" in cmd["settings"] else 1
    inh_s, inh_g = set(), []
    cur = cmd

    def rep(i, n, new, kind):
        sites.append((kind, argv[:i] + list(new) + argv[i + n:]))

    while True:
        L = Level(cur, inh_s, inh_g)
        if L.unsafe:
            return sites
        S = L.settings
        sub_prec = "subcommand_precedence_over_arg" in S
        pst = "done"          # done | opt | pos
        opt_a, opt_taken = None, 0
        pc = 0
        pos_suffix_start = None   # index of the first token of the current run of positional values
        clusters = {}             # token index -> True when the token is a cluster of value-less flags only
        descended = False

        def value_ok(v, a):
            if v.startswith(b"-"):
                return False
            if sub_prec and L.possible_subcommand(v) is not None:
                return False
            return True

        while i < len(argv):
            tok = argv[i]
            if pst == "opt" and not tok.startswith(b"-"):
                if sub_prec and L.possible_subcommand(tok) is not None:
                    return sites
                lo, hi = num_of(opt_a)
                # `--name v` / `-o v`  ->  `--name=v` / `-o=v` / `-ov`
                if opt_taken == 0 and hi == 1 and "reqeq" not in opt_a["flags"]:
                    prev = argv[i - 1]
                    if prev.startswith(b"--"):
                        rep(i - 1, 2, [prev + b"=" + tok], "long sp->eq")
                    else:
                        rep(i - 1, 2, [prev + b"=" + tok], "short sp->eq")
                        if tok and not tok.startswith(b"="):
                            rep(i - 1, 2, [prev + tok], "short sp->attached")
                opt_taken += 1
                if hi is not None and opt_taken >= hi:
                    pst = "done"
                pos_suffix_start = None
                i += 1
                continue
            if pst == "opt":
                pst = "done"
            if tok == b"--":
                return sites          # everything after is positional; nothing more to respell
            if tok == b"-":
                return sites
            if tok.startswith(b"--"):
                pos_suffix_start = None
                pst = "done"      # after any flag the parser is back in ValuesDone (or Opt)
                body = tok[2:]
                name, eq, val = body.partition(b"=")
                a = L.longs.get(name)
                if a is None:
                    if "infer_long_args" in S and any(n.startswith(name) for n, _ in L.all_long_names()):
                        return sites      # an inferred argument (or ambiguous): not a spelling this scan starts from
                    # exact long flag of a subcommand?
                    hit = [s for s in L.subs if name in L.lflag_names(s)]
                    if hit and not eq:
                        s = hit[0]
                        for n in L.lflag_names(s):
                            if n != name:
                                sh = L.shadowed(n)
                                if sh is False:
                                    rep(i, 1, [b"--" + n], "long-flag-sub alias")
                                elif sh is True:
                                    rep(i, 1, [b"--" + n], "KNOWN long-flag-sub alias shadowed by an inferred arg")
                        if "infer_subcommands" in S:
                            argtab = L.all_long_names()
                            for p in unique_prefixes(name, s["name"], L.all_lflag_names()):
                                if "infer_long_args" in S:
                                    if any(n.startswith(p) for n, _ in argtab):
                                        continue
                                elif any(n == p for n, _ in argtab):
                                    continue
                                rep(i, 1, [b"--" + p], "long-flag-sub prefix")
                        inh_s, inh_g, cur = L.child_settings, L.child_globals, s
                        i += 1
                        descended = True
                        break
                    return sites
                tail = (b"=" + val) if eq else b""
                for n in L.long_names(a):
                    if n != name:
                        rep(i, 1, [b"--" + n + tail], "long alias")
                if "infer_long_args" in S:
                    tab = L.all_long_names()
                    for p in unique_prefixes(name, a["id"], tab):
                        rep(i, 1, [b"--" + p + tail], "long prefix")
                    own = [(n, x["id"]) for x in L.own if is_opt(x) for n in L.long_names(x)]
                    for p in ambiguous_prefixes(name, a["id"], own, tab):
                        if any(n.startswith(p) for n, _ in L.all_lflag_names()):
                            continue
                        rep(i, 1, [b"--" + p + tail], "AMBIG long prefix")
                if not takes_value(a):
                    if eq:
                        return sites
                    i += 1
                    continue
                lo, hi = num_of(a)
                if eq:
                    if hi == 1 and "reqeq" not in a["flags"] and value_ok(val, a):
                        rep(i, 1, [b"--" + name, val], "long eq->sp")
                    i += 1
                    continue
                if "reqeq" in a["flags"]:
                    if lo == 0:
                        i += 1
                        continue
                    return sites
                pst, opt_a, opt_taken = "opt", a, 0
                i += 1
                continue
            if tok.startswith(b"-"):
                pos_suffix_start = None
                pst = "done"
                body = tok[1:]
                try:
                    chars = body.decode("ascii")
                except UnicodeDecodeError:
                    return sites
                # single short flag of a subcommand
                if len(chars) == 1 and chars not in L.shorts:
                    hit = [s for s in L.subs if s.get("short_flag") == chars
                           or chars in [n for n, _ in s.get("short_flag_aliases", [])]]
                    if hit:
                        inh_s, inh_g, cur = L.child_settings, L.child_globals, hit[0]
                        i += 1
                        descended = True
                        break
                    return sites
                k = 0
                all_flags = True
                ended = False
                while k < len(chars):
                    ch = chars[k]
                    a = L.shorts.get(ch)
                    if a is None:
                        return sites
                    if "reqeq" in a["flags"]:
                        return sites
                    for n in L.short_names(a):
                        if n != ch:
                            rep(i, 1, [b"-" + (chars[:k] + n + chars[k + 1:]).encode()], "short alias")
                    if k > 0:
                        rep(i, 1, [b"-" + chars[:k].encode(), b"-" + chars[k:].encode()], "cluster split")
                    if not takes_value(a):
                        k += 1
                        continue
                    all_flags = False
                    rest = body[k + 1:]
                    lo, hi = num_of(a)
                    head = b"-" + chars[:k + 1].encode()
                    if not rest:
                        pst, opt_a, opt_taken = "opt", a, 0
                    else:
                        v = rest[1:] if rest.startswith(b"=") else rest
                        if hi == 1:
                            if rest.startswith(b"="):
                                if v and not v.startswith(b"="):
                                    rep(i, 1, [head + v], "short eq->attached")
                            else:
                                rep(i, 1, [head + b"=" + v], "short attached->eq")
                            if value_ok(v, a):
                                rep(i, 1, [head, v], "short attached->sp")
                    ended = True
                    break
                if all_flags:
                    clusters[i] = True
                    if clusters.get(i - 1):
                        rep(i - 1, 2, [argv[i - 1] + body], "cluster join")
                elif clusters.get(i - 1):
                    rep(i - 1, 2, [argv[i - 1] + body], "cluster join")
                i += 1
                continue
            # ---- a token that does not look like a flag
            if pst == "done" or sub_prec:
                s = L.possible_subcommand(tok)
                if s == "help":
                    return sites
                if s is not None:
                    for n in L.sub_names(s):
                        if n != tok:
                            rep(i, 1, [n], "sub alias")
                    if "infer_subcommands" in S:
                        tab = L.all_sub_names()
                        for full in L.sub_names(s):
                            for p in unique_prefixes(full, s["name"], tab):
                                if p != tok:
                                    rep(i, 1, [p], "sub prefix")
                        if not L.pos and "allow_external_subcommands" not in S and not cur.get("ext"):
                            for full in L.sub_names(s):
                                if full.startswith(tok) or tok.startswith(full):
                                    real = [(n, x["name"]) for x in L.subs for n in L.sub_names(x)]
                                    if L.has_help_sub:
                                        real.append((b"help", b"help"))
                                    for p in ambiguous_prefixes(full, s["name"], real, tab):
                                        rep(i, 1, [p], "AMBIG sub prefix")
                    inh_s, inh_g, cur = L.child_settings, L.child_globals, s
                    i += 1
                    descended = True
                    break
            if pc >= len(L.pos):
                return sites
            p = L.pos[pc]
            if "last" in p["flags"]:
                return sites
            if "tva" in p["flags"]:
                return sites
            if pos_suffix_start is None:
                pos_suffix_start = i
            if pos_is_multiple(p):
                pst = "pos"
            else:
                pst = "done"
                pc += 1
            i += 1
        if descended:
            continue
        # end of the line at this level: `--` may be put before any token of the trailing run of positionals
        if (pos_suffix_start is not None and "dont_delimit_trailing_values" not in S
                and not any("last" in p["flags"] or "tva" in p["flags"] for p in L.pos)):
            for j in range(pos_suffix_start, len(argv)):
                sites.append(("insert --", argv[:j] + [b"--"] + argv[j:]))
        return sites


# ---------------------------------------------------------------- generation
PROFILE = dict(hyphen=0.03, terminators=0.03, low_index=0.02, relations=0.08, groups=0.12, invalid=0.01,
               ignore_errors=0.02, infer=0.5, aliases=0.55, external=0.05, last=0.06, tva=0.05,
               require_equals=0.06, flag_subs=0.35, settings=0.08, typed=0.1, env=0.1)


def respell_sx(c, a, b):
    return "(respell %s (argv%s) (argv%s))" % (gen_cmd.cmd_sx(c), "".join(" " + hexs(t) for t in a),
                                               "".join(" " + hexs(t) for t in b))


# ------------------------------------------------------------------ directed pairs outside the scan's class
import hashlib as _hashlib
import re

EQ_RE = re.compile(r" \(x-equal (\w+)\)")


def mark_equal(case):
    """`(x-equal SUM)` inside the command spec (ignored by both builders): the two lines are spellings of one invocation
    by construction.  The checksum covers the rest of the case, so a shrunk or edited case loses the claim."""
    h = _hashlib.sha1(case.encode()).hexdigest()[:12]
    i = case.index(") (argv")
    return case[:i] + " (x-equal %s)" % h + case[i:]


def marked_equal(case):
    m = EQ_RE.search(case)
    if not m:
        return False
    plain = case[:m.start()] + case[m.end():]
    return _hashlib.sha1(plain.encode()).hexdigest()[:12] == m.group(1)


def gen_directed_pairs():
    """alias <-> canonical name at levels whose current positional accepts hyphen values or negative numbers: the scan
    gives up on such levels (a dash-looking token may be a value), but a token whose every character is a defined short
    (resp. whose name is a defined long) IS that flag/option in ValuesDone state, under either spelling (seeded change
    C08-1: the pre-check of the cluster and the cluster walk must agree on aliases)."""
    out = []
    for posflag in ("hyphen", "negnum", None):
        pflags = {posflag} if posflag else set()
        c = {"name": b"p", "about": b"A:p", "groups": [], "aliases": [], "settings": [], "subs": [
                {"name": b"run", "about": b"A:run", "aliases": [(b"r", True), (b"exec", False)], "groups": [], "subs": [],
                 "settings": [], "args": [{"id": b"n", "short": "n", "saliases": [("N", True)], "action": "count", "flags": set()},
                                          {"id": b"rest", "num": (0, None), "flags": set(pflags)}]}],
             "args": [{"id": b"inv", "short": "v", "long": b"invert", "saliases": [("V", True), ("i", False)],
                       "aliases": [(b"inv", True), (b"flip", False)], "action": "settrue", "flags": set()},
                      {"id": b"q", "short": "q", "action": "count", "flags": set()},
                      {"id": b"out", "short": "o", "long": b"out", "saliases": [("O", False)], "aliases": [(b"output", True)],
                       "action": "set", "flags": set()},
                      {"id": b"pattern", "flags": set(pflags)}]}
        pairs = [([b"-V"], [b"-v"]), ([b"-i"], [b"-v"]), ([b"-qV", b"needle"], [b"-qv", b"needle"]),
                 ([b"-Vq"], [b"-vq"]), ([b"-qqi", b"x"], [b"-qqv", b"x"]), ([b"--inv", b"x"], [b"--invert", b"x"]),
                 ([b"--flip"], [b"--invert"]), ([b"-Oval"], [b"-oval"]), ([b"-O", b"val"], [b"-o", b"val"]),
                 ([b"-qOval", b"x"], [b"-qoval", b"x"]), ([b"--output=f", b"x"], [b"--out=f", b"x"]),
                 ([b"--output", b"f"], [b"--out", b"f"]), ([b"x", b"-V"], [b"x", b"-v"]),
                 ([b"r", b"-N"], [b"run", b"-n"]), ([b"exec", b"-nN", b"a"], [b"run", b"-nn", b"a"]),
                 ([b"-V", b"r", b"-N", b"a"], [b"-v", b"run", b"-n", b"a"])]
        if posflag is None:
            # detached vs attached value of an option that allows negative numbers: every spelling of a number the
            # lexer documents (`-1`, `-1.`, `-2.5`, `-1e3`) is a VALUE in the detached form too (seeded change seed2/C08-3)
            c["args"].append({"id": b"scale", "short": "s", "long": b"scale", "action": "set", "flags": {"negnum"}})
            for num in (b"-1", b"-1.", b"-10.", b"-2.5", b"-1e3", b"-0", b"-3.e2"):
                # A is the attached spelling (never consults the lexer's number test), B the detached one
                pairs += [([b"--scale=" + num], [b"--scale", num]), ([b"-s" + num], [b"-s", num]),
                          ([b"-s=" + num, b"x"], [b"-s", num, b"x"])]
        for a, b in pairs:
            if posflag == "hyphen" and any(t in (b"-Oval", b"-qOval") for t in a):
                continue        # under a hyphen-value positional a cluster with an undefined character (`-Oval`) is a VALUE
            out.append(mark_equal(respell_sx(c, [b"prog"] + a, [b"prog"] + b)))
    # an explicit `--` before positionals that do not look like flags, at a level with low-index multiples
    # (`<sources>... <target>`) (seeded change seed2/C08-1: the look-ahead that moves
    # the current value to the next positional must not take the bare `--` for a new argument)
    cp = {"name": b"p", "about": b"A:p", "groups": [], "aliases": [], "settings": [], "subs": [],
          "args": [{"id": b"f", "short": "f", "action": "settrue", "flags": set()},
                   {"id": b"sources", "num": (1, None), "flags": {"required"}}, {"id": b"target", "flags": {"required"}}]}
    # (under allow_missing_positional `--` is NOT neutral: it is documented to skip to the last positional)
    for c, lines in ((cp, [([b"a", b"b", b"dest"], [b"a", b"b", b"--", b"dest"]), ([b"a", b"b", b"dest"], [b"--", b"a", b"b", b"dest"]),
                           ([b"a", b"b", b"dest"], [b"a", b"--", b"b", b"dest"]), ([b"-f", b"a", b"dest"], [b"-f", b"a", b"--", b"dest"]),
                           ([b"a", b"dest"], [b"a", b"--", b"dest"])]),):
        for a, b in lines:
            out.append(mark_equal(respell_sx(c, [b"prog"] + a, [b"prog"] + b)))
    # under infer_subcommands an EXACTLY typed alias is that subcommand, also when the alias is a prefix of its own
    # subcommand's name and a sibling shares the prefix (`st` = `status` beside `stash`; seeded change seed3/C08-3 looked
    # for the exact match only among the collected prefix candidates, one per subcommand)
    def sc(name, aliases):
        return {"name": name, "about": b"A:" + name, "aliases": aliases, "groups": [], "subs": [], "settings": [],
                "args": [{"id": b"s", "short": "s", "long": b"short", "action": "settrue", "flags": set()},
                         {"id": b"path", "flags": set()}]}
    for with_pos in (False, True):
        ci = {"name": b"p", "about": b"A:p", "groups": [], "aliases": [], "settings": ["infer_subcommands"],
              "subs": [sc(b"status", [(b"st", True), (b"stat", False)]), sc(b"stash", [(b"sta", False)]),
                       sc(b"commit", [(b"ci", True), (b"com", False)]), sc(b"compare", [])],
              "args": [{"id": b"v", "short": "v", "action": "count", "flags": set()}]
              + ([{"id": b"word", "flags": set()}] if with_pos else [])}
        for a, b in (([b"st"], [b"status"]), ([b"st", b"-s"], [b"status", b"-s"]), ([b"stat", b"x"], [b"status", b"x"]),
                     ([b"sta", b"-s"], [b"stash", b"-s"]), ([b"-v", b"st", b"--short", b"f"], [b"-v", b"status", b"--short", b"f"]),
                     ([b"com"], [b"commit"]), ([b"ci", b"-s"], [b"commit", b"-s"]), ([b"statu", b"-s"], [b"status", b"-s"]),
                     ([b"comp"], [b"compare"]), ([b"stas", b"x"], [b"stash", b"x"])):
            out.append(mark_equal(respell_sx(ci, [b"prog"] + a, [b"prog"] + b)))
    return out


def gen_respell(rng, n, stats, adversarial=False, only_ambig=False):
    prof = gen_cmd.Profile(**PROFILE)
    out = []
    guard = 0
    while len(out) < n and guard < 40 * n + 1000:
        guard += 1
        c = gen_cmd.gen_cmd(rng, prof)
        decorate(rng, c, set())
        for _ in range(6):
            a = gen_cmd.gen_argv(rng, c, p_mutate=(0.6 if adversarial else 0.08), safe_p=(0.4 if adversarial else 0.85))
            if rng.random() < 0.15:
                # boundary: an attached empty value (`--opt=`, `-o=`), which must stay a value after respelling
                eqs = [j for j, t in enumerate(a) if t.startswith(b"-") and b"=" in t and not t.startswith(b"--=")]
                if eqs:
                    j = eqs[rng.randrange(len(eqs))]
                    a = a[:j] + [a[j][:a[j].index(b"=") + 1]] + a[j + 1:]
                    stats["base line with an empty attached value"] += 1
            cur = a
            kinds = []
            want = rng.choice([1, 1, 2, 2, 3])
            for step in range(want):
                sites = scan(c, cur)
                amb = [s for s in sites if s[0].startswith("AMBIG")]
                eqv = [s for s in sites if not s[0].startswith("AMBIG")]
                if only_ambig:
                    if not amb:
                        break
                    k, cur = amb[rng.randrange(len(amb))]
                    kinds.append(k)
                    break
                if not eqv:
                    break
                # choose a kind first, then a site of that kind: rare kinds are not drowned by frequent ones
                ks = sorted({s[0] for s in eqv})
                k = ks[rng.randrange(len(ks))]
                cand = [s for s in eqv if s[0] == k]
                k, cur = cand[rng.randrange(len(cand))]
                kinds.append(k)
            if not kinds:
                stats["no applicable rewrite"] += 1
                continue
            for k in kinds:
                stats["rewrite: " + k] += 1
            stats["rewrites per case: %d" % len(kinds)] += 1
            for s in sorted(set(c["settings"]) & {"infer_long_args", "infer_subcommands", "ignore_errors",
                                                   "args_override_self", "subcommand_precedence_over_arg"}):
                stats["root setting: " + s] += 1
            stats["root has subcommands" if c["subs"] else "root has no subcommands"] += 1
            out.append(respell_sx(c, a, cur))
            if len(out) >= n:
                break
    return out


# ---------------------------------------------------------------- oracle and projection
def split2(r):
    if r is None or " ### " not in r:
        return None, None
    a, b = r.split(" ### ", 1)
    return a, b


def decode(case):
    sx = sx_parse(case)
    return (cmd_of_sx(sx[1][1:]), [unhex(t) for t in sx[2][1:]], [unhex(t) for t in sx[3][1:]])


def _lcp(x, y):
    n = 0
    while n < len(x) and n < len(y) and x[n] == y[n]:
        n += 1
    return n


def derive(cmd, a, b, depth=3):
    """How is B obtained from A?  -> 'ambig' (one ambiguous-prefix replacement), 'equiv' (<= depth equivalence
    rewrites), 'known' (<= depth rewrites, at least one of a KNOWN kind on every path found), None (B is not a
    respelling of A that this module can justify: the oracle then says nothing).  The search keeps only
    intermediate lines that agree with B at least as far (from both ends) as their predecessor."""
    if a == b:
        return "same"
    best = None
    seen = set()
    frontier = [(a, False)]
    for d in range(depth):
        nxt = []
        for cur, tainted in frontier:
            pre, suf = _lcp(cur, b), _lcp(cur[::-1], b[::-1])
            for k, nb in scan(cmd, cur):
                if k.startswith("AMBIG"):
                    if d == 0 and nb == b:
                        return "ambig"
                    continue
                t = tainted or k.startswith("KNOWN")
                if nb == b:
                    if not t:
                        return "equiv"
                    best = "known"
                    continue
                if _lcp(nb, b) < pre or _lcp(nb[::-1], b[::-1]) < suf:
                    continue
                key = (tuple(nb), t)
                if key in seen:
                    continue
                seen.add(key)
                nxt.append((nb, t))
        frontier = nxt[:2000]
    return best


def has_setting(cmd, name):
    return name in cmd["settings"] or any(has_setting(s, name) for s in cmd["subs"])


KNOWN_MARK = "[family: exact long flag-subcommand name shadowed by an inferred argument]"


def oracle(case, impl):
    ra, rb = split2(impl)
    if ra is None:
        return "no result pair: %r" % (impl,)
    if not ra.startswith("ok "):
        return None                      # the property quantifies over successful command lines
    cmd, a, b = decode(case)
    if has_setting(cmd, "ignore_errors"):
        # `Ok` under ignore_errors does not mean the line was accepted (errors are swallowed and the partially
        # filled matches are returned): not a successful command line in the sense of the property
        return None
    if a == b:
        return None if ra == rb else "the same command line parsed twice gives different results: %s vs %s" % (ra, rb)
    if marked_equal(case):
        return None if ra == rb else "equivalent spellings (alias vs canonical name) parse differently: A=%s B=%s" % (
            ra[:600], rb[:600])
    # one scan decides whether B is an ambiguous-prefix replacement in A
    if any(k.startswith("AMBIG") and nb == b for k, nb in scan(cmd, a)):
        if rb.startswith("ok "):
            return "an ambiguous prefix was silently resolved: A=%s B=%s" % (ra[:300], rb[:300])
        return None
    if ra == rb:
        return None
    how = derive(cmd, a, b)
    if how is None:
        return None                      # not a pair of spellings of one invocation (e.g. a shrinking candidate)
    return "equivalent spellings parse differently%s: A=%s B=%s" % (
        " " + KNOWN_MARK if how == "known" else "", ra[:600], rb[:600])


def project_one(r):
    if r is None:
        return "none"
    if r.startswith("err "):
        p = r.split(" ")
        k = p[1]
        ks = set(k.split("|"))
        if ks & {"UnknownArgument", "InvalidSubcommand"}:
            k = "Unknown"
        return " ".join(["err", k] + p[2:])
    if r.startswith("PANIC"):
        return "PANIC"
    return r


def project(r):
    a, b = split2(r)
    if a is None:
        return project_one(r)
    return project_one(a) + " ### " + project_one(b)


def nontrivial(case, impl):
    ra, rb = split2(impl)
    if ra is None or not ra.startswith("ok "):
        return False
    sx = sx_parse(case)
    return sx[2] != sx[3]


def streams(tier, rng):
    q = tier == "quick"
    out = []
    for name, n, kw in [("respell", 6000 if q else 100000, {}),
                        ("respell-adversarial", 1500 if q else 25000, {"adversarial": True}),
                        ("ambiguous", 1000 if q else 15000, {"only_ambig": True})]:
        stats = Counter()
        cases = gen_respell(rng, n, stats, **kw)
        if name == "respell":
            cases = gen_directed_pairs() + cases
            stats["directed alias pairs (hyphen/negnum positional)"] = len(gen_directed_pairs())
        out.append(Stream(name, cases, oracle=oracle, area="c08", project=project, nontrivial=nontrivial,
                          describe=dict(sorted(stats.items()))))
    return out


KNOWN_SHADOW = "C08-flag-sub-name-shadowed-by-inferred-arg"


def classify_known(stream, case, impl, failure):
    if failure and KNOWN_MARK in failure:
        return KNOWN_SHADOW
    return None


TECHNIQUE = ("Coq proof (key-map and prefix-inference lemmas, step-level spelling equalities on the parser state, two "
             "bisimulations of the token loop -- over the pending-value buffer (spellings of an option) and over the "
             "`--`/trailing-index state (explicit `--`) --, a generic decomposition of the loop into 'run the prefix, then "
             "the rest' (every recursive call of the loop body is a tail call), an induction over the subcommand tree and "
             "over chains of rewrites, lifted through get_matches_with/do_parse/parse_top) + "
             "extracted-model/implementation correspondence + metamorphic oracle on the implementation")
LEVEL_TEXT = ("Machine-checked theorems (Coq 8.16, closed under the global context) about the parser model, for all "
              "commands and strings: aliases (visible or hidden) are keys resolving to the same argument as the canonical "
              "name; prefix inference for long flags, subcommands and long-flag subcommands returns an exact match or the "
              "only candidate, and returns nothing when two distinct candidates extend the prefix; step-level equalities "
              "for `--l=v` vs `--l v`, `-ov` vs `-o=v` vs `-o v`, and a short cluster vs separate flags, for every parser "
              "state.  Whole-line theorems (one occurrence rewritten, ARBITRARY rest of the line, any loop/parser state of "
              "the named class): the token loop from a state with one occurrence still pending and from the state in which "
              "it has been reacted gives the same result up to flushing (C08_flush_bisim: every iteration keeps the relation "
              "or resolves it; `--` only stamps a trailing index that the flush ignores), hence `--opt v` = `--opt=v`, "
              "`-o v` = `-ov` = `-o=v`, `-a<rest>` = `-a -<rest>` and `-abc` = `-a -b -c` (any number of ASCII flags), long "
              "alias / unique inferred prefix = canonical name, short alias = short name; each also as an equality of "
              "parse_top results for an occurrence at the head of the line (the pending value may cross a subcommand "
              "dispatch: react commutes with recording the subcommand), and `--opt v` = `--opt=v` behind any prefix of "
              "separate flags for successful lines.  Round 3: (1) GENERIC DECOMPOSITION (C08_loop_is_step, C08_run_split): one loop "
              "iteration is a function `step` returning 'go on from (ls,st)' or the way the loop is left; for EVERY prefix and "
              "tail, parse_loop (pre ++ tail) = run pre, then parse_loop tail from the state reached; the run reads the tail "
              "only through the look-ahead of the positional counter correction (C08_run_lookahead_only).  (2) EXPLICIT `--` "
              "(C08_dashdash_bisim, C08_explicit_dashdash[_loop/_level]): second bisimulation -- loop states equal up to "
              "l_trailing, parser states equal up to p_trailing_idx -- for all lines of positional-looking tokens, behind any "
              "prefix, INCLUDING low-index multiples `<src>... <dst>` (the look-ahead cannot tell the bare `--` from a value: "
              "C08_dashdash_lookahead); class dd_class = no allow_missing_positional / dont_delimit_trailing_values / last(true); "
              "the documented exceptions (each of those three, an option with an optional value, a subcommand name) and the "
              "observation that a bare `--` at the very END of a low-index line is not neutral are witnesses replayed on the "
              "crate.  (3) ANYWHERE IN THE TREE (C08_respell_tree/_top/_anywhere): an occurrence behind an arbitrary prefix of "
              "its level, at any depth of the subcommand tree (occ_at), for every rewrite that is a level equivalence "
              "(lvl_equiv: implied by both bisimulation relations and by equality); instances for `--opt=v`/`--opt v` and "
              "clusters.  (4) COMPOSITION (C08_spelling_compose): any chain of such rewrites leaves parse_top unchanged "
              "(example: five rewrites, four of them inside a subcommand).  (5) subcommand alias / unique prefix = canonical "
              "name at whole-line level (C08_sub_name_respell).  (6) NEGATIVE NUMBERS: for an option with "
              "allow_negative_numbers every `-m` with m in the lexer's number language (`-1`, `-1.`, `-2.5`, `-1e3`; the parser "
              "model's is_number is proved equal to C13's number_lang) is a value in the detached spelling: `--o -1.` = "
              "`--o=-1.`, `-o -1.` = `-o-1.` (C08_negnum_*_line).  The model is tied to clap by running the extracted model and the real crate on the same generated "
              "pairs of spellings on every check; an independent metamorphic oracle (both spellings parsed by the real crate "
              "must give identical matches; ambiguous prefixes must fail) is applied to the implementation's output.")
LEVEL_NOTE = ("Spelling theorems hold at every loop/parser state of their class; 'anywhere' = behind any prefix the loop runs "
              "through (hypothesis `run c pre .. = inl (ls', st')`, which every line ending at that level satisfies: "
              "C08_run_of_done) with the class conditions stated AT the state reached (they are checked by computation in the "
              "examples; no static characterisation of the reached state is proved, except flag_subcmd_skip = 0: C08_run_keeps_skip0).  "
              "`--` insertion: levels without allow_missing_positional / dont_delimit_trailing_values / last(true), the `--` not "
              "directly after an option still waiting for values, at least one positional after it.  Classes of the option "
              "spellings as before (single-valued option, no require_equals, occurrence accepted, subcommand_precedence_over_arg "
              "and ignore_errors off, short forms at ValuesDone without short flag-subcommands).  Levels entered through a short "
              "flag-subcommand cluster (keep_state), help/external subcommands, multi-valued options, require_equals, "
              "hyphen-value contexts and ignore_errors stay differential (metamorphic stream).")
