"""C16: generated completion scripts cover the whole command tree and work in the shell."""
import itertools
import re

from ..core import hexs, unhex, sx_parse, sx_str
from ..runner import Stream

ID = "C16"
AREAS = ["aot", "fish"]
RULE = ("random command trees (subcommand depth <= 3; visible and hidden aliases of commands and of options; hyphenated "
        "names; names sharing prefixes; names repeated at different levels; options with only a short or only a long; "
        "positionals; value hints; possible values, some hidden; global args; version / propagate_version / disabled "
        "help flag, version flag, help subcommand) x each of the six generators; for bash additionally up to N "
        "completion queries per tree = subcommand path (by names, by visible aliases, through the generated help tree) x "
        "partial word ('', '-', '--', '--<prefix of a long>', first letters / proper prefixes of subcommand names, a "
        "non-matching word) and option-value queries.  A case is non-trivial when the tree has at least one subcommand "
        "and the generator produced a script; distinct = distinct case text.")
TRUSTED = [
    "Coq 8.16.1 kernel (coqc); no native_compute; theorems C16_* are 'Closed under the global context'",
    "extraction: ExtrOcamlBasic only, no Extract Constant; OCaml driver ocaml/aot_driver.ml (spec reader, printers)",
    "correspondence: vp/props/c16.py generators, harness/src/modes/aot.rs (spec -> clap::Command, dump of the built "
    "command through public API, bash -n and the completion function run under the installed bash 5.2 with "
    "COMP_WORDS/COMP_CWORD), comparison of the whitespace-normalised script, the built tree and the COMPREPLY lists",
    "model of what bash does with the fixed script shape (BashModel.step / lookup_case / compgen_W / bash_complete): "
    "validated against the installed bash on every query of every run, not proved about bash",
    "zsh, fish, PowerShell, elvish, nushell are not installed: their scripts are only searched for the tokens in the "
    "shell-specific syntactic form (python oracle); no model of the zsh/PowerShell/elvish/nushell generators",
    "fish generator model: Complete/FishModel.v (hand-written from fish.rs; description texts in a decoration parallel "
    "to the AotTree command tree, dbuild = what Command::build does to them), extraction ExtractFish.v, OCaml driver "
    "ocaml/fish_driver.ml (readers of the aot and aottext spec formats); tied by comparing the whole generated file byte "
    "for byte (streams fish-model, fish-model-names)",
]
ASSUMPTIONS = [
    "words on the completed command line contain no IFS white space and no glob characters (the script iterates over an "
    "unquoted ${COMP_WORDS[@]}); names in the tree contain no shell metacharacters",
    "C16_bash_table / C16_bash_complete are stated for mangle_safe trees (no name contains '__', ends in '_' or contains a "
    "space; '-' -> '__' is injective on the subcommand paths; sibling names and aliases are distinct, as clap's own "
    "configuration check demands)",
    "positional placeholders / positional possible values in the bash word list are tolerated extras of the addressed "
    "level (the property speaks of options and subcommands)",
]

SHELLS = ["bash", "zsh", "fish", "powershell", "elvish", "nushell"]
HINTS = ["Unknown", "Other", "AnyPath", "FilePath", "DirPath", "ExecutablePath", "CommandName", "CommandString",
         "CommandWithArguments", "Username", "Hostname", "Url", "EmailAddress"]


# CommandWithArguments needs a multi-valued last positional with trailing_var_arg (clap's configuration check)
GEN_HINTS = [h for h in HINTS if h != "CommandWithArguments"]


# ----------------------------------------------------------------- tree generator
class Gen:
    """One random tree.  Long names / value names carry a serial number so that a search for a token in a
    script cannot match another token by accident; shorts are unique over the tree (global args)."""

    def __init__(self, rng, **kw):
        self.rng = rng
        self.n = 0
        self.kw = kw
        self.shorts = [c for c in "abcdefgijklmnopqrstuvwxyzABCDEFGHIJKLMNOPQRSTUWXYZ0123456789"]
        rng.shuffle(self.shorts)
        self.used_names = []
        self.stats = {}

    def opt(self, k, default=0.0):
        return self.kw.get(k, default)

    def count(self, k, n=1):
        self.stats[k] = self.stats.get(k, 0) + n

    def serial(self):
        self.n += 1
        return self.n

    def short(self):
        return self.shorts.pop() if self.shorts else None

    def sub_name(self, taken):
        r = self.rng
        for _ in range(20):
            k = self.serial()
            shape = r.random()
            if shape < 0.30:
                nm = "sc%d" % k
            elif shape < 0.55:
                nm = "s%d-x" % k          # hyphenated: mangled to s<k>__x
                self.count("hyphenated-names")
            elif shape < 0.65:
                nm = "a-b-c%d" % k
                self.count("hyphenated-names")
            elif shape < 0.80 and taken:
                base = r.choice(sorted(taken))
                nm = base + r.choice(["x", "-y", "2"])      # shares a prefix with a sibling
                self.count("prefix-sharing-names")
            elif shape < 0.90 and self.used_names:
                nm = r.choice(self.used_names)                # the same name elsewhere in the tree
                self.count("names-repeated-across-levels")
            elif shape < 0.95:
                nm = "u_%d" % k                                # single underscores are harmless
            else:
                nm = "né%d" % k
                self.count("non-ascii-names")
            if nm not in taken and nm != "help":
                return nm
        return "sc%d" % self.serial()

    def arg(self, positional=False, last_pos=False, first_pos=False):
        r = self.rng
        k = self.serial()
        a = {"id": "id%d" % k, "items": []}
        it = a["items"]
        if positional:
            self.count("positionals")
            if first_pos and r.random() < 0.3:
                it.append("(required)")
            multi = False
            if last_pos and r.random() < 0.3:
                multi = True
                if r.random() < 0.5:
                    it.append("(num 1 3)")
                else:
                    it.append("(act append)")
                    it.append("(num 1 4)")
            # round 4: a value name (bash writes it into the positional's placeholder; ONE name: two names give the
            # placeholder `[A] [B]`, two words for bash where the bash semantics model has one opts token per positional),
            # value_terminator of a multi-valued positional, last(true) on the final one
            x = self.opt("ext", 0.25)
            if r.random() < x * 0.6:
                it.append("(vn %s)" % hexs("NAME%d" % k))
                self.count("positionals-with-value-name")
            if multi and r.random() < x:
                it.append("(term %s)" % hexs(r.choice([";", "--", "end", "a b", "x:y", "(z)"])))
                self.count("positionals-with-terminator")
            if last_pos and "(required)" not in it and r.random() < x * 0.8:
                it.append("(last)")
                self.count("last-positionals")
            takes = True
        else:
            form = r.random()
            s = l = None
            if form < 0.25:
                s = self.short()
                self.count("short-only-options")
            elif form < 0.55:
                l = "lo%d" % k
                self.count("long-only-options")
            else:
                s = self.short()
                l = r.choice(["lo%d", "lo%d-x", "l%d-opt-y"]) % k
            if s is None and l is None:
                l = "lo%d" % k
            if s:
                it.append("(s %s)" % hexs(s))
            if l:
                it.append("(l %s)" % hexs(l))
            # aliases (only with the corresponding primary unless the adversarial profile asks otherwise)
            if s or self.opt("alias_without_primary"):
                for _ in range(r.choice([0, 0, 0, 1, 2])):
                    c = self.short()
                    if c:
                        vis = r.random() < 0.6
                        it.append("(%s %s)" % ("vsa" if vis else "hsa", hexs(c)))
                        self.count("visible-short-aliases" if vis else "hidden-short-aliases")
                        if not s and vis:
                            self.count("visible-short-alias-without-short")
            if l or self.opt("alias_without_primary"):
                for _ in range(r.choice([0, 0, 0, 1, 2])):
                    vis = r.random() < 0.6
                    it.append("(%s %s)" % ("vla" if vis else "hla", hexs("al%d" % self.serial())))
                    self.count("visible-long-aliases" if vis else "hidden-long-aliases")
                    if not l and vis:
                        self.count("visible-long-alias-without-long")
            kind = r.random()
            if kind < 0.35:
                it.append("(act %s)" % r.choice(["flag", "flag", "count", "flagfalse"]))
                takes = False
                self.count("flags")
            else:
                takes = True
                if r.random() < 0.2:
                    it.append("(act append)")
                if self.opt("optional_value") and r.random() < 0.6:
                    it.append("(num 0 1)")
                    self.count("options-with-optional-value")
                elif r.random() < 0.1:
                    it.append("(num 1 2)")
                # round 4: value names of an option: zsh writes the first one between the colons of the spec
                x = self.opt("ext", 0.25)
                if r.random() < x:
                    if not any(i.startswith("(num") for i in it) and r.random() < 0.3:
                        it.append("(vn %s %s)" % (hexs("VA%d" % k), hexs("VB%d" % k)))
                        self.count("options-with-two-value-names")
                    else:
                        it.append("(vn %s)" % hexs(r.choice(["FILE%d", "VN%d", "v n%d", "N:%d"]) % k))
                        self.count("options-with-value-name")
                self.count("value-options")
            if r.random() < 0.15:
                it.append("(global)")
                self.count("global-args")
        if takes:
            if r.random() < 0.45:
                n = r.choice([1, 2, 3, 4])
                base = "pv%d" % self.serial()
                hidden_any = False
                for i in range(n):
                    nm = base + ["", "a", "ab", "-b"][i]
                    if r.random() < 0.25:
                        it.append("(hpv %s)" % hexs(nm))
                        hidden_any = True
                        self.count("hidden-possible-values")
                    else:
                        it.append("(pv %s)" % hexs(nm))
                        self.count("possible-values")
            if r.random() < 0.5:
                h = r.choice(GEN_HINTS)
                it.append("(hint %s)" % h)
                self.count("hint-" + h)
        if r.random() < 0.08:
            it.append("(hide)")
            self.count("hidden-args")
        return "(arg %s%s)" % (hexs(a["id"]), "".join(" " + x for x in it))

    def cmd(self, name, level, max_level, root=False):
        r = self.rng
        items = []
        node = {"name": name, "aliases": [], "subs": [], "help": True}
        if not root:
            taken = self._sib_taken
            for _ in range(r.choice([0, 0, 1, 1, 2])):
                al = "al%d" % self.serial() if r.random() < 0.7 else "%s-a%d" % (name, self.serial())
                if al in taken:
                    continue
                taken.add(al)
                vis = r.random() < 0.6
                items.append("(%s %s)" % ("va" if vis else "ha", hexs(al)))
                node["aliases"].append((al, vis))
                self.count("visible-command-aliases" if vis else "hidden-command-aliases")
            if r.random() < 0.06:
                items.append("(hide)")
                self.count("hidden-commands")
        if root and r.random() < 0.5:
            items.append("(version)")
            self.count("version")
            if r.random() < 0.4:
                items.append("(propagate-version)")
                self.count("propagate-version")
        for flag, p in (("no-help-flag", 0.06), ("no-version-flag", 0.05), ("no-help-sub", 0.08)):
            if r.random() < p:
                items.append("(%s)" % flag)
                self.count(flag)
                if flag == "no-help-sub":
                    node["help"] = False
        first_arg = len(items)
        for _ in range(r.choice([0, 1, 1, 2, 3, 4])):
            items.append(self.arg())
        # conflicts_with between options of the level (zsh writes them as exclusion lists `(-x --exclude)`; the other
        # generators do not read them): an option conflicting with >= 2 spellings makes the list's ORDER observable
        # (seeded change seed2/C16-3: collecting the list in a HashSet made generation non-deterministic)
        if len(items) - first_arg >= 2 and r.random() < self.opt("conflicts", 0.3):
            ids = [re.match(r"\(arg (x[0-9a-f]*)", x).group(1) for x in items[first_arg:]]
            # not on a global argument: it is copied into subcommands where its conflict targets do not exist
            cand = [j for j in range(len(ids)) if "(global)" not in items[first_arg + j]] or [0]
            k = r.choice(cand)
            others = [i for j, i in enumerate(ids) if j != k]
            r.shuffle(others)
            chosen = others[:r.choice([1, 2, 3])]
            if "(global)" not in items[first_arg + k]:
                items[first_arg + k] = items[first_arg + k][:-1] + " (cx %s))" % " ".join(chosen)
                self.count("args-with-conflicts")
        # round 4: argument groups (Arg::groups; _build_self makes the ArgGroups) and conflicts_with naming a GROUP: zsh
        # expands the group to its members.  By default not on a global argument (its targets must exist in every
        # subcommand it is copied into); profile "global_group" asks for exactly that (the repaired finding
        # zsh-global-conflicts-group), members in any order, possibly the conflicting arg itself
        nargs = len(items) - first_arg
        if nargs >= 2 and r.random() < self.opt("groups", 0.2):
            gid = "g%d" % self.serial()
            idx = list(range(nargs))
            r.shuffle(idx)
            members = idx[:r.choice([1, 2, 2, 3])]
            for j in members:
                # (sometimes the group twice on one argument: the member is pushed twice, unroll_args_in_group's
                # `contains` check writes it once)
                twice = " " + hexs(gid) if r.random() < 0.25 else ""
                items[first_arg + j] = items[first_arg + j][:-1] + " (grp %s%s))" % (hexs(gid), twice)
            self.count("groups")
            want_global = bool(self.opt("global_group"))
            if want_global:
                # the family of the repaired finding: a GLOBAL argument conflicts with a group; the members are global
                # too, so the group exists wherever the argument is propagated (clap's configuration check accepts the
                # tree).  In a subcommand the pair is declared by the subcommand itself: the group of a subcommand
                # that contains the argument, not of the command the lookup runs on
                j = next(j for j in range(nargs) if j not in members[:1])
                for m in set(members + [j]):
                    if "(global)" not in items[first_arg + m]:
                        items[first_arg + m] = items[first_arg + m][:-1] + " (global))"
                cand = [j]
            else:
                cand = [j for j in range(nargs) if "(global)" not in items[first_arg + j] and j not in members[:1]]
            if cand:
                k = r.choice(cand)
                extra = ""
                if r.random() < 0.4 and not want_global:
                    ids = [re.match(r"\(arg (x[0-9a-f]*)", x).group(1) for x in items[first_arg:]]
                    others = [i for j, i in enumerate(ids) if j != k]
                    extra = " " + r.choice(others)
                    if r.random() < 0.5:
                        extra = extra + " " + hexs(gid)        # the group twice: its members are written twice
                items[first_arg + k] = items[first_arg + k][:-1] + " (cx %s%s))" % (hexs(gid), extra)
                self.count("conflicts-with-group")
                if want_global:
                    self.count("global-arg-conflicts-with-group")
        npos = r.choice([0, 0, 0, 1, 1, 2])
        for i in range(npos):
            items.append(self.arg(positional=True, first_pos=(i == 0), last_pos=(i == npos - 1)))
        # round 4: a multi-valued positional BEFORE the final one (clap's configuration check wants the final one last(true)
        # then): with a terminator it is written '*term:' and the final one keeps its line; without, it is the catch-all
        # and the final (last) positional is left to `_arguments -S` -- the final one carries no possible values then
        if npos == 2 and r.random() < self.opt("ext", 0.25) * 0.8:
            a1, a2 = items[-2], items[-1]
            if "(num" not in a1 and "(vn" not in a1 and "(required)" not in a2:
                term = " (term %s)" % hexs(r.choice([";", "--", "a b"])) if r.random() < 0.5 else ""
                items[-2] = a1[:-1] + " (num 1 3)%s)" % term
                if "(last)" not in a2:
                    a2 = a2[:-1] + " (last))"
                if not term:
                    a2 = re.sub(r" \(h?pv x[0-9a-f]*\)", "", a2)
                items[-1] = a2
                self.count("multi-valued-positional-before-last" + ("-with-terminator" if term else ""))
        if level < max_level:
            nsub = r.choice([0, 1, 2, 2, 3]) if not root else r.choice([1, 2, 2, 3, 4])
            taken = set()
            for _ in range(nsub):
                nm = self.sub_name(taken)
                taken.add(nm)
                self._sib_taken = taken
                sub_items, sub_node = self.cmd(nm, level + 1, max_level)
                items.append(sub_items)
                node["subs"].append(sub_node)
                self.used_names.append(nm)
        return "(cmd %s%s)" % (hexs(name), "".join(" " + x for x in items)), node


def walk_nodes(node, path=()):
    yield path, node
    for s in node["subs"]:
        yield from walk_nodes(s, path + (s,))


def gen_queries(rng, node, bin_name, limit, exact_names=False):
    """completion queries from what the generator knows of the tree (the oracle resolves them against the BUILT
    tree, so a wrong guess about the help subtree only makes a query irrelevant)."""
    qs = []
    for path, n in walk_nodes(node):
        word_paths = [[s["name"] for s in path]]
        alt = []
        for s in path:
            vis = [a for a, v in s["aliases"] if v]
            alt.append(rng.choice(vis) if vis and rng.random() < 0.8 else s["name"])
        if alt != word_paths[0]:
            word_paths.append(alt)
        # the generated help subtree mirrors the names
        if path and node["subs"]:
            word_paths.append(["help"] + [s["name"] for s in path])
        if n["subs"] and not path:
            word_paths.append(["help"])
            word_paths.append(["help", "help"])
        if n["subs"] and path:
            word_paths.append([s["name"] for s in path] + ["help"])
        for wp in word_paths:
            curs = ["", "-", "--", "zz", "--l", "--lo", "--a"]
            for s in n["subs"]:
                curs.append(s["name"][:1])
                if len(s["name"]) > 1:
                    curs.append(s["name"][:-1])
                for a, v in s["aliases"]:
                    curs.append(a[:2])
                if exact_names:
                    curs.append(s["name"])
                    for a, v in s["aliases"]:
                        if v:
                            curs.append(a)
            curs.append("h")
            child_words = set()
            for s in n["subs"]:
                child_words.add(s["name"])
                child_words.update(a for a, v in s["aliases"])
            if n["subs"] and n.get("help", True):
                child_words.add("help")
            for c in dict.fromkeys(curs):
                if not exact_names and c in child_words:
                    continue            # a complete subcommand word under the cursor: family bash-cur-is-subcommand
                qs.append([bin_name] + wp + [c])
    if len(qs) > limit:
        qs = rng.sample(qs, limit)
    return qs


def value_queries(rng, spec_text, bin_name, node, limit):
    """`prog <path> --opt <cur>`: the option's arm of `case "${prev}"`.  Options are taken from the spec text."""
    qs = []
    v = sx_parse(spec_text)

    def go(c, path):
        for it in c[2:]:
            if isinstance(it, list) and it and it[0] == "arg":
                keys = []
                has_pv = any(isinstance(x, list) and x[0] in ("pv", "hpv") for x in it[2:])
                takes = not any(isinstance(x, list) and x[0] == "act" and x[1] in ("flag", "flagfalse", "count") for x in it[2:])
                hint = [x[1] for x in it[2:] if isinstance(x, list) and x[0] == "hint"]
                for x in it[2:]:
                    if isinstance(x, list) and x[0] in ("s", "vsa"):
                        keys.append("-" + unhex(x[1]).decode())
                    if isinstance(x, list) and x[0] in ("l", "vla"):
                        keys.append("--" + unhex(x[1]).decode())
                if takes and keys and (has_pv or (hint and hint[0] in ("Other", "DirPath"))):
                    for k in keys:
                        for cur in ("", "p", "pv"):
                            qs.append([bin_name] + path + [k, cur])
            elif isinstance(it, list) and it and it[0] == "cmd":
                go(it, path + [unhex(it[1]).decode()])
    go(v, [])
    if len(qs) > limit:
        qs = rng.sample(qs, limit)
    return qs


def make_case(rng, shell, tier, profile=None, nq=40, exact_names=False, fixed=None):
    profile = profile or {}
    g = Gen(rng, **profile)
    max_level = profile.get("max_level") or rng.choice([1, 2, 2, 3] if tier == "quick" else [1, 2, 2, 3, 3])
    root_name = rng.choice(["prog", "my-prog", "p", "tool_x"])
    bin_name = profile.get("bin") or rng.choice([root_name, "my-prog", "prog", "p9", "a-b-c"])
    spec, node = g.cmd(root_name, 0, max_level, root=True)
    if fixed:
        spec, node = fixed(g, rng)
    qs = ""
    if shell == "bash":
        q1 = gen_queries(rng, node, bin_name, nq, exact_names=exact_names)
        q2 = value_queries(rng, spec, bin_name, node, max(4, nq // 5))
        qs = "".join(" (q %s)" % " ".join(hexs(w) for w in q) for q in q1 + q2)
        g.count("queries", len(q1) + len(q2))
    g.count("max-level-%d" % max_level)
    g.count("shell-" + shell)
    return "(aot %s %s %s%s)" % (shell, hexs(bin_name), spec, qs), g.stats


# ----------------------------------------------------------------- reading results
def top_items(r):
    """'(a ..) (b ..)' -> dict head -> parsed list"""
    v = sx_parse("(" + r + ")")
    return {x[0]: x for x in v if isinstance(x, list) and x}


def dec(t):
    return unhex(t).decode("utf-8", "replace")


def read_node(v, depth=0, wpaths=((),)):
    """(node NAME BIN hidden|shown (al ..) (args ..) (subs ..)) -> dict"""
    n = {"name": dec(v[1]), "bin": None if v[2] == "none" else dec(v[2]), "hide": v[3] == "hidden",
         "aliases": [(dec(a[1]), a[0] == "v") for a in v[4][1:]], "args": [], "subs": [], "depth": depth}
    for a in v[5][1:]:
        d = {"id": dec(a[1]),
             "short": None if a[2][1] == "none" else dec(a[2][1]),
             "long": None if a[3][1] == "none" else dec(a[3][1]),
             "sa": [(dec(x[1]), x[0] == "v") for x in a[4][1:]],
             "la": [(dec(x[1]), x[0] == "v") for x in a[5][1:]],
             "takes": a[6] == "tv", "pos": a[7] == "pos",
             "min": int(a[8][1]), "max": int(a[8][2]),
             "pvs": None if a[9][1] == "none" else [(dec(x[1]), x[0] == "v") for x in a[9][1][1:]],
             "hint": a[10][1], "hide": a[11] == "hidden", "global": a[12] == "global"}
        n["args"].append(d)
    for s in v[6][1:]:
        n["subs"].append(read_node(s, depth + 1))
    return n


def all_nodes(n, names=()):
    yield names, n
    for s in n["subs"]:
        yield from all_nodes(s, names + (s["name"],))


def sub_words(s):
    return [s["name"]] + [a for a, v in s["aliases"] if v]


def word_paths(root, names):
    """every spelling (names or visible aliases) of the path to the node"""
    cur = root
    comps = []
    for nm in names:
        s = next(x for x in cur["subs"] if x["name"] == nm)
        comps.append(sub_words(s))
        cur = s
    return [list(p) for p in itertools.product(*comps)]


# required tokens of a node: (kind, token, detail)
def node_tokens(n):
    out = []
    for a in n["args"]:
        if a["hide"] or a["pos"] and not (a["sa"] or a["la"]):
            pass
        if not a["hide"]:
            if a["short"]:
                out.append(("short", "-" + a["short"], a))
            if a["long"]:
                out.append(("long", "--" + a["long"], a))
            for c, v in a["sa"]:
                if v:
                    out.append(("short-alias", "-" + c, a))
            for c, v in a["la"]:
                if v:
                    out.append(("long-alias", "--" + c, a))
            if a["pvs"]:
                for nm, v in a["pvs"]:
                    if v:
                        out.append(("value", nm, a))
    for s in n["subs"]:
        if not s["hide"]:
            out.append(("sub", s["name"], s))
            for al, v in s["aliases"]:
                if v:
                    out.append(("sub-alias", al, s))
    return out


# ----------------------------------------------------------------- known families (by input)
def spec_names(case):
    """(bin, [command names in the spec])"""
    v = sx_parse(case)
    names = []

    def go(c):
        names.append(dec(c[1]))
        for it in c[2:]:
            if isinstance(it, list) and it and it[0] == "cmd":
                go(it)
    go(v[3])
    return dec(v[2]), names


def mangle_unsafe(case, built_root=None):
    """the tree is outside the class mangle_safe of C16_bash_table"""
    try:
        b, names = spec_names(case)
    except Exception:
        return False
    for nm in [b] + names[1:]:
        if "__" in nm or nm.endswith("_") or " " in nm:
            return True
    # '-' -> '__' not injective on the paths
    v = sx_parse(case)
    seen = set()

    def go(c, fn):
        if fn in seen:
            return True
        seen.add(fn)
        for it in c[2:]:
            if isinstance(it, list) and it and it[0] == "cmd":
                if go(it, fn + "__" + dec(it[1]).replace("-", "__")):
                    return True
        return False
    return go(v[3], b.replace("-", "__"))


FAMILIES = {
    "bash-dunder-lookup", "alias-without-primary", "values-not-in-powershell-elvish", "nushell-subcommand-aliases",
    "bash-cur-is-subcommand", "zsh-optional-value", "fish-positional-values",
}


def token_family(shell, kind, tok, a):
    if kind == "short-alias" and not a["short"]:
        return "alias-without-primary"
    if kind == "long-alias" and not a["long"]:
        return "alias-without-primary"
    if kind == "value" and shell in ("powershell", "elvish"):
        return "values-not-in-powershell-elvish"
    if kind == "sub-alias" and shell == "nushell":
        return "nushell-subcommand-aliases"
    if kind == "value" and shell == "zsh" and not a["pos"] and a["min"] == 0:
        return "zsh-optional-value"
    if kind == "value" and shell == "fish" and a["pos"]:
        return "fish-positional-values"
    return None


# ----------------------------------------------------------------- "mentions", per shell
def block(text, start_re, end_re):
    m = re.search(start_re, text, re.M)
    if not m:
        return None
    e = re.search(end_re, text[m.end():], re.M)
    return text[m.end(): m.end() + e.start()] if e else text[m.end():]


def mention_checker(shell, script, root):
    """returns f(names, node, kind, token, detail) -> bool : the token is mentioned in the shell-specific form
    (for the formats that are keyed by the subcommand path: at that path, under every spelling of it)"""
    E = re.escape
    if shell == "bash":
        words = set()
        for m in re.finditer(r'opts="([^"]*)"', script):
            words.update(m.group(1).split())
        for m in re.finditer(r'compgen -W "([^"]*)"', script):
            words.update(m.group(1).split())
        return lambda names, n, kind, tok, d: tok in words
    if shell == "zsh":
        def f(names, n, kind, tok, d):
            if kind in ("short", "short-alias"):
                return re.search(r"(?:^|['*)])" + E(tok) + r"\+?\[", script, re.M) is not None
            if kind in ("long", "long-alias"):
                return re.search(r"(?:^|['*)])" + E(tok) + r"=?\[", script, re.M) is not None
            if kind in ("sub", "sub-alias"):
                return (re.search(r"^\s*'" + E(tok) + ":", script, re.M) is not None
                        and re.search(r"^\s*\(" + E(tok) + r"\)\s*$", script, re.M) is not None)
            if kind == "value":
                return re.search(r":\((?:[^)\n]* )?" + E(tok) + r"(?: [^)\n]*)?\)", script) is not None
            return True
        return f
    if shell == "fish":
        lines = [l for l in script.split("\n")]
        text = script

        def f(names, n, kind, tok, d):
            if kind in ("short", "short-alias"):
                return re.search(r"^complete -c .* -s " + E(tok[1:]) + r"(?= |$)", text, re.M) is not None
            if kind in ("long", "long-alias"):
                return re.search(r"^complete -c .* -l " + E(tok[2:]) + r"(?= |$)", text, re.M) is not None
            if kind in ("sub", "sub-alias"):
                return re.search(r'^complete -c .* -a "' + E(tok) + r'"(?= |$)', text, re.M) is not None
            if kind == "value":
                return re.search(r'(?:-a "|\n)' + E(tok) + r"\\t''", text) is not None
            return True
        return f
    if shell in ("powershell", "elvish"):
        def blk(key):
            if shell == "powershell":
                return block(script, r"^\s*'" + E(key) + r"' \{", r"^\s*break\s*$")
            return block(script, r"^\s*&'" + E(key) + r"'= \{", r"^\s*\}\s*$")

        def f(names, n, kind, tok, d):
            if kind == "value":
                return False            # the format has no construct for values
            for wp in word_paths(root, names):
                b = blk(";".join([root["bin"]] + wp))
                if b is None:
                    return False
                if shell == "powershell":
                    pat = r"\[CompletionResult\]::new\('" + E(tok) + r"', '" + E(tok) + r" ?', "
                else:
                    pat = r"^\s*cand " + E(tok) + r" '"
                if re.search(pat, b, re.M) is None:
                    return False
            return True
        return f
    if shell == "nushell":
        def f(names, n, kind, tok, d):
            binp = " ".join([root["bin"]] + list(names))
            if kind in ("sub", "sub-alias"):
                return re.search(r'^\s*export extern "' + E(binp + " " + tok) + r'" \[', script, re.M) is not None
            hdr = r'^\s*export extern ' + (E(binp) if not names else '"' + E(binp) + '"') + r" \[\s*$"
            b = block(script, hdr, r"^  \]\s*$")
            if b is None:
                return False
            if kind in ("short", "short-alias"):
                return (re.search(r"\(" + E(tok) + r"\)", b) is not None
                        or re.search(r"^    " + E(tok) + r"(?=[:\s]|$)", b, re.M) is not None)
            if kind in ("long", "long-alias"):
                return re.search(r"^    " + E(tok) + r"(?=[(:\s]|$)", b, re.M) is not None
            if kind == "value":
                db = block(script, r'^\s*def "nu-complete ' + E(binp) + " " + E(d["id"]) + r'" \[\] \{\s*$', r"^  \}\s*$")
                return db is not None and re.search(r'(?:^|\s)"' + E(tok) + r'"(?=\s)', db) is not None
            return True
        return f
    return lambda *a: True


# ----------------------------------------------------------------- the oracle
def failures(case, impl):
    """list of (family or None, message) : every way the implementation's output contradicts the property"""
    if impl is None or impl.startswith("BADSPEC") or impl.startswith("INVALID") or impl.startswith("harness-error"):
        return []           # not a valid command tree / not a case: outside the property
    try:
        head = sx_parse(case)
        shell = head[1]
    except Exception:
        return []
    unsafe = shell == "bash" and mangle_unsafe(case)
    if impl.startswith("PANIC") or impl.startswith("ABORT"):
        fam = "bash-dunder-lookup" if unsafe and ("unwrap" in impl or "None" in impl) else None
        return [(fam, "the %s generator does not terminate normally on a valid command tree: %s" % (shell, impl[:200]))]
    out = []
    it = top_items(impl)
    if it["det"][1] != "true":
        out.append((None, "the %s generator is not deterministic (generating twice gave different bytes)" % shell))
    script = unhex(it["script"][1]).decode("utf-8", "replace")
    root = read_node(it["built"][1])
    # ---- mentions
    check = mention_checker(shell, script, root)
    for names, n in all_nodes(root):
        if shell == "fish" and n["depth"] > 2:
            continue                       # the fish format supports two subcommand levels
        for kind, tok, d in node_tokens(n):
            if not check(names, n, kind, tok, d):
                fam = token_family(shell, kind, tok, d)
                if fam is None and unsafe:
                    fam = "bash-dunder-lookup"
                out.append((fam, "%s script does not mention %s %r of `%s`" % (shell, kind, tok, " ".join((root["bin"],) + names))))
    # ---- bash: accepted, and offers exactly the addressed level
    if shell == "bash":
        if it["syntax"][1] != "ok":
            out.append(("bash-dunder-lookup" if unsafe else None, "bash -n rejects the generated script"))
        queries = [[dec(w) for w in q[1:]] for q in head[4:] if isinstance(q, list) and q and q[0] == "q"]
        replies = it["replies"][1:]
        for q, r in zip(queries, replies):
            msg = check_query(root, q, r)
            if msg:
                fam, text = msg
                if fam is None and unsafe:
                    fam = "bash-dunder-lookup"
                out.append((fam, text))
        if len(replies) < len(queries) and it["syntax"][1] == "ok":
            out.append((None, "bash produced no reply for %d queries" % (len(queries) - len(replies))))
    return out


def check_query(root, q, reply):
    """q = [bin, w1.., cur]; expected by the property: exactly the options and subcommands of the level addressed by
    the preceding words that extend cur."""
    if len(q) < 2:
        return None
    cur = q[-1]
    n = root
    words = q[1:-1]
    opt_query = None
    for i, w in enumerate(words):
        s = next((x for x in n["subs"] if w in sub_words(x)), None)
        if s is None:
            if i == len(words) - 1 and w.startswith("-"):
                opt_query = w
                break
            return None                    # not a subcommand path of the built tree: nothing to say
        n = s
    if reply[0] != "r":
        return (None, "no COMPREPLY for %r" % (q,))
    got = [dec(x) for x in reply[1:]]
    if opt_query is not None:
        if cur.startswith("-"):
            return None
        a = None
        for x in n["args"]:
            keys = (["-" + x["short"]] if x["short"] else []) + (["--" + x["long"]] if x["long"] else [])
            if x["short"]:
                keys += ["-" + c for c, v in x["sa"] if v]
            if x["long"]:
                keys += ["--" + c for c, v in x["la"] if v]
            if opt_query in keys:
                a = x
        if a is None or not a["takes"] or not a["pvs"] or a["hint"] == "FilePath":
            return None     # (FilePath + possible values: IFS=$'\\n' keeps the word list unsplit; observation, see notes)
        exp = [nm for nm, v in a["pvs"] if v and nm.startswith(cur)]
        if sorted(set(got)) != sorted(set(exp)):
            return (None, "bash offers %r as values of %s for %r; the non-hidden possible values extending the word are %r"
                    % (got, opt_query, q, exp))
        return None
    required, allowed = set(), set()
    for a in n["args"]:
        toks = []
        if a["short"]:
            toks.append("-" + a["short"])
        if a["long"]:
            toks.append("--" + a["long"])
        toks += ["-" + c for c, v in a["sa"] if v]
        toks += ["--" + c for c, v in a["la"] if v]
        if a["pos"]:
            continue
        (allowed if a["hide"] else required).update(toks)
    for s in n["subs"]:
        (allowed if s["hide"] else required).update(sub_words(s))
    pos_vals = set()
    for a in n["args"]:
        if a["pos"] and a["pvs"]:
            pos_vals.update(nm for nm, v in a["pvs"])
    exp = sorted(t for t in required if t.startswith(cur))
    gs = set(got)
    missing = [t for t in exp if t not in gs]
    extra = [t for t in gs if not (t in required or t in allowed or t in pos_vals or t[:1] in "[<")]
    if missing or extra:
        fam = None
        if any(cur in sub_words(s) for s in n["subs"]) and cur != "":
            fam = "bash-cur-is-subcommand"
        elif not extra and all(is_alias_without_primary(n, t) for t in missing):
            fam = "alias-without-primary"
        return (fam, "bash, COMP_WORDS=%r: offered %r; the addressed level `%s` has %r extending %r (missing %r, foreign %r)"
                % (q, sorted(gs), " ".join(q[:-1]), exp, cur, missing, extra))
    return None


def is_alias_without_primary(n, tok):
    for a in n["args"]:
        if tok.startswith("--"):
            if not a["long"] and any(v and "--" + c == tok for c, v in a["la"]):
                return True
        elif not a["short"] and any(v and "-" + c == tok for c, v in a["sa"]):
            return True
    return False


def oracle(case, impl):
    fs = failures(case, impl)
    if not fs:
        return None
    unknown = [m for f, m in fs if f is None]
    if unknown:
        return unknown[0] + (" (+%d more)" % (len(fs) - 1) if len(fs) > 1 else "")
    return "[%s] %s" % fs[0]


def classify_known(stream, case, impl, failure):
    try:
        fs = failures(case, impl)
    except Exception:
        return None
    if failure == "diff":
        # the model has no counterpart only where the implementation panics inside the known family
        if impl.startswith("PANIC") and fs and fs[0][0] == "bash-dunder-lookup":
            return "bash-dunder-lookup"
        return None
    if fs and all(f is not None for f, m in fs):
        return fs[0][0]
    return None


# ----------------------------------------------------------------- projection
def project(r):
    if r is None:
        return "none"
    if r.startswith("PANIC"):
        return "PANIC"
    if not r.startswith("(shell"):
        return r.split(" ")[0]
    it = top_items(r)
    shell = it["shell"][1]
    out = ["shell " + shell, "det " + it["det"][1], "built " + sx_str(it["built"][1])]
    if shell == "bash":
        text = unhex(it["script"][1]).decode("utf-8", "replace")
        out.append("script\n" + "\n".join(l.strip() for l in text.split("\n") if l.strip()))
        out.append("syntax " + it["syntax"][1])
        out.append("replies " + sx_str(it["replies"]))
    return "\n".join(out)


def nontrivial(case, impl):
    return impl.startswith("(shell") and "(subs (node" in impl


# ---- fish generator model ----
def fish_project(r):
    """the generated file, byte for byte (implementation: `(script x..)` item of the aot result; model: the same item)"""
    if r is None:
        return "none"
    if r.startswith("PANIC"):
        return "PANIC"
    m = re.search(r"\(script (x[0-9a-f]*)\)", r)
    return "script " + m.group(1) if m else r.split(" ")[0]


FISH_NAME_BYTES = ["'", "\\", ",", "$", "#", " ", "\"", "`", "(", ")", ";", "\t", "é", "%", "~", "*", "=", "\n", "-", "_"]


def fish_names_case(rng):
    """a small valid tree (depth <= 3 below the root) with adversarial names; every name ends in a serial number
    (unique), no name starts with '-' (clap's configuration check), shorts are distinct over the tree"""
    k = [0]

    def fresh():
        k[0] += 1
        s = "".join(rng.choice(FISH_NAME_BYTES + list("abc")) for _ in range(rng.choice([1, 2, 3])))
        if s.startswith("-"):
            s = "a" + s
        return s + "n%d" % k[0]

    shorts = [c for c in FISH_NAME_BYTES if c != "-"] + list("xyz")
    rng.shuffle(shorts)

    def arg():
        items = ["arg", hexs(fresh())]
        kind = rng.choice(["flag", "opt", "optpv", "pos"])
        if kind != "pos":
            r = rng.random()
            if r < 0.7 and shorts:
                items.append("(s %s)" % hexs(shorts.pop()))
                if rng.random() < 0.2 and shorts:
                    items.append("(vsa %s)" % hexs(shorts.pop()))
            if r > 0.3 or len(items) == 2:
                items.append("(l %s)" % hexs(fresh()))
                if rng.random() < 0.3:
                    items.append("(vla %s)" % hexs(fresh()))
        items.append("(act %s)" % ("flag" if kind == "flag" else "set"))
        if kind == "optpv" or (kind == "pos" and rng.random() < 0.5):
            for _ in range(rng.choice([1, 2, 3])):
                items.append("(%s %s)" % (rng.choice(["pv", "pv", "hpv"]), hexs(fresh())))
        return "(" + " ".join(items) + ")", kind == "pos"

    def cmd(depth):
        items = ["cmd", hexs(fresh() if depth else "prog")]
        if depth and rng.random() < 0.4:
            items.append("(va %s)" % hexs(fresh()))
        npos = 0
        for _ in range(rng.choice([0, 1, 2, 3])):
            a, is_pos = arg()
            if is_pos and npos:
                continue
            npos += is_pos
            items.append(a)
        if depth < 3:
            for _ in range(rng.choice([0, 1, 2] if depth < 2 else [0, 1])):
                items.append(cmd(depth + 1))
        return "(" + " ".join(items) + ")"

    return "(aot fish %s %s)" % (hexs(rng.choice(["prog", "my-prog", "a b", "q'r"])), cmd(0))
# ---- end fish generator model ----


# ----------------------------------------------------------------- adversarial trees (known families and their borders)
def adv_dunder(g, rng):
    """names with '__', a trailing '_', and paths that collide after '-' -> '__'"""
    k = rng.randrange(6)
    h = hexs
    if k == 0:
        return "(cmd %s (cmd %s))" % (h("prog"), h("a__b")), {"name": "prog", "aliases": [], "help": True, "subs": [
            {"name": "a__b", "aliases": [], "subs": [], "help": True}]}
    if k == 1:
        return "(cmd %s (cmd %s (cmd %s)))" % (h("prog"), h("a_"), h("b")), {"name": "prog", "aliases": [], "help": True, "subs": [
            {"name": "a_", "aliases": [], "help": True, "subs": [{"name": "b", "aliases": [], "subs": [], "help": True}]}]}
    if k == 2:
        return ("(cmd %s (cmd %s (arg %s (l %s))) (cmd %s (cmd %s (arg %s (l %s)))))"
                % (h("prog"), h("a-b"), h("i1"), h("in-a-b"), h("a"), h("b"), h("i2"), h("in-a-slash-b"))), \
            {"name": "prog", "aliases": [], "help": True, "subs": [
                {"name": "a-b", "aliases": [], "subs": [], "help": True},
                {"name": "a", "aliases": [], "help": True, "subs": [{"name": "b", "aliases": [], "subs": [], "help": True}]}]}
    if k == 3:
        return "(cmd %s (cmd %s) (cmd %s))" % (h("prog"), h("a-b"), h("a__b")), {"name": "prog", "aliases": [], "help": True, "subs": [
            {"name": "a-b", "aliases": [], "subs": [], "help": True}, {"name": "a__b", "aliases": [], "subs": [], "help": True}]}
    if k == 4:
        return "(cmd %s (cmd %s (cmd %s)))" % (h("prog"), h("x y"), h("z")), {"name": "prog", "aliases": [], "help": True, "subs": [
            {"name": "x y", "aliases": [], "help": True, "subs": [{"name": "z", "aliases": [], "subs": [], "help": True}]}]}
    # border: single underscores and a leading underscore are inside the class
    return "(cmd %s (cmd %s (cmd %s)))" % (h("prog"), h("_a_b"), h("_c")), {"name": "prog", "aliases": [], "help": True, "subs": [
        {"name": "_a_b", "aliases": [], "help": True, "subs": [{"name": "_c", "aliases": [], "subs": [], "help": True}]}]}


def merge(d, s):
    for k, v in s.items():
        d[k] = d.get(k, 0) + v


def streams(tier, rng):
    quick = tier == "quick"
    out = []
    # 1. bash, trees inside the class, queries that address a level by complete words
    n = 140 if quick else 2000
    cases, dist = [], {}
    for _ in range(n):
        c, st = make_case(rng, "bash", tier, nq=30 if quick else 70)
        cases.append(c)
        merge(dist, st)
    out.append(Stream("bash", cases, oracle=oracle, area="aot", project=project, nontrivial=nontrivial, describe=dist))
    # 2. the other five generators on the same kind of trees
    n = 50 if quick else 700
    cases, dist = [], {}
    for sh in SHELLS[1:]:
        for _ in range(n):
            c, st = make_case(rng, sh, tier)
            cases.append(c)
            merge(dist, st)
    out.append(Stream("shells", cases, oracle=oracle, area="aot", project=project, nontrivial=nontrivial, describe=dist))
    # 3. adversarial: borders of the class and the known families
    n = 12 if quick else 150
    cases, dist = [], {}
    for _ in range(n):
        c, st = make_case(rng, "bash", tier, nq=30, fixed=adv_dunder, profile={"bin": "prog"})
        cases.append(c)
        merge(dist, st)
        c, st = make_case(rng, "bash", tier, nq=40, exact_names=True)
        cases.append(c)
        merge(dist, st)
        for bn in ("a__b", "b_"):
            c, st = make_case(rng, "bash", tier, nq=10, profile={"bin": bn})
            cases.append(c)
            merge(dist, st)
    for sh in SHELLS:
        for _ in range(max(2, n // 3)):
            c, st = make_case(rng, sh, tier, nq=30, profile={"alias_without_primary": True})
            cases.append(c)
            merge(dist, st)
    for _ in range(n):
        c, st = make_case(rng, "zsh", tier, profile={"optional_value": True})
        cases.append(c)
        merge(dist, st)
    out.append(Stream("adversarial", cases, oracle=oracle, area="aot", project=project, nontrivial=nontrivial, describe=dist))
    # ---- fish generator model ----
    # 4. the byte-exact Gallina model of fish.rs (Complete/FishModel.v, driver ocaml/fish_driver.ml) against the real
    #    generator: the whole file is compared, whitespace included
    n = 120 if quick else 1500
    cases, dist = [], {}
    for i in range(n):
        prof = {"alias_without_primary": True} if i % 8 == 7 else None
        c, st = make_case(rng, "fish", tier, profile=prof)
        cases.append(c)
        merge(dist, st)
    out.append(Stream("fish-model", cases, oracle=oracle, area="fish", project=fish_project, nontrivial=nontrivial,
                      describe=dist))
    # 5. the same comparison on trees whose names (commands, aliases, longs, shorts, possible values, bin) contain
    #    quotes, backslashes, commas, '$', '#', white space, newlines, non-ASCII: escape_string / the comma rule /
    #    raw emission, byte for byte.  No oracle: the token search of the mention oracle looks for the raw spelling.
    cases = [fish_names_case(rng) for _ in range(60 if quick else 1200)]
    out.append(Stream("fish-model-names", cases, area="fish", project=fish_project, nontrivial=nontrivial,
                      describe={"trees": len(cases), "name alphabet": [repr(c) for c in FISH_NAME_BYTES]}))
    # ---- end fish generator model ----
    return out


TECHNIQUE = ("Coq proof (tree-walk soundness/completeness of utils.rs and of the bash generator's transition and case "
             "tables, by induction over command trees of any depth; byte-exact Gallina model of the fish generator with "
             "mention theorems for the root and both supported subcommand levels) + extracted-model/implementation "
             "correspondence (bash script, fish file byte for byte, built tree, COMPREPLY under the installed bash) + "
             "token oracle for all six shells")
LEVEL_TEXT = ("Machine-checked theorems (Coq 8.16, closed under the global context) about an executable model of "
              "clap_complete's generator/utils.rs and shells/bash.rs: all_subcommands lists exactly the (name or visible "
              "alias, bin path) pairs of every non-root node; shorts/longs/flags/possible_values return exactly the "
              "visible spellings; for mangle_safe trees every path of names or visible aliases drives the generated "
              "cmd,word) table to the function of the addressed node and that function's opts are exactly the node's "
              "options and subcommand words; the model of bash's reading of the script then replies, for a partial word that is not itself a child's word, exactly the words of the addressed level that start with it (compgen -W = prefix filter).  "
              "fish: a byte-exact model of shells/fish.rs (generate, gen_fish_inner, gen_subcommand_helpers, "
              "value_completion, the escapes) over the built tree; generation is total (fails only on a missing bin name) "
              "and deterministic; for every tree with a bin name, for the root and every node reached by one or two names "
              "or visible aliases, every named argument has a line carrying every short/long spelling the accessors "
              "return (in the class aliases_have_primary: every short, long and visible alias) and every non-hidden "
              "possible value, and every subcommand name and visible alias has its -a line; below two levels the "
              "generator writes nothing (proved; witness replayed), and outside aliases_have_primary a visible alias is "
              "written nowhere (the recorded finding).  The models are tied to the real crates on "
              "every check: the extracted model's bash script, the fish file (byte for byte, incl. adversarial names), built tree and COMPREPLY lists are compared with the real "
              "generator's output, Command::build and the installed bash; a python oracle written from the property text "
              "checks token coverage for all six shells and bash's replies per subcommand path and partial word.")
LEVEL_NOTE = ("Partial: zsh/PowerShell/elvish/nushell have no generator model (token oracle only); fish has a byte-exact "
              "generator model with theorems but cannot be executed here (what fish does with the complete lines is not "
              "modelled); bash itself is validated by execution, not proved; known findings (see known_findings.json) "
              "are outside the proved class.")


# ---- powershell / elvish generator models ------------------------------------------------------------------
# Byte-exact Gallina models of clap_complete/src/aot/shells/{powershell,elvish}.rs (coq/theories/Complete/
# {Powershell,Elvish}Model.v over the built tree of AotTree.v; the generic table specification and the coverage
# theorems are in PathTable.v / {Powershell,Elvish}Proofs.v).  Two more correspondence streams: the script of the
# extracted model must equal the real generator's script BYTE FOR BYTE (white space included) on every tree.
AREAS = AREAS + ["elvish", "powershell"]
TRUSTED = TRUSTED + [
    "PowerShell / elvish generator models: extraction of Complete/{Powershell,Elvish}Model.v + Complete/TextTree.v "
    "(ExtrOcamlBasic only), drivers ocaml/{powershell,elvish}_driver.ml (spec reader, UTF-8 decode/encode by the "
    "extracted Base.Utf8); char::is_uppercase is a parameter of the PowerShell model (the driver supplies it: exact "
    "on ASCII, Latin-1, Greek and Cyrillic capitals); the theorems hold for every such function",
]


def model_script_project(r):
    """what the streams `elvish-model` / `powershell-model` compare: the script, byte for byte"""
    if r is None:
        return "none"
    if not r.startswith("(shell"):
        return r.split(" ")[0]
    it = top_items(r)
    return "shell %s\nscript %s" % (it["shell"][1], it["script"][1])


def _model_stream(shell, tier, rng):
    quick = tier == "quick"
    cases, dist = [], {}
    plans = [(None, 60 if quick else 900),
             ({"alias_without_primary": True}, 10 if quick else 120),       # boundary of C16_<shell>_covers
             ({"bin": "b in"}, 4 if quick else 40), ({"bin": "é-x"}, 4 if quick else 40)]
    for prof, n in plans:
        for _ in range(n):
            c, st = make_case(rng, shell, tier, profile=prof)
            cases.append(c)
            merge(dist, st)
    # non-ASCII short options in both cases (PowerShell appends a space to an uppercase short: char::is_uppercase)
    h = hexs
    cases.append("(aot %s %s (cmd %s (arg %s (s %s) (l %s)) (arg %s (s %s) (act flag)) (arg %s (s %s) (vsa %s) (act flag)) "
                 "(cmd %s (va %s))))" % (shell, h("p"), h("p"), h("o1"), h("\u00c9"), h("lo1"), h("o2"), h("\u00e9"), h("o3"),
                                         h("\u03a9"), h("\u00df"), h("n\u00e91"), h("\u00dcn\u00ef")))
    dist["non-ascii-shorts-case"] = 1
    return Stream(shell + "-model", cases, oracle=oracle, area=shell, project=model_script_project,
                  nontrivial=nontrivial, describe=dist)


_streams_without_models = streams


def streams(tier, rng):
    out = _streams_without_models(tier, rng)
    out.append(_model_stream("elvish", tier, rng))
    out.append(_model_stream("powershell", tier, rng))
    return out


# what MANIFEST.json says about C16 after round 2 (the strings above describe round 1)
RULE = RULE + ("  Streams elvish-model / powershell-model: the same trees (+ options whose aliases have no primary, bin names with "
               "a space / non-ASCII, non-ASCII shorts in both cases) on which the script of the extracted generator model "
               "must equal the real script byte for byte.")
TECHNIQUE = ("Coq proof (tree-walk soundness/completeness of utils.rs; the bash generator's transition and case tables; "
             "byte-exact models of the PowerShell and elvish generators with coverage and lookup theorems -- all by "
             "induction over command trees of any depth) + extracted-model/implementation correspondence (bash: script, "
             "built tree, COMPREPLY under the installed bash; PowerShell/elvish: the script byte for byte) + token oracle "
             "for all six shells")
LEVEL_TEXT = (LEVEL_TEXT +
              "  Round 2: executable Gallina transcriptions of shells/powershell.rs and shells/elvish.rs (every panic site "
              "visible) are proved to compute one table specification; Command::build never runs out of fuel and generation "
              "(set_bin_name + build + generator) writes a script for every command tree, deterministically; for every "
              "tree whose nodes have bin names (what build establishes) and for EVERY path of names or visible "
              "aliases, at every depth, the script contains the block keyed by the ';'-joined path with an entry for every "
              "short/long spelling and visible alias of every option or flag that has the primary spelling and for every "
              "name and visible alias of every subcommand; when sibling names are distinct and no name contains ';' every "
              "block with that key carries exactly that node's entries, so the shell's lookup finds it.  The two recorded "
              "findings (aliases without primary, possible values) and the empty bin name are proved class boundaries "
              "(refutation witnesses).  The models' scripts are compared byte for byte with the real generators' on every "
              "generated tree on every run.")
LEVEL_NOTE = ("Partial: zsh/fish/nushell have no generator model (token oracle only); bash itself is validated by execution, "
              "not proved; PowerShell and elvish are not installed (their scripts are modelled and analysed, not run); "
              "Command::build and its text side are tied differentially (built-tree dump, byte-exact scripts; that build "
              "never exhausts its fuel IS proved: C16_build_total); char::is_uppercase is a parameter of the PowerShell "
              "model; known findings (see known_findings.json) are outside the proved class.")


# ---- nushell generator model ----
# Byte-exact Gallina transcription of clap_complete_nushell/src/lib.rs (coq/theories/Complete/NushellModel.v over the
# built tree of AotTree.v, texts in FishModel.cdesc; specification in pieces and theorems in NushellProofs.v /
# NushellLexProofs.v).  Two more correspondence streams (area `nushell`, ocaml/nushell_driver.ml): the module the
# extracted model writes must equal the real generator's module BYTE FOR BYTE (white space included).
AREAS = AREAS + ["nushell"]
TRUSTED = TRUSTED + [
    "nushell generator model: extraction of Complete/NushellModel.v (+ FishModel.cdesc/dbuild for the texts; "
    "ExtrOcamlBasic only), driver ocaml/nushell_driver.ml (readers of the aot and aottext spec formats); "
    "char::is_whitespace is modelled by the UTF-8 encodings of the 25 White_Space characters; str::lines().last() by "
    "split_inclusive + LinesMap as in core 1.95; StyledStr::to_string of texts without ANSI escapes is the text",
]

NU_NAME_BYTES = ["'", "\\", ",", "$", "#", " ", "\"", "`", "(", ")", ";", "\t", "\u00e9", "%", "~", "*", "=", "\n", "\r", "-",
                 "_", "\u00a0", "\u2003", "\u3000", "\u0085", "\u200b", "\u1680", "\u2028", "\u205f", "\x0b", "\x0c",
                 "[", "]", ":", "@", "?", "."]


def nushell_names_case(rng):
    """a small valid tree (depth <= 3 below the root) with adversarial names: quotes, backslashes, white space of
    every kind in possible values (the `"\\"v\\""` branch), newlines and carriage returns inside and at the end of ids
    and longs (str::lines().last() decides the padding of the help comment), names longer than the 30-column indent;
    help / about texts (the `(help x..)` / `(about x..)` items of the aot spec) so that the padding is exercised.
    Every name carries a serial number (unique), no name starts with '-', shorts are distinct over the tree."""
    k = [0]

    def fresh(tail=True):
        k[0] += 1
        n = rng.choice([1, 2, 3, 3, 8, 26, 31])
        s = "".join(rng.choice(NU_NAME_BYTES + list("abc")) for _ in range(n))
        if s.startswith("-"):
            s = "a" + s
        s = s + "n%d" % k[0]
        if tail and rng.random() < 0.15:
            s += rng.choice(["\r", "\n", "\r\n", "\n\n", " "])
        return s

    shorts = [c for c in NU_NAME_BYTES if c != "-"] + list("xyz")
    rng.shuffle(shorts)

    def arg():
        items = ["arg", hexs(fresh())]
        kind = rng.choice(["flag", "opt", "optpv", "pos", "pos"])
        if kind != "pos":
            r = rng.random()
            if r < 0.7 and shorts:
                items.append("(s %s)" % hexs(shorts.pop()))
                if rng.random() < 0.3 and shorts:
                    items.append("(vsa %s)" % hexs(shorts.pop()))
            if r > 0.3 or len(items) == 2:
                items.append("(l %s)" % hexs(fresh()))
                if rng.random() < 0.3:
                    items.append("(vla %s)" % hexs(fresh()))
                if rng.random() < 0.15:
                    items.append("(hla %s)" % hexs(fresh()))
        items.append("(act %s)" % ("flag" if kind == "flag" else rng.choice(["set", "set", "append"])))
        if kind == "pos" and rng.random() < 0.4:
            items.append("(required)")
        if kind != "flag" and rng.random() < 0.4:
            items.append("(hint %s)" % rng.choice(GEN_HINTS))
        if kind == "optpv" or (kind == "pos" and rng.random() < 0.5):
            for _ in range(rng.choice([1, 2, 3])):
                items.append("(%s %s)" % (rng.choice(["pv", "pv", "hpv"]), hexs(fresh(tail=False))))
        if rng.random() < 0.75:
            items.append("(help %s)" % hexs(text()))
        return "(" + " ".join(items) + ")", kind == "pos"

    def text():
        return rng.choice(["", "h", "two\nlines", "cr\r\nlf\n", "it's \"q\" `b` $x # [y]", "\n", "tr\u00e9s \u2028 long " * 3])

    def cmd(depth):
        items = ["cmd", hexs(fresh() if depth else "prog")]
        if depth and rng.random() < 0.4:
            items.append("(va %s)" % hexs(fresh()))
        if rng.random() < 0.6:
            items.append("(about %s)" % hexs(text()))
        npos = 0
        for _ in range(rng.choice([0, 1, 2, 3])):
            a, is_pos = arg()
            if is_pos and npos:
                continue
            npos += is_pos
            items.append(a)
        if depth < 3:
            for _ in range(rng.choice([0, 1, 2] if depth < 2 else [0, 1])):
                items.append(cmd(depth + 1))
        return "(" + " ".join(items) + ")"

    return "(aot nushell %s %s)" % (hexs(rng.choice(["prog", "my-prog", "a b", "q'r", "p\nq", "x\r"])), cmd(0))


def _nushell_model_streams(tier, rng):
    quick = tier == "quick"
    cases, dist = [], {}
    plans = [(None, 90 if quick else 1300),
             ({"alias_without_primary": True}, 12 if quick else 150),     # boundary of C16_nushell_mentions_all_spellings
             ({"bin": "b in"}, 4 if quick else 40), ({"bin": "é-x"}, 4 if quick else 40)]
    for prof, n in plans:
        for _ in range(n):
            c, st = make_case(rng, "nushell", tier, profile=prof)
            cases.append(c)
            merge(dist, st)
    names = [nushell_names_case(rng) for _ in range(60 if quick else 1200)]
    return [Stream("nushell-model", cases, oracle=oracle, area="nushell", project=fish_project, nontrivial=nontrivial,
                   describe=dist),
            # no oracle: the token search of the mention oracle looks for the raw spelling inside its own quoting
            Stream("nushell-model-names", names, area="nushell", project=fish_project, nontrivial=nontrivial,
                   describe={"trees": len(names), "name alphabet": [repr(c) for c in NU_NAME_BYTES]})]


_streams_without_nushell_model = streams


def streams(tier, rng):
    return _streams_without_nushell_model(tier, rng) + _nushell_model_streams(tier, rng)
# what MANIFEST.json says about C16 after the nushell model (the strings above describe the state before it)
RULE = RULE + ("  Streams nushell-model / nushell-model-names: the same trees (+ aliases without primary, bin names with a space "
               "/ non-ASCII) and small trees with adversarial names (quotes, brackets, every kind of Unicode white space in "
               "possible values, LF / CR / CR LF inside and at the end of ids and longs, names longer than the 30-column "
               "indent) and help / about texts, on which the module of the extracted nushell generator model must equal the "
               "real module byte for byte.")
TECHNIQUE = TECHNIQUE.replace("PowerShell/elvish: the script byte for byte)", "fish/PowerShell/elvish/nushell: the script byte for byte)") \
    .replace("byte-exact models of the PowerShell and elvish generators with coverage and lookup theorems",
             "byte-exact models of the fish, PowerShell, elvish and nushell generators with coverage theorems")
LEVEL_TEXT = (LEVEL_TEXT +
              "  nushell: an executable Gallina TRANSCRIPTION of clap_complete_nushell/src/lib.rs (all of it; the string written "
              "so far is threaded through every function as in the Rust code, because the padding of a help comment is "
              "computed from s.lines().last(); every expect / unreachable! visible) is proved to compute a specification in "
              "pieces whenever every node has a bin name, so no panic site is reachable after build; generate() writes a module "
              "for EVERY command tree, deterministically; for EVERY path of names or visible aliases, at every depth, the module "
              "contains the block of the addressed command -- the module consists of EXACTLY one export extern block per command, in "
              "pre-order, declared under the bin path of the NAMES -- with a line for every short and long spelling the accessors return (class aliases_have_primary: "
              "every short, long and visible alias), a line for every positional, and the nu-complete definition with every "
              "possible value (hidden ones included) referenced from the argument's lines.  The two recorded findings "
              "(option aliases without primary, subcommand aliases) are proved class boundaries with replayed witnesses.  The "
              "model's module is compared byte for byte with the real generator's on every generated tree on every run.  "
              "Command::build makes the bin names linked (parent's bin, a blank, the name) for every user tree without bin "
              "names of its own and a non-empty bin (C16_build_linked), so the declared path of a block is 'bin n1 .. nk'.")
LEVEL_NOTE = LEVEL_NOTE.replace("Partial: zsh/fish/nushell have no generator model (token oracle only)",
                                "Partial: zsh has no generator model (token oracle only); fish, PowerShell, elvish and nushell have "
                                "byte-exact generator models with theorems but are not installed (what the shell does with the script "
                                "is not modelled); that two commands never share a declared name is not stated (exactly one block per command is)")
# ---- end nushell generator model ----
# ---- zsh generator model ----
# Byte-exact Gallina model of clap_complete/src/aot/shells/zsh.rs (coq/theories/Complete/ZshModel.v over the built tree of
# AotTree.v and the text decoration of FishModel.v; theorems in ZshProofs.v / ZshLexProofs.v).  Correspondence streams
# `zsh-model` / `zsh-model-names`: the script of the extracted model must equal the real generator's script BYTE FOR BYTE.
AREAS = AREAS + ["zsh"]
TRUSTED = TRUSTED + [
    "zsh generator model: extraction of Complete/ZshModel.v (+ FishModel.v's text decoration and dbuild; ExtrOcamlBasic "
    "only), driver ocaml/zsh_driver.ml (readers of the aot and aottext spec formats; since round 4 value_names, "
    "value_terminator, last, Arg::blacklist = conflicts_with and Arg::groups are fields of AotTree.arg read from the "
    "(vn ..) (term ..) (last) (cx ..) (grp ..) items by all six drivers; argument groups are modelled as _build_self makes "
    "them from Arg::group(s), explicit ArgGroup declarations and Arg::index are outside the model)",
]

ZSH_NAME_BYTES = ["'", "\\", ",", "$", "#", " ", "\"", "`", "(", ")", ";", "\t", "é", "%", "~", "*", "=", "\n", "-", "_",
                  "[", "]", ":", "+", "|"]


def zsh_names_case(rng):
    """fish_names_case with the alphabet of the zsh slots ('[', ']', ':' added) for the zsh generator"""
    global FISH_NAME_BYTES
    saved = FISH_NAME_BYTES
    FISH_NAME_BYTES = ZSH_NAME_BYTES
    try:
        c = fish_names_case(rng)
    finally:
        FISH_NAME_BYTES = saved
    return c.replace("(aot fish ", "(aot zsh ", 1)


def zsh_lookup_cases():
    """the lookup by bin name (parser_of): sibling names that are string prefixes of each other, at two levels and
    in both orders; names with a space whose bin name collides with a nested path (both orders: the lookup returns
    the first in pre-order); empty bin name; empty subcommand name"""
    h = hexs
    fl = lambda i, s: "(arg %s (s %s) (act flag))" % (h(i), h(s))
    out = []
    for a, b in (("add", "add-all"), ("add-all", "add"), ("a", "a b"), ("ab", "a")):
        out.append("(aot zsh %s (cmd %s (cmd %s %s (cmd %s %s) (cmd %s %s)) (cmd %s %s (cmd %s %s))))"
                   % (h("p"), h("p"), h(a), fl("f1", "a"), h(a), fl("f2", "b"), h(b), fl("f3", "c"),
                      h(b), fl("f4", "d"), h(a), fl("f5", "e")))
    out.append("(aot zsh %s (cmd %s (cmd %s %s) (cmd %s (cmd %s %s))))"
               % (h("prog"), h("prog"), h("a b"), fl("f1", "x"), h("a"), h("b"), fl("f2", "y")))
    out.append("(aot zsh %s (cmd %s (cmd %s (cmd %s %s)) (cmd %s %s)))"
               % (h("prog"), h("prog"), h("a"), h("b"), fl("f2", "y"), h("a b"), fl("f1", "x")))
    out.append("(aot zsh %s (cmd %s (cmd %s (cmd %s))))" % (h(""), h("prog"), h("a"), h("b")))
    out.append("(aot zsh %s (cmd %s (cmd %s (cmd %s))))" % (h("a"), h("prog"), h(""), h("b")))
    out.append("(aot zsh %s (cmd %s (cmd %s (cmd %s)) (cmd %s)))" % (h("p q"), h("prog"), h("r"), h("s"), h("r s")))
    return out


_streams_without_zsh_model = streams


def streams(tier, rng):
    out = _streams_without_zsh_model(tier, rng)
    quick = tier == "quick"
    cases, dist = [], {}
    plans = [(None, 90 if quick else 1300),
             ({"alias_without_primary": True}, 12 if quick else 150),    # finding alias-without-primary (class boundary)
             ({"optional_value": True}, 12 if quick else 150),           # finding zsh-optional-value (class boundary)
             ({"conflicts": 1.0}, 25 if quick else 400),                 # conflicts_with on every level with >= 2 options: the exclusion lists, in order
             # round 4: value names, value terminators, last(true), a multi-valued positional before the last one, argument
             # groups and conflicts_with naming a group (the exclusion list expands the group), all frequent
             ({"ext": 0.7, "groups": 0.7, "conflicts": 0.5}, 45 if quick else 700),
             # a GLOBAL argument conflicting with a group (the repaired finding zsh-global-conflicts-group: generation used
             # to panic; now the exclusion list expands the group, at the root and in every subcommand the argument reaches)
             ({"groups": 1.0, "global_group": True, "conflicts": 0.0}, 8 if quick else 80),
             ({"bin": "b in"}, 4 if quick else 40), ({"bin": "é-x"}, 4 if quick else 40)]
    for prof, n in plans:
        for _ in range(n):
            c, st = make_case(rng, "zsh", tier, profile=prof)
            cases.append(c)
            merge(dist, st)
    out.append(Stream("zsh-model", cases, oracle=oracle, area="zsh", project=fish_project, nontrivial=nontrivial,
                      describe=dist))
    cases = zsh_lookup_cases() + [zsh_names_case(rng) for _ in range(50 if quick else 1200)]
    out.append(Stream("zsh-model-names", cases, area="zsh", project=fish_project, nontrivial=nontrivial,
                      describe={"trees": len(cases), "name alphabet": [repr(c) for c in ZSH_NAME_BYTES],
                                "lookup cases": len(zsh_lookup_cases())}))
    return out


RULE = RULE + ("  Streams zsh-model / zsh-model-names: the same trees (+ options whose aliases have no primary, optional "
               "values, bin names with a space / non-ASCII; names with quotes, brackets, colons, spaces; sibling names that "
               "are prefixes of each other; colliding bin names) on which the script of the extracted zsh generator model "
               "must equal the real script byte for byte.")
TECHNIQUE = TECHNIQUE + ("; zsh: byte-exact model of shells/zsh.rs (the lookup by bin name modelled as the search it is) with "
                         "totality, exact-lookup, path-coverage and per-level mention theorems, the script compared byte for byte")
LEVEL_TEXT = (LEVEL_TEXT +
              "  zsh (round 2): an executable Gallina transcription of shells/zsh.rs (generate, subcommand_details, "
              "subcommands_of, get_subcommands_of, parser_of, get_args_of, write_opts_of, write_flags_of, "
              "write_positionals_of, value_completion, arg_conflicts; every expect a visible None; the recursion through "
              "parser_of fuelled) is proved total and deterministic for every linked tree with a bin name: the lookup by bin "
              "name is sound and complete on every tree (the expects on parser_of are dead) and, when no command name contains "
              "a space and sibling names are distinct, returns exactly the node whose bin name was looked up (siblings such "
              "as add / add-all included), so the recursion computes a function that is structural in the tree.  In that "
              "class the file contains, for EVERY path of names or visible aliases at every depth, the arm label of the last "
              "word followed by the _arguments block of the node the path leads to, nested in the arms of the words before; "
              "every block has a spec line for every short / long spelling the accessors return for an option (the primary "
              "and every visible alias when the primary exists), for the short, long and every visible alias of a flag, for "
              "every single-valued positional, carries every non-hidden possible value on every line of an option that "
              "requires a value and on positional lines, and the two lines leading to the subcommands; for every node the "
              "file has its _<bin>_commands function with an entry per name and visible alias of every subcommand.  The "
              "recorded findings alias-without-primary and zsh-optional-value and a subcommand name with a space (lookup "
              "returns another node: its flag is nowhere in the file; replayed) are proved class boundaries.  At the level of the "
              "tree the user wrote: when no subcommand carries an explicit bin name and the bin name is not empty, "
              "Command::build yields a linked tree and generate (set_bin_name + build + generator) writes a script for every "
              "tree and every assignment of texts.  The model's "
              "script is compared byte for byte with the real generator's on every generated tree on every run.")
LEVEL_NOTE = ("Partial: fish (two levels), PowerShell, elvish, nushell and zsh "
              "have byte-exact generator models with theorems but are not installed (their scripts are modelled and analysed, "
              "not run); bash itself is validated by execution, not proved; Command::build and its text side are tied "
              "differentially (built-tree dump, byte-exact scripts; that build never exhausts its fuel and yields a linked tree "
              "ARE proved); that build keeps names free of spaces and sibling names distinct is a hypothesis of the zsh "
              "exact-lookup and coverage theorems (tied by the built-tree dump); zsh: conflicts_with is a parameter of the "
              "model (the exclusion lists are compared byte for byte, their order is pinned by C16_zsh_conflicts_list), "
              "value_names, value_terminator, last, groups and conflicts on global arguments are outside the model, "
              "multi-valued positionals after a catch-all are skipped by design; char::is_uppercase is a parameter of the "
              "PowerShell model; known findings (see known_findings.json) are outside the proved class.")
# ---- end zsh generator model ----

# ---- round 3: the theorems reach the tree the user wrote; bash value branch; all six in one statement ----
TECHNIQUE = TECHNIQUE + ("; round 3: the names of the built tree as a structural function of the user's tree (the fuelled "
                         "recursion of Command::build eliminated), every name class and the user's paths / arguments carried "
                         "through build, the bash `case \"${prev}\"` value branch, one coverage statement for all six generators")
LEVEL_TEXT = (LEVEL_TEXT +
              "  Round 3 (the tree the USER wrote): erase(build c) = bskel c -- the names, aliases and shape of the built tree "
              "are a structural function of the user's tree (the same commands plus, wherever DisableHelpSubcommand is not in "
              "force, the generated help subcommand repeating the sibling names), proved through the fuelled recursion once "
              "(C16_build_skeleton); hence build keeps sibling names and aliases distinct when no subcommand is called `help` "
              "where clap generates one (C16_build_siblings_ok; the boolean class help_free), keeps every class of subcommand "
              "names containing `help` (C16_build_names: no blank, dd_safe), only ADDS commands and arguments "
              "(C16_build_extends) so that every path of the user's tree is a path of the built tree to the image of the same "
              "command with all its arguments and subcommands (C16_user_paths_are_built_paths).  With these, the classes of the "
              "per-shell theorems are established FROM THE USER'S TREE: zsh_ok (exact lookup, dispatch, coverage: "
              "C16_zsh_build_ok / C16_zsh_generate_ok), the unique-block lookup of PowerShell and elvish "
              "(C16_<sh>_generate_lookup), ztame_cmd of the C17 zsh structure theorem (C16_zsh_build_keeps_tame, "
              "C16_zsh_generate_same_skeleton), mangle_safe of the bash theorems for hyphen-free subcommand names "
              "(C16_bash_names_determine_node, C16_bash_generate_table_plain; otherwise the injectivity of the mangled names "
              "stays a hypothesis on the built tree: C16_build_mangle_safe), and `linked` is no hypothesis of the bash table "
              "theorem any more (C16_bash_generate_table; the duplicate C16_zsh_build_linked is gone).  bash value branch: after a path, a "
              "spelling of an option and a partial word the function replies what the arm of THAT option says "
              "(C16_bash_value_branch); for an option with possible values that is exactly the non-hidden values extending the "
              "word, whatever the value hint (Other, DirPath, ...) except FilePath, where IFS=$'\\n' makes the list one word "
              "(C16_bash_value_offers_possible_values, C16_bash_value_arm_text, C16_bash_value_filepath_refuted = observation "
              "O1).  zsh positionals exactly: the first multi-valued positional of a command without subcommands is the "
              "catch-all, later multi-valued ones are skipped, and in the class clap's configuration check accepts every "
              "positional has its line (C16_zsh_positionals_exact / _kept / _valid).  ONE statement for all six generators "
              "(C16_six_generators_mention_the_same_spellings): for every path of the user's tree, every option or flag of the "
              "addressed command and every spelling of it (short, long, visible aliases; class: an alias comes with its "
              "primary), each of the six scripts exists and mentions that spelling where its shell looks it up for that path "
              "(fish: paths of at most two words); for hyphen-free subcommand names all hypotheses are on the user's tree "
              "(_plain); the same for the names and visible aliases of the subcommands of the addressed command "
              "(C16_six_generators_mention_subcommands; nushell: the name); determinism of all six as one statement "
              "(C16_six_generators_deterministic).")
LEVEL_NOTE = LEVEL_NOTE.replace(
    "that build keeps names free of spaces and sibling names distinct is a hypothesis of the zsh "
    "exact-lookup and coverage theorems (tied by the built-tree dump); ",
    "that build keeps names free of spaces and sibling names distinct IS proved since round 3 (the built names are a "
    "structural function of the user's tree); for bash the injectivity of the mangled function names on the built tree is "
    "derived from the user's tree only when no subcommand name contains a hyphen, otherwise it is a hypothesis on the built "
    "tree; the six-generator statements cover option spellings and subcommand words (possible values are covered per shell, "
    "on the built tree, with C16_user_paths_are_built_paths as the bridge); ").replace(
    "multi-valued positionals after a catch-all are skipped by design; ",
    "multi-valued positionals are characterised exactly (a second catch-all is skipped by design; clap's configuration check "
    "admits at most one without `last`); the bash value branch is proved on the model of bash's reading of the script "
    "(validated under the installed bash on every run, incl. the Other/DirPath witnesses in corpus/C16); ")
# ---- end round 3 ----

# ---- round 4: value_names, value_terminator, last, conflicts over groups, the expect of get_arg_conflicts_with ----
RULE = RULE + ("  Round 4: in every stream arguments also carry value names (options: one or two, with a blank or colon; "
               "positionals: one), value terminators on multi-valued positionals, last(true) on the final positional, a "
               "multi-valued positional before a last one (with / without terminator), argument groups (Arg::groups) and "
               "conflicts_with naming a group (also twice, also beside argument ids); the zsh-model stream has a dense plan of "
               "these and a plan of global arguments conflicting with a group (the repaired finding zsh-global-conflicts-group).")
TECHNIQUE = TECHNIQUE + ("; round 4: the model's argument record extended by value_names, value_terminator, last, blacklist and "
                         "groups (other five generator models and their proofs untouched), zsh's get_arg_conflicts_with with "
                         "groups and with its panic sites as visible failures, every zsh theorem re-proved, the class kept by "
                         "Command::build from the user's tree")
LEVEL_TEXT = (LEVEL_TEXT +
              "  Round 4 (zsh reads value_names, value_terminator, last, conflicts_with over argument groups): the argument "
              "record of the model carries these fields (read from new spec items by the harness and all six drivers; every "
              "generated stream uses them; the six models stay byte-identical with the real generators), Arg::_build's "
              "num_args from value names and the positional placeholder with value names included.  zsh: every line of an option "
              "that requires a value carries :vn: with the FIRST value name (C16_zsh_option_value_name); write_positionals_of "
              "exactly, with last and terminators: the catch-all is the first multi-valued positional without terminator of a "
              "command without subcommands, one with terminator t is written *t: through escape_value, after the catch-all "
              "multi-valued AND last positionals are skipped, and a last positional has its line iff no catch-all precedes it "
              "(C16_zsh_positionals_exact / _kept / _last / _valid).  Command::get_arg_conflicts_with is modelled with its "
              "failure sites (panic! on an id that is neither argument nor group; expect in the global branch): an entry naming "
              "an argument resolves to it, an entry naming a GROUP to the members of the group in argument order (argument ids "
              "pairwise distinct), the nested-group branch and the expect on members are dead, an entry resolves iff it names an "
              "argument or a group (C16_zsh_conflicts_groups); the exclusion list of a non-global argument is the spellings of "
              "what its entries resolve to, in blacklist order (C16_zsh_conflicts_list).  The generator fails ONLY through a bin "
              "name or an unresolvable conflict (C16_zsh_args_fail_only_on_conflicts); in the local boolean class (every entry "
              "of an option / flag names an argument of its command or, if the option is not global, a group of it) nothing "
              "panics and, with exact lookup, a script is written (C16_zsh_total_local).  That class's boundary was a finding, "
              "now repaired: clap's configuration check accepts a GLOBAL argument that conflicts with a GROUP, "
              "get_global_arg_conflicts_with looked among arguments only and expected (zsh-global-conflicts-group); the repaired "
              "function falls back to the group of that id in the command or the subcommands containing the argument, the model "
              "follows it, the local class is exactly clap's check on the entries of options / flags (no extra clause for "
              "global arguments: C16_zsh_conflicts_local_meaning), a wider parent-aware class is proved sufficient too "
              "(C16_zsh_conflicts_parent_class) and the witness trees provably get their scripts "
              "(C16_zsh_global_conflicts_group_fixed).  "
              "From the USER's tree: Command::build keeps the class 'an argument that declares conflicts is not global and its "
              "entries name arguments or groups of its command' (it only appends arguments with empty blacklists) and that class "
              "gives the local class at every built node, so exact lookup, dispatch, coverage and totality hold for the file "
              "generate writes for trees WITH conflicts (C16_zsh_build_keeps_conflicts_class, C16_zsh_generate_ok_conflicts); the "
              "six-generator statements take the same class.  All earlier zsh theorems are re-proved on the extended model.")
LEVEL_NOTE = LEVEL_NOTE.replace(
    "zsh: conflicts_with is a parameter of the "
    "model (the exclusion lists are compared byte for byte, their order is pinned by C16_zsh_conflicts_list), "
    "value_names, value_terminator, last, groups and conflicts on global arguments are outside the model, ",
    "zsh: value_names, value_terminator, last, conflicts_with (also over argument groups) are in the model since round 4 "
    "(groups as _build_self makes them from Arg::group(s); explicit ArgGroup declarations and Arg::index are not), the "
    "panic sites of get_arg_conflicts_with are visible failures excluded by a local boolean class (= clap's configuration "
    "check on the entries; the finding zsh-global-conflicts-group on its former boundary is repaired); from the user's tree the class "
    "asks conflict-declaring arguments to be non-global; two value names on a positional are not generated (the bash "
    "semantics model has one opts word per positional); ")
assert "since round 4" in LEVEL_NOTE
# ---- end round 4 ----
