"""C07: occurrences combine by action — last-wins (Set), append-in-order (Append), saturating count
(Count), truth value with the opposite default (SetTrue/SetFalse); an argument that overrides another
removes the other's earlier occurrences, in either order of appearance.

The oracle is written from the property text.  It never looks at the Coq model: it re-reads the case
line (command spec + argv), scans the argv against the spec for a restricted *conventional* class in
which the occurrence sequence is unambiguous (no subcommands, no hyphen values, no `--`, values never
start with `-`, only plain options/flags/single-value positionals), folds the occurrences by action
and compares with what the implementation returned.  Outside that class it only checks result-level
invariants that hold for every occurrence sequence."""
import collections

from .. import gen_cmd
from ..core import hexs
from ..parse_streams import gen_cases, decode_case, parse_result, entries, levels, walk_chain
from ..runner import Stream

ID = "C07"
AREAS = ["parse"]
RULE = ("structured: single-level commands with 2-5 options whose actions are drawn from {Set, Append, Count, SetTrue, "
        "SetFalse} (short and/or long names, num_args 1 / 2 / 1..3 / 0..1 with default-missing / 1.., optional "
        "delimiter; 20% of the SetTrue/SetFalse options take an optional value, num_args 0..1: --flag, --flag=true|false, -f=false, -f false), override relations drawn independently (self, one-directional a->b, b->a, mutual, none) and "
        "args_override_self toggled, 0-2 positionals and an optional multiple-group; the argv is rendered from an "
        "invocation in which one target argument occurs n times, n from {0,1,2,3,4,5,10,254,255,256,257,299,300} or "
        "uniform 0..300, interleaved (shuffled / blocks / sandwiched) with 0-3 occurrences of every other argument and "
        "positional values, spelled --long v, --long=v, -s v, -sv, -s=v, with adjacent short flags clustered (-vvv). "
        "pairs: exhaustive action x action x declared direction x order-of-appearance patterns for two override-related "
        "arguments.  boundary: Count/Append targets repeated exactly at every boundary count in every spelling. "
        "typed: the same cases through the typed getters (get_count/get_flag/get_one/get_many/get_occurrences). "
        "random: vp/gen_cmd.py conventional command trees with high relation density and mutated argv (result-level "
        "invariants).  A case is non-trivial when some argument occurs at least twice or two override-related "
        "arguments both occur; distinct = distinct case text.")
TRUSTED = [
    "Coq 8.16.1 kernel (coqc); no native_compute; theorems C07_* are 'Closed under the global context'",
    "extraction: ExtrOcamlBasic only, no Extract Constant; OCaml driver ocaml/parse_driver.ml + common_parse/{spec,show}.ml",
    "translators/builder_tables.py (regex reading of action.rs / range.rs / arg.rs::_build, app_settings.rs / command.rs; it "
    "exits non-zero naming the construct when a function no longer has the shape it reads, which fails the proof gate)",
    "correspondence: vp/props/c07.py generators, harness/src/modes/parse.rs and modes/c07.rs, comparison of the projection "
    "(per level: id, value source and raw value groups of every entry; error class ArgumentConflict / other)",
    "modelled not verified: Rust core (Vec, String, u8::saturating_add and u8::to_string modelled as N.min 255 (n+1) and "
    "n_to_dec; str::parse::<u8> via the model's parse_i64 and the 0..=255 range check), FlatMap key uniqueness "
    "(wf_m: an invariant proved to be preserved by every step, assumed of the initial state only through matcher_new)",
]
ASSUMPTIONS = [
    "single-step theorems hold for every matcher state with unique FlatMap keys (wf_m) and every argument whose id is "
    "not the id of one of its own groups (guaranteed by the library's configuration gate: assert_app rejects a group "
    "whose id is an argument id)",
    "sequence theorems are stated over folds of `react` (the function Parser::parse calls for every occurrence); the "
    "connection to token lists (lexing, pending values) is a theorem for the scanned classes (C07_loop_occurrences / "
    "C07_top_*, round 3: C07_wide_loop / C07_wide_top_* / C07_chain_levels: hypotheses are evaluated on the BUILT command build_self(with_bin c0 bin); ignore_errors off; binary "
    "name dropped) and is covered by the correspondence run and the direct oracle outside it",
    "explicit self-override (overrides_with(self)) on an Append or Count argument is outside the property text; the "
    "theorems state what the code does (Append: earlier occurrences dropped; Count: counting continues), the oracle "
    "does not judge those arguments",
]
TECHNIQUE = ("Coq proof (exact characterisation of remove_overrides; master single-step specification of react_core for "
             "every matcher state; refinement of folds of react to an abstract per-argument fold; induction over the "
             "number of occurrences for the saturating counter; induction over the token list with a pending-buffer "
             "invariant showing that the token loop of Parser::parse is the fold of react over a declaratively scanned "
             "occurrence list, composed with the post-loop phases up to parse_top; round 3: a step-by-step simulation "
             "between the loop's control state (parse state, positional counter, trailing flag, pending buffer) and a "
             "scanner that mirrors only that control state, for positionals / `--` / options with any value range; "
             "the parse_top theorems proved once for an abstract class of lines and instantiated; closed form of the "
             "abstract fold for arbitrary override graphs; composition with C09's level isolation for subcommand chains; "
             "round 5: the builder facts the model hard-codes are regenerated from the source on every run as Coq tables "
             "and the model's functions are proved equal to the interpretation of those tables) "
             "+ extracted-model/implementation correspondence + direct python oracle from the property text")
LEVEL_TEXT = ("Machine-checked theorems (Coq 8.16, closed under the global context) about the executable model of "
              "Parser::{parse (token loop), parse_long_arg, parse_short_arg, parse_opt_value, resolve_pending, react, "
              "remove_overrides, start_custom_arg, push_arg_values}, the post-loop phases and ArgMatcher/MatchedArg/FlatMap: "
              "for every matcher state, after a successful occurrence the argument's entry is exactly one group "
              "(Set/SetTrue/SetFalse/Count) or the previous groups followed by the new one (Append); a repeat without "
              "self-override is ArgumentConflict and nothing else is; a Count flag given n times holds the decimal of "
              "min(n,255) for all n; flags hold true/false and Arg::_build installs the opposite default; after an "
              "occurrence of a no entry in an override relation with a (either direction) remains and all other "
              "entries are untouched; any sequence of occurrences refines an abstract per-argument fold.  Round 2: for every "
              "command line made of long flags, short clusters and one-value options spelled --o=v, --o v, -ov, -o=v, -o v "
              "(class = a declarative scanner `occurrences` succeeds; commands without allow_hyphen_values/"
              "allow_negative_numbers arguments), in any order and for every parser state, the token loop followed by "
              "resolve_pending EQUALS the fold of react over the scanned occurrences (errors and panic sites included), "
              "and the closed forms are theorems about parse_top(bin :: tokens): Count = min(n,255), Append = all "
              "occurrences in order with boundaries, Set = last occurrence / ArgumentConflict on a repeat without "
              "self-override, SetTrue/SetFalse truth value or opposite default, override removal in both orders of "
              "appearance, defaults only for absent arguments, and the modelled typed view (get_count = min(n,255) for all "
              "n >= 0, get_flag = truth value / opposite default).  Round 3: the same for the WIDE class (scanner "
              "`woccurrences`): positional values with the positional counter stepping as Parser::parse steps it (one "
              "occurrence per maximal run of a multi-valued positional, one occurrence PER VALUE of an Append positional "
              "with num_args(1): C07_wide_positional_per_value, all value lists), the escape `--` with trailing indices, "
              "options with any value range (optional values, default_missing_value, delimiters, value terminators; a "
              "value-less occurrence of an Append option without default-missing is an EMPTY group that survives: "
              "C07_wide_bare_append, n empty groups for all n) - loop = fold from every control state "
              "(C07_wide_loop_any_state) and every closed form at parse_top (C07_wide_top_*); arbitrary override "
              "graphs: what an argument holds is the fold of its own occurrences after the LAST occurrence of any "
              "argument related to it in either direction (C07_override_graph_fold, C07_*_override_graph, Count / Append "
              "closed forms without any override-freeness hypothesis); lines that select subcommands: at EVERY level of "
              "the chain the entries are the fold over that level's own occurrences (C07_chain_levels, via C09's level "
              "isolation; C07_chain_levels_top at parse_top for trees without global arguments; per-level Count/Append closed forms); the default of a flag is derived from Arg::_build for "
              "arguments of the unbuilt definition, required or not, so an overridden required flag reports the action's "
              "default (C07_built_flag_default, C07_wide_overridden_flag_default).  Round 5 (tie by translation): "
              "translators/builder_tables.py regenerates Gen/ActionTables.v from action.rs, range.rs and arg.rs on every run "
              "(per ArgAction variant: takes_values, max_num_args, default_num_args, default_value, default_missing_value, "
              "default_value_parser, value_type_id; the constants and one-expression predicates of ValueRange as an "
              "expression tree; the block structure and constants of Arg::_build) and Gen/SettingsTables.v from "
              "app_settings.rs / command.rs; proved: every row equals what the model's functions say, variant list complete "
              "and in order (C07_action_table), the model's ValueRange constants and predicates are the source's for every "
              "range (C07_range_consts_table, C07_range_preds_table), Build.arg_build IS the interpreter of the table for "
              "every argument (C07_arg_build_table, C07_built_takes_value_table), args_override_self is a global setting "
              "that holds at every level below (C07_args_override_self_global; C07_args_override_self_every_built_level in the real "
              "build order, any depth) and propagate_subcommand is the table's "
              "function (C07_settings_propagate_table); Gen/BuildTables.v: the generated --help/--version arguments and help "
              "subcommand and the whole _check_help_and_version step (C07_generated_args_table, C07_help_version_table), the "
              "order of the steps of Command::_build_self, of its argument loop, and the deprecated command-level rules "
              "(C07_build_self_steps_table: Build.build_self composes the model's steps in the order the parts appear in "
              "the source; C07_args_loop_table, C07_deprecated_table), the "
              "key order of mkeymap.rs append_keys (C07_arg_keys_table: Cmd.arg_keys is the table's function for every "
              "argument), the chain case-file flag -> Arg setter -> ArgSettings variant -> model field "
              "(C07_arg_flags_table), and the copies of takes_values in the C15/C16 models "
              "(C07_other_models_takes_values); Gen/GateSites.v: the 63 assert!/panic! sites of debug_asserts.rs in source order "
              "are exactly the classified ones (C07_gate_sites_covered: a check clap adds to its configuration gate breaks "
              "the lemma), assert_arg is its core && the interpreted checker! table of assert_arg_flags "
              "(C07_assert_arg_flags_table), assert_app implies the assert_app_flags table (C07_app_flags_table); for the configuration gate (max_num_args, value_type_id) "
              "the comparison found the model stricter than the source for SetTrue/SetFalse (source: num_args(0..=1) and any "
              "value parser allowed); Parse/Cmd.v was repaired to follow action.rs, C07_action_gate_table is now the equality "
              "with the table for every action, C07_action_takes_value_arg says occurrences can carry a value exactly for "
              "Set/Append/SetTrue/SetFalse, C07_gate_implies_source that whatever the model's gate accepts passes the source's "
              "assertions.  A source edit that changes one of "
              "these facts breaks the named lemma (gate failure => VIOLATION ... no-failing-input-found).  The model "
              "is tied to clap_builder by running the extracted model and the real crate on the same generated "
              "commands and argument vectors on every check (the concrete lines of the proofs' non-vacuity examples are "
              "corpus cases), and an independent python oracle (scan + fold by "
              "action) is applied to the implementation's output, including the typed getters.")
LEVEL_NOTE = ("Trusted: Coq kernel, extraction, OCaml driver, Rust harness, generators/oracle. The link between token "
              "lists and the sequence of react calls is proved for two scanned classes (round 2: flags, clusters, one-value "
              "options in all five spellings; round 3: additionally positionals, `--`, options with any value range, value "
              "terminators; subcommand chains whose inner levels are option prefixes; see docs/notes/C07.md) and "
              "differential outside them: require_equals, hyphen-value / negative-number arguments, `last` / "
              "allow_missing_positional / low-index multiple positionals (positional counter correction), inferred long "
              "prefixes, positionals before a subcommand name, the globals merge across levels, ignore_errors; the typed "
              "getters of the real ArgMatches are oracle-only (get_count/get_flag have a modelled view).  The model "
              "restriction found by the table comparison (SetTrue/SetFalse with num_args(0..=1) or a non-bool value parser "
              "were INVALID in the model) is repaired; the structured stream generates such flags and the 8 probe lines are "
              "corpus cases (docs/notes/translators.md).")

chance = gen_cmd.chance
pick = gen_cmd.pick

SHORTS = "vfxyzabcd"
LONGS = ["alpha", "beta", "gamma", "delta", "eps", "zeta"]
VALS = [b"v", b"w", b"x1", b"1", b"0", b"255", b"true", b"a,b", b"v=w", b"zz", b"a,,b", "é".encode()]
BOUND = [0, 1, 2, 3, 4, 5, 10, 254, 255, 256, 257, 299, 300]
SET_LIKE = ("set", "settrue", "setfalse")
FLAG_ACTIONS = ("settrue", "setfalse", "count")


# ------------------------------------------------------------------------------------------ spec helpers
def is_opt(a):
    return bool(a.get("short") or a.get("long"))


def action_of(a):
    act = a.get("action")
    if act:
        return act
    num = a.get("num")
    if num is not None and num == (0, 0):
        return "settrue"
    if not is_opt(a) and num is not None and num[1] is None:
        return "append"
    return "set"


def takes_value(a):
    act = action_of(a)
    if act in ("settrue", "setfalse"):
        # action.rs: SetTrue / SetFalse allow num_args(0..=1) (ValueRange::OPTIONAL): `--flag=false` stores false
        num = a.get("num")
        return num is not None and (num[1] is None or num[1] > 0)
    if act in FLAG_ACTIONS or act in ("help", "version", "helpshort", "helplong"):
        return False
    num = a.get("num")
    return num is None or num[1] is None or num[1] > 0


def num_of(a):
    return a["num"] if a.get("num") is not None else (1, 1)


def bucket(n):
    if n <= 1:
        return str(n)
    if n <= 3:
        return "2-3"
    if n < 254:
        return "4-253"
    if n in (254, 255, 256):
        return str(n)
    if n < 300:
        return "257-299"
    return "300+"


def override_kind(c, a):
    own = a.get("overrides", [])
    others = [b for b in c["args"] if b is not a]
    kinds = []
    if "args_override_self" in c["settings"]:
        kinds.append("setting")
    if a["id"] in own:
        kinds.append("self")
    out = any(o != a["id"] for o in own)
    inn = any(a["id"] in b.get("overrides", []) for b in others)
    if out and inn:
        kinds.append("mutual")
    elif out:
        kinds.append("names-other")
    elif inn:
        kinds.append("named-by-other")
    return "+".join(kinds) or "none"


# ------------------------------------------------------------------------------------------ the direct oracle
ALLOWED_ARG_KEYS = {"id", "flags", "aliases", "saliases", "difs", "requires_if", "r_if", "r_if_all", "short", "long",
                    "action", "num", "delim", "default", "dmissing", "overrides", "groups"}
ALLOWED_SETTINGS = {"args_override_self", "disable_help_flag", "disable_version_flag"}


def conventional(cmd):
    """the class in which the python scan of argv against the spec is unambiguous"""
    if cmd["subs"] or cmd.get("ext") or cmd.get("ext_items"):
        return False
    if not set(cmd["settings"]) <= ALLOWED_SETTINGS:
        return False
    for g in cmd["groups"]:
        if not g.get("multiple") or g.get("required") or g["requires"] or g["conflicts"]:
            return False
    for a in cmd["args"]:
        if not set(k for k, v in a.items() if v not in (None, [], set(), False)) <= ALLOWED_ARG_KEYS:
            return False
        # `required` changes which lines are accepted, not what an accepted line means (an overridden required flag is
        # excused by the implicit conflict and must still report the action's default; seeded change seed2/C07-3)
        if (a["flags"] - {"required", "reqeq"}) or a["difs"] or a["requires_if"] or a["r_if"] or a["r_if_all"] or a.get("groups"):
            return False
        # require_equals is inside the class for options that may be given bare (minimum 0): `--o` is then an occurrence without
        # a value, `--o=v` one with a value, and the next word is never this option's value
        if "reqeq" in a["flags"] and (not is_opt(a) or num_of(a) != (0, 1) or action_of(a) not in ("set", "append")):
            return False
        if action_of(a) not in ("set", "append", "count", "settrue", "setfalse"):
            return False
        if not is_opt(a) and (a.get("num") is not None or action_of(a) != "set" or a.get("delim") or a.get("index")):
            return False
        if a.get("action") in FLAG_ACTIONS and (a.get("delim") or a.get("dmissing") or a.get("default")):
            return False
        # a flag with an optional value (`num_args(0..=1)`, allowed for SetTrue / SetFalse only) is inside the class: given a
        # value it stores that value, given none its own literal
        if a.get("action") in FLAG_ACTIONS and a.get("num") is not None and (
                a.get("action") == "count" or a["num"] != (0, 1) or "reqeq" in a["flags"]):
            return False
        if a.get("dmissing") and num_of(a)[0] != 0:
            return False
    return True


def scan(cmd, argv):
    """argv -> list of (arg, raw values) in command-line order, or None when the line is outside the
    conventional class (then the oracle has no expectation for it)."""
    if not conventional(cmd) or not argv:
        return None
    by_long, by_short = {}, {}
    for a in cmd["args"]:
        if a.get("long"):
            by_long[a["long"]] = a
        for n, _ in a["aliases"]:
            by_long[n] = a
        if a.get("short"):
            by_short[a["short"]] = a
        for n, _ in a["saliases"]:
            by_short[n] = a
    positionals = [a for a in cmd["args"] if not is_opt(a)]
    occs, pending, pos_i = [], None, 0

    def close(p):
        a, vals = p
        lo, hi = num_of(a)
        k = len(vals)
        if action_of(a) in ("settrue", "setfalse") and any(v not in (b"true", b"false") for v in vals):
            return False     # the bool parser rejects it: an error line, outside the class the fold speaks about
        if lo == hi:
            if k != lo:
                return False
        elif k < lo or (hi is not None and k > hi):
            return False
        if k == 0 and lo > 0:
            return False
        occs.append((a, list(vals)))
        return True

    for tok in argv[1:]:
        try:
            text = tok.decode("utf-8")
        except UnicodeDecodeError:
            return None
        if tok in (b"--", b"-", b""):
            return None
        if tok.startswith(b"--"):
            if pending is not None:
                if not close(pending):
                    return None
                pending = None
            name, eq, val = tok[2:].partition(b"=")
            a = by_long.get(name)
            if a is None:
                return None
            if takes_value(a):
                if eq:
                    if val == b"" or not close((a, [val])):
                        return None
                elif "reqeq" in a["flags"]:
                    if not close((a, [])):
                        return None
                else:
                    pending = (a, [])
            else:
                if eq:
                    return None
                occs.append((a, []))
        elif tok.startswith(b"-"):
            if pending is not None:
                if not close(pending):
                    return None
                pending = None
            rest = text[1:]
            i = 0
            while i < len(rest):
                a = by_short.get(rest[i])
                if a is None:
                    return None
                if takes_value(a):
                    v = rest[i + 1:]
                    if "reqeq" in a["flags"]:
                        if v == "":
                            if not close((a, [])):
                                return None
                        elif not v.startswith("=") or v == "=" or not close((a, [v[1:].encode("utf-8")])):
                            return None
                        break
                    if v == "":
                        pending = (a, [])
                    else:
                        if v.startswith("="):
                            v = v[1:]
                        if v == "" or not close((a, [v.encode("utf-8")])):
                            return None
                    break
                occs.append((a, []))
                i += 1
        else:
            if pending is not None:
                pending[1].append(tok)
                hi = num_of(pending[0])[1]
                if hi is not None and len(pending[1]) >= hi:
                    if not close(pending):
                        return None
                    pending = None
            else:
                if pos_i >= len(positionals):
                    return None
                occs.append((positionals[pos_i], [tok]))
                pos_i += 1
    if pending is not None and not close(pending):
        return None
    return occs


def split_values(a, vals):
    if not vals and a.get("dmissing"):
        vals = list(a["dmissing"])
    d = a.get("delim")
    if not d:
        return list(vals)
    out = []
    for v in vals:
        out += v.split(d.encode()) if d.encode() in v else [v]
    return out


def fold(cmd, occs):
    """the property, executed: returns ('err', 'ArgumentConflict') or ('ok', {id: groups}, unspecified ids)"""
    override_self = "args_override_self" in cmd["settings"]
    by_id = {a["id"]: a for a in cmd["args"]}
    state = collections.OrderedDict()
    count = collections.Counter()
    unspecified = set()
    for a in cmd["args"]:
        if a["id"] in a.get("overrides", []) and action_of(a) in ("append", "count"):
            unspecified.add(a["id"])

    def remove_related(a):
        for y in list(state):
            if y == a["id"]:
                continue
            if y in a.get("overrides", []) or a["id"] in by_id[y].get("overrides", []):
                del state[y]
                count[y] = 0

    for a, raw in occs:
        i = a["id"]
        act = action_of(a)
        vals = split_values(a, raw)
        if act in SET_LIKE:
            if act == "settrue" and not vals:
                vals = [b"true"]
            if act == "setfalse" and not vals:
                vals = [b"false"]
            if i in state and not (override_self or i in a.get("overrides", [])):
                return ("err", "ArgumentConflict")
            state.pop(i, None)
            remove_related(a)
            state[i] = [vals]
        elif act == "append":
            remove_related(a)
            state[i] = state.get(i, []) + [vals]
        elif act == "count":
            remove_related(a)
            count[i] += 1
            state.pop(i, None)
            state[i] = [[str(min(count[i], 255)).encode()]]
    return ("ok", state, unspecified)


DEFAULTS = {"settrue": b"false", "setfalse": b"true", "count": b"0"}


def expectation(case):
    cmd, argv = decode_case(case)
    occs = scan(cmd, argv)
    if occs is None:
        return cmd, None, None
    return cmd, occs, fold(cmd, occs)


def show_groups(gs):
    return "[" + " ".join("(" + " ".join(v.decode("utf-8", "replace") for v in g) + ")" for g in gs) + "]"


def oracle_structured(case, impl):
    p = parse_result(impl)
    if p["kind"] in ("panic", "abort", "invalid", "other", "outoffuel"):
        return None          # C01's business; still part of the model/implementation comparison
    cmd, occs, exp = expectation(case)
    if exp is None:
        return oracle_invariants(case, impl)
    return judge(cmd, exp, p, p.get("m"))


GLOBAL_SUB = b"run"
GLOBAL_SUB2 = b"deep"


def flatten_globals(case):
    """`prog run <line>` over a command whose options are all global and whose only subcommand `run` declares nothing:
    the occurrences behind the subcommand name belong to the propagated copies of the global arguments, which carry the
    declared override lists unchanged (Command::_propagate_global_args), so the level of `run` must hold exactly what
    the same line means on the flat command.  -> (flat cmd, flat argv) or None"""
    cmd, argv = decode_case(case)
    depth, cur = 0, cmd
    # the chain `run` [-> `deep`]: empty subcommands; the ROOT's settings (args_override_self is a global setting) and the
    # root's global arguments reach every level of it (seeded change seed4/C07-2 stopped global settings below the first level)
    while len(cur["subs"]) == 1 and cur["subs"][0]["name"] == (GLOBAL_SUB, GLOBAL_SUB2)[min(depth, 1)] and depth < 2:
        cur = cur["subs"][0]
        depth += 1
        if cur["args"] or cur["groups"] or cur["settings"]:
            return None
    if depth == 0 or cur["subs"] or len(argv) < 1 + depth or argv[1:1 + depth] != [GLOBAL_SUB, GLOBAL_SUB2][:depth]:
        return None
    if any("global" not in a["flags"] for a in cmd["args"]):
        return None
    flat = dict(cmd, subs=[], args=[dict(a, flags=set(a["flags"]) - {"global"}) for a in cmd["args"]])
    return flat, [argv[0]] + argv[1 + depth:]


def oracle_globals(case, impl):
    p = parse_result(impl)
    if p["kind"] in ("panic", "abort", "invalid", "other", "outoffuel"):
        return None
    fl = flatten_globals(case)
    if fl is None:
        return None
    cmd, argv = fl
    occs = scan(cmd, argv)
    if occs is None:
        return None
    exp = fold(cmd, occs)
    m = None
    if p["kind"] == "ok":
        _, sub = entries(p["m"])
        if sub is None or sub[0] != GLOBAL_SUB:
            return "the subcommand %s named on the line was not selected" % GLOBAL_SUB.decode()
        m = sub[1]
        if decode_case(case)[0]["subs"][0]["subs"]:
            _, sub2 = entries(m)
            if sub2 is None or sub2[0] != GLOBAL_SUB2:
                return "the subcommand %s named on the line was not selected" % GLOBAL_SUB2.decode()
            m = sub2[1]
    return judge(cmd, exp, p, m)


def judge(cmd, exp, p, m):
    if exp[0] == "err":
        if p["kind"] == "ok":
            return "a Set-like argument was repeated without self-override but the line was accepted"
        if p["ekind"] != "ArgumentConflict":
            return "repeat without self-override must be ArgumentConflict, got %s" % p["ekind"]
        return None
    if p["kind"] == "err":
        if p["ekind"] == "MissingRequiredArgument" and any("required" in a["flags"] for a in cmd["args"]):
            return None      # which lines a `required` flag rejects is C10's business; the fold says what accepted lines mean
        return "valid line of the conventional class rejected with %s (expected %s)" % (
            p["ekind"], {k.decode(): show_groups(v) for k, v in exp[1].items()})
    ents, _ = entries(m)
    got = {e["id"]: e for e in ents}
    _, state, unspecified = exp
    for a in cmd["args"]:
        i = a["id"]
        if i in unspecified:
            continue
        act = action_of(a)
        e = got.get(i)
        if i in state:
            if e is None:
                return "argument %s occurred (and was not overridden afterwards) but has no entry" % i.decode()
            if e["src"] != "cmdline":
                return "argument %s given on the command line has source %s" % (i.decode(), e["src"])
            if e["occ"] != state[i]:
                return "argument %s (%s): expected value groups %s, got %s" % (
                    i.decode(), act, show_groups(state[i]), show_groups(e["occ"]))
        else:
            if act in DEFAULTS:
                if e is None:
                    return "absent %s flag %s has no default entry" % (act, i.decode())
                if e["src"] != "default" or e["occ"] != [[DEFAULTS[act]]]:
                    return "absent/overridden %s flag %s: expected default %s, got %s %s" % (
                        act, i.decode(), DEFAULTS[act].decode(), e["src"], show_groups(e["occ"]))
            elif a.get("default"):
                if e is not None and e["src"] == "cmdline":
                    return "argument %s was overridden or never given, yet holds command-line values %s" % (
                        i.decode(), show_groups(e["occ"]))
            elif e is not None:
                return "argument %s was overridden or never given, yet holds %s %s" % (
                    i.decode(), e["src"], show_groups(e["occ"]))
    return None


def oracle_invariants(case, impl):
    """what must hold of every successful result whatever the occurrence sequence was"""
    p = parse_result(impl)
    if p["kind"] != "ok":
        return None
    cmd, argv = decode_case(case)
    if "ignore_errors" in cmd["settings"]:
        return None      # partial matches after a swallowed error: the property speaks of completed parses
    lv = levels(p["m"])
    chain = [n for _, n in lv if n is not None]
    for (c, settings), (ents, _) in zip(walk_chain(cmd, chain), lv):
        by_id = {a["id"]: a for a in c["args"]}
        present = {}
        for e in ents:
            a = by_id.get(e["id"])
            if a is None or e["src"] not in ("cmdline", "default"):
                continue     # env-provided values are C06's; `?` = id not defined at this level
            act = action_of(a)
            flat = [v for g in e["occ"] for v in g]
            if act == "count" and not a.get("vp"):
                if len(e["occ"]) != 1 or len(flat) != 1 or not flat[0].isdigit() or not (0 <= int(flat[0]) <= 255) \
                        or str(int(flat[0])).encode() != flat[0]:
                    return "Count argument %s holds %s, not one decimal in 0..=255" % (a["id"].decode(), show_groups(e["occ"]))
                if e["src"] == "default" and not a.get("default") and flat != [b"0"]:
                    return "Count argument %s defaulted to %s" % (a["id"].decode(), flat[0].decode())
            if act in ("settrue", "setfalse") and not a.get("vp"):
                if len(e["occ"]) != 1 or len(flat) != 1 or flat[0] not in (b"true", b"false"):
                    return "flag %s holds %s" % (a["id"].decode(), show_groups(e["occ"]))
                if e["src"] == "cmdline" and not a.get("dmissing") and not a.get("num") \
                        and flat[0] != (b"true" if act == "settrue" else b"false"):
                    return "%s flag %s given on the command line holds %s" % (act, a["id"].decode(), flat[0].decode())
                if e["src"] == "default" and not a.get("default") and flat[0] != DEFAULTS[act]:
                    return "%s flag %s defaulted to %s" % (act, a["id"].decode(), flat[0].decode())
            if act == "set" and e["src"] == "cmdline" and len(e["occ"]) > 1 and is_opt(a):
                return "Set argument %s keeps %d occurrences" % (a["id"].decode(), len(e["occ"]))
            if e["src"] == "cmdline":
                present[e["id"]] = a
        for i, a in present.items():
            for o in a.get("overrides", []):
                if o != i and o in present:
                    return "%s overrides %s, yet both keep command-line occurrences" % (i.decode(), o.decode())
    return None


def oracle_typed(case, impl):
    if not impl or not impl.startswith("ok (t"):
        if impl and impl.startswith("err "):
            return oracle_structured(case, impl)
        return None
    cmd, occs, exp = expectation(case)
    if exp is None:
        return None
    if exp[0] == "err":
        return "a Set-like argument was repeated without self-override but the line was accepted"
    from ..core import sx_parse, unhex
    _, state, unspecified = exp
    got = {}
    for e in sx_parse(impl[3:])[1:]:
        got[unhex(e[0])] = e
    for a in cmd["args"]:
        i = a["id"]
        if i in unspecified or i not in got:
            continue
        e = got[i]
        act = action_of(a)
        if act == "count":
            want = int(state[i][0][0]) if i in state else 0
            if e[1] != "count" or e[3] != str(want):
                return "get_count(%s) = %s, expected %d" % (i.decode(), e[3], want)
        elif act in ("settrue", "setfalse"):
            want = (state[i][0][0] if i in state else DEFAULTS[act]).decode()
            if e[1] != "flag" or e[3] != want:
                return "get_flag(%s) = %s, expected %s" % (i.decode(), e[3], want)
        elif i in state:
            want_occ = [[hexs(v) for v in g] for g in state[i]]
            occ = e[5][1:]
            if occ == ["none"] or occ == ["?"]:
                return "get_occurrences(%s) = %s, expected %s" % (i.decode(), occ[0], show_groups(state[i]))
            if [list(g) for g in occ] != want_occ:
                return "get_occurrences(%s) differs: expected %s" % (i.decode(), show_groups(state[i]))
            flat = [v for g in want_occ for v in g]
            if e[4][1:] != flat:
                return "get_many(%s) is not the occurrences' values in order" % i.decode()
            if flat and e[3][1] != flat[0]:
                return "get_one(%s) is not the first stored value" % i.decode()
        elif not a.get("default"):
            if e[5][1:] != ["none"]:
                return "get_occurrences(%s) is not None for an absent/overridden argument" % i.decode()
    return None


def nontrivial(case, impl):
    cmd, occs, exp = expectation(case)
    if occs is None:
        _, argv = decode_case(case)
        return len(argv) >= 3 and impl is not None and not impl.startswith("INVALID")
    seen = collections.Counter(a["id"] for a, _ in occs)
    if any(n >= 2 for n in seen.values()):
        return True
    for a, _ in occs:
        if any(o in seen and o != a["id"] for o in a.get("overrides", [])):
            return True
    return False


# ------------------------------------------------------------------------------------------ projection
def project(r):
    p = parse_result(r)
    if p["kind"] == "ok":
        out = []
        for ents, sub in levels(p["m"]):
            es = sorted((hexs(e["id"]), e["src"], tuple(tuple(hexs(v) for v in g) for g in e["occ"])) for e in ents
                        if e["src"] != "?")
            out.append((es, hexs(sub) if sub is not None else None))
        return "ok %r" % (out,)
    if p["kind"] == "err":
        kinds = p["ekind"].split("|")
        return "err ArgumentConflict" if "ArgumentConflict" in kinds else "err other"
    return p["kind"]


def project_typed(r):
    return r


# ------------------------------------------------------------------------------------------ generators
def gen_spec(rng, force_target_action=None):
    c = {"name": b"p", "about": b"A", "args": [], "groups": [], "subs": [], "settings": [], "aliases": []}
    if chance(rng, 0.3):
        c["settings"].append("args_override_self")
    if chance(rng, 0.3):
        c["settings"].append("disable_help_flag")
    shorts, longs = list(SHORTS), list(LONGS)
    rng.shuffle(shorts)
    rng.shuffle(longs)
    nopts = rng.randrange(2, 6)
    for k in range(nopts):
        a = {"id": ("a%d" % k).encode(), "flags": set()}
        r = rng.random()
        if r < 0.8:
            a["short"] = shorts.pop()
        if r > 0.3 or not a.get("short"):
            a["long"] = longs.pop().encode()
        if k == 0 and force_target_action:
            act = force_target_action
        else:
            act = rng.choices(["count", "append", "set", "settrue", "setfalse"], [25, 25, 25, 15, 10])[0]
        a["action"] = act
        if act in ("set", "append"):
            rr = rng.random()
            if rr < 0.10:
                a["num"] = (2, 2)
            elif rr < 0.20:
                a["num"] = (1, 3)
            elif rr < 0.28:
                a["num"] = (0, 1)
                a["dmissing"] = [pick(rng, [b"dm", b"a,b"])]
                if chance(rng, 0.4):
                    # `--json[=<STYLE>]`: bare, it is stored when it is READ -- after an occurrence that was still collecting
                    # (seeded change seed4/C07-1 stored it before the pending one, reversing the override order)
                    a["flags"].add("reqeq")
            elif rr < 0.33:
                a["num"] = (1, None)
            elif rr < 0.38:
                a["num"] = (1, 1)
            elif rr < 0.48:
                # an occurrence may carry no value at all and there is no default_missing_value:
                # the occurrence is an EMPTY group, which must stay a group of its own
                a["num"] = pick(rng, [(0, 1), (0, None), (0, 2)])
            if chance(rng, 0.15):
                a["delim"] = ","
            if chance(rng, 0.08):
                a["default"] = [b"d"]
        elif act in ("settrue", "setfalse") and chance(rng, 0.2):
            # `--flag[=true|false]`: action.rs gives the two flag actions max_num_args = OPTIONAL (0..=1)
            a["num"] = (0, 1)
        c["args"].append(a)
    ids = [a["id"] for a in c["args"]]
    for a in c["args"]:
        ov = []
        p_self = 0.25 if a["action"] in SET_LIKE else 0.05
        if chance(rng, p_self):
            ov.append(a["id"])
        if chance(rng, 0.3):
            o = pick(rng, ids)
            if o not in ov:
                ov.append(o)
        if ov:
            a["overrides"] = ov
    for k in range(rng.choice([0, 0, 1, 2])):
        c["args"].append({"id": ("p%d" % k).encode(), "flags": set()})
    if chance(rng, 0.15):
        members = [i for i in ids if chance(rng, 0.5)]
        if members:
            c["groups"].append({"id": b"g0", "args": members, "multiple": True})
    return c


def render_occ(rng, a, force=None):
    """one occurrence -> (tokens, clusterable short char or None)"""
    names = []
    if a.get("long"):
        names.append("long")
    if a.get("short"):
        names.append("short")
    how = force if force in names else pick(rng, names)
    if not takes_value(a):
        if how == "long":
            return [b"--" + a["long"]], None
        return [b"-" + a["short"].encode()], a["short"]
    lo, hi = num_of(a)
    k = pick(rng, [lo, max(lo, 1), max(lo, 1), (hi if hi is not None else lo + 2)])
    vals = [pick(rng, VALS) for _ in range(k)]
    if action_of(a) in ("settrue", "setfalse"):
        vals = [pick(rng, [b"true", b"false", b"false", b"true", b"false", b"no"]) for _ in range(k)]
    if "reqeq" in a["flags"]:
        name = b"--" + a["long"] if how == "long" else b"-" + a["short"].encode()
        return [name + (b"=" + vals[0] if k >= 1 else b"")], None
    if k == 1 and chance(rng, 0.5):
        if how == "long":
            return [b"--" + a["long"] + b"=" + vals[0]], None
        return [b"-" + a["short"].encode() + (b"=" if chance(rng, 0.4) else b"") + vals[0]], None
    name = b"--" + a["long"] if how == "long" else b"-" + a["short"].encode()
    return [name] + vals, None


def render(rng, c, occ_args, p_cluster=0.6):
    """occurrence list (args, in order; positionals carry their value) -> argv"""
    toks = [b"prog"]
    run = []      # pending clusterable short flags

    def flush():
        nonlocal run
        while run:
            k = len(run) if chance(rng, 0.7) else rng.randrange(1, len(run) + 1)
            toks.append(b"-" + "".join(run[:k]).encode())
            run = run[k:]

    for a in occ_args:
        if not is_opt(a):
            flush()
            toks.append(pick(rng, VALS))
            continue
        t, ch = render_occ(rng, a)
        if ch is not None and chance(rng, p_cluster):
            run.append(ch)
        else:
            flush()
            toks += t
    flush()
    return toks


def gen_invocation(rng, c, target=None, n=None):
    opts = [a for a in c["args"] if is_opt(a)]
    pos = [a for a in c["args"] if not is_opt(a)]
    target = target or pick(rng, opts)
    act = target["action"]
    if n is None:
        big_ok = act in ("count", "append") or "args_override_self" in c["settings"] or target["id"] in target.get("overrides", [])
        if big_ok:
            n = pick(rng, BOUND) if chance(rng, 0.6) else rng.randrange(0, 301)
        else:
            n = pick(rng, [0, 1, 1, 1, 2, 2, 3])
    others = []
    for a in opts:
        if a is target:
            continue
        k = pick(rng, [0, 0, 1, 1, 2, 3])
        if a["action"] in SET_LIKE and "args_override_self" not in c["settings"] and a["id"] not in a.get("overrides", []) \
                and chance(rng, 0.85):
            k = min(k, 1)
        others += [a] * k
    mode = rng.random()
    if mode < 0.5:
        seq = [target] * n + others
        rng.shuffle(seq)
    elif mode < 0.75:
        rng.shuffle(others)
        cut = rng.randrange(len(others) + 1)
        seq = others[:cut] + [target] * n + others[cut:]
    else:
        seq = [target] * n
        for o in others:
            seq.insert(rng.randrange(len(seq) + 1), o)
    npos = rng.randrange(0, len(pos) + 1)
    for k in range(npos):
        # positionals keep their relative order; a value directly after a variable-arity option would be
        # taken by that option, which the scan reproduces
        seq.insert(rng.randrange(len(seq) + 1), ("pos", k))
    seq2, k = [], 0
    for x in seq:
        if isinstance(x, tuple):
            seq2.append(pos[k])
            k += 1
        else:
            seq2.append(x)
    return target, n, seq2


def gen_structured(rng, n_cases, mode="parse", stats=None):
    out = []
    while len(out) < n_cases:
        c = gen_spec(rng, force_target_action=pick(rng, [None, "count", "append", "set", "settrue", "setfalse"]))
        for _ in range(3):
            target, n, seq = gen_invocation(rng, c, target=c["args"][0] if chance(rng, 0.6) else None)
            argv = render(rng, c, seq)
            out.append(gen_cmd.case_sx(c, argv, mode=mode))
            if stats is not None:
                stats["target action x repeats x override kind"]["%s x %s x %s" % (target["action"], bucket(n), override_kind(c, target))] += 1
                stats["target action"][target["action"]] += 1
                stats["repeat bucket"][bucket(n)] += 1
                stats["override kind of target"][override_kind(c, target)] += 1
    return out[:n_cases]


def gen_globals(rng, n_cases, stats=None):
    """the structured family with every option global and the whole line written behind a subcommand name (seeded change
    seed3/C07-3 pruned the override lists of the propagated copies: self-overrides and overrides of later-declared globals)"""
    out = []
    while len(out) < n_cases:
        flat = gen_spec(rng, force_target_action=pick(rng, [None, "count", "append", "set", "settrue", "setfalse"]))
        flat["args"] = [a for a in flat["args"] if is_opt(a)]
        flat["groups"] = []
        deep = chance(rng, 0.5)
        inner = [{"name": GLOBAL_SUB2, "about": b"D", "args": [], "groups": [], "subs": [], "settings": [], "aliases": []}] if deep else []
        c = dict(flat, args=[dict(a, flags=set(a["flags"]) | {"global"}) for a in flat["args"]],
                 subs=[{"name": GLOBAL_SUB, "about": b"R", "args": [], "groups": [], "subs": inner, "settings": [], "aliases": []}])
        for _ in range(3):
            target, n, seq = gen_invocation(rng, flat, target=flat["args"][0] if chance(rng, 0.6) else None)
            argv = render(rng, flat, seq)
            out.append(gen_cmd.case_sx(c, [argv[0], GLOBAL_SUB] + ([GLOBAL_SUB2] if deep else []) + argv[1:]))
            if stats is not None:
                stats["target action x repeats x override kind"]["%s x %s x %s" % (target["action"], bucket(n), override_kind(flat, target))] += 1
                stats["target action"][target["action"]] += 1
                stats["repeat bucket"][bucket(n)] += 1
                stats["override kind of target"][override_kind(flat, target)] += 1
    return out[:n_cases]


PAIR_PATTERNS = ["ab", "ba", "aba", "bab", "aab", "abb", "bba", "baa", "abab", "a", "b"]


def gen_pairs(rng, mode="parse", stats=None):
    """two override-related arguments: every action pair x declared direction x order of appearance"""
    out = []
    acts = ["set", "append", "count", "settrue", "setfalse"]
    for aa in acts:
        for ab in acts:
            for direction in ("a->b", "b->a", "both"):
                for self_a in (False, True):
                    for pat in PAIR_PATTERNS:
                        a = {"id": b"a", "flags": {"required"} if chance(rng, 0.25) else set(), "short": "a", "long": b"alpha",
                             "action": aa}
                        b = {"id": b"b", "flags": set(), "short": "b", "long": b"beta", "action": ab}
                        third = {"id": b"c", "flags": set(), "short": "c", "action": "count"}
                        if direction in ("a->b", "both"):
                            a["overrides"] = [b"b"]
                        if direction in ("b->a", "both"):
                            b["overrides"] = [b"a"]
                        if self_a and aa in SET_LIKE:
                            a["overrides"] = a.get("overrides", []) + [b"a"]
                        elif self_a:
                            continue
                        c = {"name": b"p", "about": b"A", "args": [a, b, third], "groups": [], "subs": [],
                             "settings": ["args_override_self"] if (not self_a and chance(rng, 0.3)) else [], "aliases": []}
                        seq = []
                        for ch in pat:
                            seq.append(a if ch == "a" else b)
                            if chance(rng, 0.3):
                                seq.append(third)
                        out.append(gen_cmd.case_sx(c, render(rng, c, seq, p_cluster=0.4), mode=mode))
                        if stats is not None:
                            stats["pairs: direction x pattern"]["%s x %s" % (direction, pat)] += 1
    return out


def gen_boundary(rng, mode="parse", stats=None, tier="quick"):
    """Count and Append targets at every boundary repeat count, in every spelling"""
    out = []
    counts = BOUND + ([253, 258, 511, 512, 600] if tier == "thorough" else [])
    for n in counts:
        v = {"id": b"v", "flags": set(), "short": "v", "long": b"verbose", "action": "count"}
        q = {"id": b"q", "flags": set(), "short": "q", "action": "settrue"}
        o = {"id": b"o", "flags": set(), "short": "o", "long": b"opt", "action": "append"}
        c = {"name": b"p", "about": b"A", "args": [v, q, o], "groups": [], "subs": [], "settings": [], "aliases": []}
        spellings = [
            [b"-" + b"v" * n] if n else [],
            [b"-v"] * n,
            [b"--verbose"] * n,
            [pick(rng, [b"-v", b"--verbose", b"-vv"]) for _ in range(n)],
        ]
        for sp in spellings:
            cnt = sum(1 if t != b"-vv" else 2 for t in sp) if sp and sp[0] != b"-" + b"v" * n else n
            toks = list(sp)
            if chance(rng, 0.5):
                toks.insert(rng.randrange(len(toks) + 1), b"-q")
            if chance(rng, 0.5):
                toks.insert(rng.randrange(len(toks) + 1), b"--opt=x")
            out.append(gen_cmd.case_sx(c, [b"prog"] + toks, mode=mode))
            if stats is not None:
                stats["boundary: action x repeats"]["count x %s" % bucket(cnt)] += 1
        for style in range(3):
            toks = []
            for k in range(n):
                val = ("w%d" % k).encode()
                if style == 0:
                    toks += [b"--opt", val]
                elif style == 1:
                    toks += [b"-o" + val]
                else:
                    toks += [pick(rng, [b"--opt=" + val, b"-o=" + val])]
                if chance(rng, 0.1):
                    toks.append(pick(rng, [b"-v", b"-vq" if False else b"-v"]))
            out.append(gen_cmd.case_sx(c, [b"prog"] + toks, mode=mode))
            if stats is not None:
                stats["boundary: action x repeats"]["append x %s" % bucket(n)] += 1
        # Set with self-override / args_override_self repeated n times: last wins
        for how in ("setting", "self"):
            s = {"id": b"s", "flags": set(), "short": "s", "long": b"set", "action": "set"}
            c2 = {"name": b"p", "about": b"A", "args": [s, v], "groups": [], "subs": [], "settings": [], "aliases": []}
            if how == "setting":
                c2["settings"].append("args_override_self")
            else:
                s["overrides"] = [b"s"]
            toks = []
            for k in range(n):
                toks += [b"--set", ("w%d" % k).encode()] if chance(rng, 0.5) else [b"-s" + ("w%d" % k).encode()]
                if chance(rng, 0.1):
                    toks.append(b"-v")
            out.append(gen_cmd.case_sx(c2, [b"prog"] + toks, mode=mode))
            if stats is not None:
                stats["boundary: action x repeats"]["set(%s) x %s" % (how, bucket(n))] += 1
    return out


def new_stats():
    return collections.defaultdict(collections.Counter)


def freeze(stats, cases, label):
    d = {k: dict(sorted(v.items())) for k, v in stats.items()}
    exp = collections.Counter()
    for cs in cases:
        try:
            _, occs, e = expectation(cs)
        except Exception:
            exp["undecodable"] += 1
            continue
        exp["outside the conventional class (invariants only)" if e is None else
            ("expected ArgumentConflict" if e[0] == "err" else "expected ok")] += 1
    d["oracle expectation (%s)" % label] = dict(exp)
    return d


def streams(tier, rng):
    quick = tier == "quick"
    n_struct = 2500 if quick else 25000
    n_typed = 800 if quick else 6000
    n_rand = 1500 if quick else 15000
    st_s, st_p, st_b, st_t = new_stats(), new_stats(), new_stats(), new_stats()
    structured = gen_structured(rng, n_struct, stats=st_s)
    pairs = gen_pairs(rng, stats=st_p)
    boundary = gen_boundary(rng, stats=st_b, tier=tier)
    typed = gen_structured(rng, n_typed, mode="c07typed", stats=st_t) + gen_pairs(rng, mode="c07typed") \
        + gen_boundary(rng, mode="c07typed", tier=tier)
    st_g = new_stats()
    globs = gen_globals(rng, n_struct // 3, stats=st_g)
    prof = dict(gen_cmd.CONVENTIONAL)
    prof.update(relations=0.6, globals=0, env=0.05, typed=0, max_opts=5)
    rand = gen_cases(rng, n_rand, prof_kw=prof, per_cmd=4, p_mutate=0.4, safe_p=0.7)
    prof2 = dict(relations=0.5, globals=0, typed=0.05)
    wild = gen_cases(rng, n_rand // 3, prof_kw=prof2, per_cmd=3, p_mutate=0.6, safe_p=0.4)
    return [
        Stream("structured", structured, oracle=oracle_structured, area="parse", project=project,
               nontrivial=nontrivial, describe=freeze(st_s, structured, "structured")),
        Stream("pairs", pairs, oracle=oracle_structured, area="parse", project=project,
               nontrivial=nontrivial, describe=freeze(st_p, pairs, "pairs")),
        Stream("boundary", boundary, oracle=oracle_structured, area="parse", project=project,
               nontrivial=nontrivial, describe=freeze(st_b, boundary, "boundary")),
        Stream("globals", globs, oracle=oracle_globals, area="parse", project=project,
               nontrivial=nontrivial, describe=freeze(st_g, globs, "globals")),
        Stream("typed", typed, oracle=oracle_typed, area=None, project=project_typed,
               nontrivial=nontrivial, describe=freeze(st_t, typed, "typed")),
        Stream("random", rand, oracle=oracle_structured, area="parse", project=project, nontrivial=nontrivial,
               describe=freeze(new_stats(), rand, "random")),
        Stream("malformed", wild, oracle=oracle_invariants, area="parse", project=project, nontrivial=nontrivial),
    ]


def classify_known(stream, case, impl, failure):
    return None
