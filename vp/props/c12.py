"""C12: help and usage always render, list every visible item and nothing hidden."""
import re

from ..core import hexs, unhex, sx_parse
from ..runner import Stream

ID = "C12"
AREAS = ["help", "parse"]
RULE = ("random command trees (depth <= 3) mixing short-only / long-only / short+long flags, Count flags, options with "
        "env variables (set / unset / empty, hide_env, hide_env_values), default values (with whitespace, quotes, backslashes; "
        "hide_default_value), visible and hidden aliases / short aliases, global flags and options inherited by the subcommand levels, "
        "0..2 value names and ranges, positionals (required prefix, optional tail, multi-valued last), help / long_help "
        "of 0..14 words, custom headings, explicit (colliding) display orders, hide / hide_short_help / hide_long_help / "
        "next_line_help, possible values with help and hidden values, hidden subcommands, flag subcommands, the four "
        "global settings; every name is a unique marker.  x widths (0..200 exhaustively for small trees, boundary widths "
        "otherwise) x {short, long, usage, -h / --help / help <path> at every level}.  A case is non-trivial when the "
        "rendered screen has at least one row or the usage line more than one token; distinct = distinct case text.  Round 3 adds: "
        "argument groups (required or not, multiple), requires rules towards arguments and groups (chains, conditional rules), "
        "subcommand_negates_reqs / args_conflicts_with_subcommands / subcommand_required / allow_external_subcommands, subcommand_value_name, "
        "next_help_heading between the Command::arg calls (with resets) and subcommand_help_heading at every level, and custom help "
        "templates made of titled blocks for {options} / {positionals} / {subcommands} (any order, repeated) or {all-args}, with unknown tags.  "
        "Fourth pass, stream help-subcommand-paths (parser harness mode / extracted parse_top): trees of depth <= 3 with visible and hidden "
        "subcommand aliases, infer_subcommands, a flag and an option per level; lines = arguments, 0..2 descents by name / alias with arguments, then "
        "`help` (or a prefix of it under inference) + 0..3 words (name, alias, proper prefix of a name / of an alias, garbage) or --help / -h; "
        "non-trivial when the reference reading resolves the line to a level.  Round 5, stream help-flatten: trees of depth <= 3 with "
        "flatten_help on the root (0.9) and on inner nodes (0.5), hidden subcommands, flag subcommands, display orders, required arguments / "
        "groups at the parents, subcommand_required / args_conflicts_with_subcommands / subcommand_negates_reqs, global arguments; usage / short / "
        "long at the root and -h / --help / help <path> at levels reached by a parse; the usage block is compared byte for byte; non-trivial "
        "when the usage block has at least two lines.")
TRUSTED = [
    "Coq 8.16.1 kernel (coqc); no native_compute; theorems C12_* are 'Closed under the global context'",
    "extraction: ExtrOcamlBasic only, no Extract Constant; OCaml driver ocaml/help_driver.ml (spec reader, printing, display_width = byte length)",
    "correspondence: vp/props/c12.py generators, harness/src/modes/help.rs (builds the real Command, parses the rendered text into rows), string comparison of projections",
    "layout constants and generated texts (TAB, SHORT_SIZE, NEXT_LINE_INDENT, default display order, help/version texts) are re-read from /repo by translators/tables.py on every run",
    "modelled not verified: core::fmt `{:width$}` (run-time width limited to u16), BTreeMap (sorted association list), the f32 comparison of arg_next_line_help (exact rational; swept against the real f32 arithmetic each run), textwrap (C20), unicode-width (the theorems hold for every display_width function)",
]
ASSUMPTIONS = [
    "64-bit usize; plain styles; default help template; no term-size detection (term_width is set explicitly)",
    "round 5: flatten_help is modelled for the default template (usage block: exact text; flattened sections: rows); Command::build's recursions take the constant fuel tree_fuel = 64 (trees of height < 62); the flatten theorems' classes: flat_tree_ok / usage_ok / flat_distinct on the BUILT clone (boolean checkers flat_tree_okb / usage_okb / flat_distinctb), names_fresh subcommands for C12_flatten_usage_heads",
    "domain of the model: no flatten_help together with a custom help template, no override_usage / override_help, Arg::group on the argument side, subcommand visible aliases (the generators stay inside it); argument groups, requires, the subcommand usage forms, next_help_heading, subcommand_help_heading, subcommand_value_name, custom help templates (tag dispatch; the texts of name / bin / version / author / before- / after-help are not modelled), env, defaults, (short) aliases, possible values in spec_vals and global arguments are modelled",
    "refs_ok (hypothesis of C12_padding_safe, C12_render_total, C12_usage_*, C12_template_total): group ids unique, group members are arguments, every id named by a requires rule exists -- what debug_asserts.rs checks before any rendering",
    "the generators keep `hide`n arguments out of groups and out of requires targets: a hidden member of a listed group is printed by format_group (observation C12_usage_hidden_group_member_shown, replayed on the real crate)",
    "fourth pass: the wide help-chain theorems (C12_help_flag_*_wide*, C12_help_subcommand_*) quantify over the class hsplit (inside C09's wsplit/wline): every level accepts its own arguments from a fresh matcher, levels are left through name / alias / inferred prefix / long flag-subcommand tokens, ignore_errors and args_conflicts_with_subcommands off; the *_gen forms assume the user's tree is unbuilt (tree_all unb), the help flag not disabled at the level and no subcommand of it named `--help` / `-h`",
    "the help-level theorems on the parser model (C12_help_flag_*_level_gen) quantify over chains of subcommand names/aliases directly followed by the help flag (class help_chain); hypotheses: the level at the end of the chain contains the generated help argument (C12_build_has_help: the build puts it there when the flag is not disabled) and no subcommand of that level answers to the token `--help` / `-h`",
    "C12_padding_safe assumes every rendered left column is at most 65 000 columns wide (observation N: core::fmt limits run-time widths to u16 on rustc >= 1.87)",
    "names are ASCII in generated cases (columns = characters = bytes)",
]

# --------------------------------------------------------------------------------- generator
SHORT_POOL = "abcdefgijklmnopqrstuvwxyzABCDEFGHIJKLMNOPQRSTUWXYZ"   # no h, V (auto help/version)
HEADINGS = ["Hd1z", "Hd2z", "Hd3z"]


class Ctr:
    def __init__(self):
        self.n = 0

    def next(self):
        self.n += 1
        return "%02d" % self.n


def words(rng, marker, ctr_id, kmax=14):
    k = rng.choice([1, 1, 2, 3, 5, 8, kmax])
    ws = [marker + ctr_id + "z"]
    for _ in range(k - 1):
        ws.append(rng.choice(["w", "wo", "wor", "word", "wordy", "lengthier", "x" * rng.choice([6, 12, 25])]))
    return " ".join(ws)


def gen_arg(rng, ctr, shorts, kind, opts):
    """kind: flag | opt | pos"""
    n = ctr.next()
    a = {"id": "ar" + n + "z", "items": []}
    it = a["items"]
    if kind in ("flag", "opt"):
        shape = rng.choice(["s", "l", "sl", "sl", "l", "s"])
        if "s" in shape and shorts:
            c = shorts.pop(rng.randrange(len(shorts)))
            a["short"] = c
            it.append("(short %d)" % ord(c))
        if "l" in shape or "short" not in a:
            a["long"] = "lg" + n + "z" + "q" * rng.choice([0, 0, 1, 2, 4, 7, 12, 20, 33])
            it.append("(long %s)" % hexs(a["long"]))
    if kind == "flag":
        act = rng.choice(["settrue", "settrue", "setfalse", "count", "count"])
        a["action"] = act
        it.append("(action %s)" % act)
    elif kind == "opt":
        act = rng.choice(["set", "set", "append"])
        a["action"] = act
        it.append("(action %s)" % act)
        nn = rng.choice([0, 1, 1, 1, 2])
        a["valnames"] = ["VN" + n + "z" + "k" * rng.choice([0, 0, 2, 6]) + (str(i) if nn > 1 else "") for i in range(nn)]
        if nn < 2:
            num = rng.choice([None, None, (1, 1), (0, 1), (1, None), (0, None), (2, 2), (1, 3), (2, None)])
            if num:
                it.append("(num %d %s)" % (num[0], "inf" if num[1] is None else num[1]))
            a["num"] = num
        if a["valnames"]:
            it.append("(x-valname %s)" % " ".join(hexs(v) for v in a["valnames"]))
        if rng.random() < 0.1 and nn < 2 and (a.get("num") or (1, 1))[0] <= 1:
            it.append("(flags reqeq)")
    else:
        a["action"] = opts.get("pos_action", "set")
        it.append("(action %s)" % a["action"])
        if opts.get("num"):
            num = opts["num"]
            it.append("(num %d %s)" % (num[0], "inf" if num[1] is None else num[1]))
            a["num"] = num
        if rng.random() < 0.5:
            a["valnames"] = ["PN" + n + "z" + "k" * rng.choice([0, 3])]
            it.append("(x-valname %s)" % hexs(a["valnames"][0]))
    flags = []
    if opts.get("required"):
        flags.append("required")
        a["required"] = True
    if opts.get("last"):
        flags.append("last")
    # visibility
    r = rng.random()
    if r < 0.12:
        a["hide"] = True
        flags.append("hide")
    elif r < 0.20:
        a["hide_short"] = True
        it.append("(x-hide-short)")
    elif r < 0.28:
        a["hide_long"] = True
        it.append("(x-hide-long)")
    elif r < 0.31:
        a["hide_short"] = a["hide_long"] = True
        it.append("(x-hide-short)")
        it.append("(x-hide-long)")
    if kind in ("flag", "opt") and not opts.get("required") and rng.random() < opts.get("p_global", 0.0):
        a["global"] = True
        flags.append("global")
    if flags:
        # an existing (flags ..) item (reqeq) is merged
        prev = [x for x in it if x and x.startswith("(flags ")]
        for p in prev:
            it.remove(p)
            flags += p[7:-1].split()
        it.append("(flags %s)" % " ".join(sorted(set(flags))))
    if rng.random() < opts.get("p_next_line", 0.08):
        a["next_line"] = True
        it.append("(x-next-line)")
    if rng.random() < 0.8:
        a["help"] = words(rng, "hp", n)
        it.append("(help %s)" % hexs(a["help"]))
    if rng.random() < 0.25:
        a["long_help"] = words(rng, "lh", n)
        it.append("(x-long-help %s)" % hexs(a["long_help"]))
    if rng.random() < opts.get("p_heading", 0.25):
        a["heading"] = rng.choice(HEADINGS)
        it.append("(x-heading %s)" % hexs(a["heading"]))
    if rng.random() < opts.get("p_order", 0.2):
        a["order"] = rng.choice([0, 0, 1, 2, 5, 999])
        it.append("(x-order %d)" % a["order"])
    if kind in ("opt", "pos") and rng.random() < 0.35:
        pvs = []
        for j in range(rng.choice([1, 2, 3, 4])):
            pv = {"name": "pv" + n + "z" + "abcd"[j] + "m" * rng.choice([0, 0, 3, 9])}
            if NONASCII_PV[0]:
                # names whose byte length, character count and display width all differ (stream help-nonascii)
                pv["name"] += rng.choice(["", "\u00e9", "\u00e9" * 4, "\u6f22", "\u6f22" * 3, "e\u0301" * 2, "\u00e9\u6f22"])
            s = hexs(pv["name"])
            if rng.random() < 0.5:
                pv["help"] = "ph" + n + "z" + "abcd"[j] + rng.choice(["", " w w", " word " * 6])
                s += " " + hexs(pv["help"].strip())
                pv["help"] = pv["help"].strip()
            if rng.random() < 0.3:
                pv["hide"] = True
                s += " hide"
            pvs.append(pv)
            it.append("(x-pv %s)" % s)
        a["pvs"] = pvs
        if rng.random() < 0.15:
            a["hide_pv"] = True
            it.append("(x-hide-pv)")
    # what spec_vals prints besides the possible values: env, defaults, visible (short) aliases
    p_spec = opts.get("p_spec", 1.0)
    if rng.random() < 0.22 * p_spec:
        a["env"] = "EV" + n + "z"
        r = rng.random()
        val = None if r < 0.35 else ("" if r < 0.45 else "ev" + n + "z" + "e" * rng.choice([0, 0, 5, 14]))
        a["env_val"] = val
        it.append("(env %s%s)" % (hexs(a["env"]), "" if val is None else " " + hexs(val)))
        r = rng.random()
        if r < 0.12:
            a["hide_env"] = True
            it.append("(x-hide-env)")
        elif r < 0.3:
            a["hide_env_values"] = True
            it.append("(x-hide-env-values)")
    if kind in ("opt", "pos") and rng.random() < 0.3 * p_spec:
        vis_pv = [pv["name"] for pv in a.get("pvs", []) if not pv.get("hide")]
        multi = a["action"] == "append" or ((a.get("num") or (1, 1))[1] or 99) > 1
        k = rng.choice([1, 1, 1, 2, 3]) if multi else 1
        if a.get("pvs"):
            dv = [rng.choice(vis_pv) for _ in range(k)] if vis_pv else []
        else:
            dv = ["dv" + n + "z" + "abc"[j] + rng.choice(["", "", "", " w", "\t", " \"q", "d" * 11, " \\ x"]) for j in range(k)]
        if dv:
            a["defaults"] = dv
            it.append("(default %s)" % " ".join(hexs(v) for v in dv))
            if rng.random() < 0.2:
                a["hide_default"] = True
                it.append("(x-hide-default)")
    elif kind == "flag" and a["action"] in ("settrue", "setfalse") and rng.random() < 0.06 * p_spec:
        a["defaults"] = [rng.choice(["true", "false"])]
        it.append("(default %s)" % hexs(a["defaults"][0]))
    if "long" in a and rng.random() < 0.25 * p_spec:
        a["aliases"] = []
        for j in range(rng.choice([1, 1, 2, 3])):
            al = ("al" + n + "z" + "abc"[j] + "r" * rng.choice([0, 0, 3, 10]), rng.random() < 0.6)
            a["aliases"].append(al)
            it.append("(alias %s%s)" % (hexs(al[0]), " v" if al[1] else ""))
    if kind in ("flag", "opt") and shorts and rng.random() < 0.15 * p_spec:
        a["saliases"] = []
        for j in range(rng.choice([1, 1, 2])):
            if shorts:
                al = (shorts.pop(rng.randrange(len(shorts))), rng.random() < 0.6)
                a["saliases"].append(al)
                it.append("(salias %d%s)" % (ord(al[0]), " v" if al[1] else ""))
    a["items"] = [x for x in it if x]
    return a


def gen_cmd(rng, ctr, name, depth, prof, reserved=()):
    n = ctr.next()
    c = {"name": name, "items": [], "args": [], "subs": []}
    it = c["items"]
    if rng.random() < 0.85:
        c["about"] = "ab" + n + "z" + rng.choice(["", " w w", " word" * 9])
        c["about"] = c["about"].strip()
        it.append("(about %s)" % hexs(c["about"]))
    if rng.random() < 0.2:
        c["long_about"] = "la" + n + "z"
        it.append("(long_about %s)" % hexs(c["long_about"]))
    if rng.random() < 0.4:
        c["version"] = True
        it.append("(version %s)" % hexs("1.0"))
    sets = []
    for s, p in (("disable_help_flag", prof.get("p_nohelp", 0.15)), ("disable_version_flag", 0.1),
                 ("disable_help_subcommand", 0.15), ("subcommand_required", 0.1)):
        if rng.random() < p:
            sets.append(s)
    c["sets"] = sets
    if rng.random() < prof.get("p_cmd_next_line", 0.08):
        c["next_line"] = True
    shorts = [x for x in SHORT_POOL if x not in reserved]   # shorts of inherited global args are taken
    nflag = rng.choice(prof.get("nflag", [0, 1, 1, 2, 3]))
    nopt = rng.choice(prof.get("nopt", [0, 1, 1, 2, 3]))
    npos = rng.choice(prof.get("npos", [0, 0, 1, 2, 3]))
    nsub = rng.choice(prof.get("nsub", [0, 0, 1, 2, 3])) if depth > 0 else 0
    kinds = ["flag"] * nflag + ["opt"] * nopt
    rng.shuffle(kinds)
    nreq = rng.randrange(npos + 1) if npos else 0
    pos = []
    for i in range(npos):
        o = {"required": i < nreq, "p_heading": prof.get("p_heading", 0.25), "p_order": 0.1}
        if i == npos - 1:
            r = rng.random()
            if r < 0.25:
                o["num"] = (1, None) if i < nreq else rng.choice([(0, None), (1, None)])
                o["pos_action"] = "append"
            elif r < 0.35 and nsub == 0 and i >= nreq:
                o["last"] = True
        pos.append(("pos", o))
    seq = [(k, {"required": rng.random() < 0.15, "p_heading": prof.get("p_heading", 0.25),
                "p_order": prof.get("p_order", 0.2)}) for k in kinds]
    # positionals interleaved with the options (their relative order is kept)
    allk = seq + pos
    idx = list(range(len(allk)))
    if rng.random() < 0.5:
        # random interleaving preserving the order of the positionals
        marks = sorted(rng.sample(range(len(allk)), len(pos))) if pos else []
        out = [None] * len(allk)
        for m, p in zip(marks, pos):
            out[m] = p
        rest = iter(seq)
        allk = [x if x is not None else next(rest) for x in out]
    for k, o in allk:
        o["p_global"] = prof.get("p_global", 0.18) if nsub else 0.0
        o["p_next_line"] = prof.get("p_next_line", 0.08)
        c["args"].append(gen_arg(rng, ctr, shorts, k, o))
    reserved = tuple(reserved) + tuple(x for a in c["args"] if a.get("global")
                                       for x in ([a["short"]] if "short" in a else []) + [al[0] for al in a.get("saliases", [])])
    for _ in range(nsub):
        sn = "sc" + ctr.next() + "z" + "n" * rng.choice([0, 0, 2, 9])
        s = gen_cmd(rng, ctr, sn, depth - 1, prof, reserved)
        if rng.random() < 0.2:
            s["hide"] = True
        if rng.random() < 0.12 and shorts:
            s["short_flag"] = shorts.pop(rng.randrange(len(shorts)))
        if rng.random() < 0.12:
            s["long_flag"] = "lf" + ctr.next() + "z"
        if rng.random() < 0.2:
            s["order"] = rng.choice([0, 1, 1, 7])
        c["subs"].append(s)
        if rng.random() < prof.get("p_case_twin", 0.12):
            # a sibling whose name differs only in letter case and shares the (explicit) display order: a
            # case-folding sort key would make the two collide and one of them vanish from "Commands:"
            t = gen_cmd(rng, ctr, sn.upper(), 0, prof, reserved)
            s["order"] = t["order"] = s.get("order", rng.choice([0, 1, 7]))
            c["subs"].append(t)
    return c


NEXT_HEADINGS = ["Nh1z", "Nh2z", "Hd1z"]


def add_headings(rng, c, p=0.5):
    """round 3: Command::next_help_heading between the Command::arg calls (a heading, or None to reset) and
    Command::subcommand_help_heading, at every level"""
    if c["args"] and rng.random() < p:
        for a in c["args"]:
            r = rng.random()
            if r < 0.3:
                a["next_heading"] = rng.choice(NEXT_HEADINGS)
            elif r < 0.38:
                a["next_heading"] = None
    if c["subs"] and rng.random() < p:
        c["sub_heading"] = rng.choice(["Sh1z", "Sh2z words", "Options"])
    for sc in c["subs"]:
        add_headings(rng, sc, p)


def add_usage_forms(rng, ctr, c, prof):
    """round 3: argument groups (required or not), `requires` rules between arguments and towards groups, the
    settings that change the form of the usage line, subcommand_value_name.  Members of groups and targets of
    rules are drawn from the arguments that are not `hide`n (a hidden member of a listed group is printed by
    format_group: observation C12_usage_hidden_group_member_shown) and not global; applied to every level."""
    n = ctr.next()
    cand = [a for a in c["args"] if not a.get("hide") and not a.get("global")]
    groups = []
    if cand and rng.random() < prof.get("p_group", 0.6):
        for gi in range(rng.choice([1, 1, 2])):
            k = rng.choice([1, 2, 2, 3])
            mem = rng.sample(cand, min(k, len(cand)))
            g = {"id": "gr" + n + "z" + "ab"[gi], "args": [a["id"] for a in mem], "required": rng.random() < 0.6,
                 "multiple": rng.random() < 0.3, "requires": []}
            groups.append(g)
    # requires rules: a -> b (argument or group), chains allowed, conditional rules (ignored by the usage line) too
    targets = [a["id"] for a in cand] + [g["id"] for g in groups]
    for a in c["args"]:
        if a.get("global"):
            continue          # a global argument is copied into the subcommands, where its targets do not exist
        if targets and rng.random() < prof.get("p_requires", 0.3):
            ts = [t for t in rng.sample(targets, min(len(targets), rng.choice([1, 1, 2]))) if t != a["id"]]
            if ts:
                a["items"].append("(requires %s)" % " ".join(hexs(t) for t in ts))
                a["requires"] = ts
        if targets and a.get("action") in ("set", "append") and rng.random() < 0.08:
            t = rng.choice(targets)
            if t != a["id"]:
                a["items"].append("(requires_if %s %s)" % (hexs("v"), hexs(t)))
    for g in groups:
        if g["required"] and rng.random() < 0.3:
            ts = [t for t in rng.sample(targets, 1) if t != g["id"]]
            g["requires"] = ts
    c["groups"] = groups
    if c["subs"]:
        r = rng.random()
        if r < 0.25:
            c["sets"].append("subcommand_negates_reqs")
        elif r < 0.45:
            c["sets"].append("args_conflicts_with_subcommands")
        if rng.random() < 0.3 and "subcommand_required" not in c["sets"]:
            c["sets"].append("subcommand_required")
        if rng.random() < 0.4:
            c["sub_valname"] = "SV" + n + "z"
    elif rng.random() < 0.15:
        c["sets"].append("allow_external_subcommands")
        if rng.random() < 0.5:
            c["sub_valname"] = "SV" + n + "z"
    for sc in c["subs"]:
        add_usage_forms(rng, ctr, sc, prof)


def cmd_sx(c):
    it = [hexs(c["name"])] + list(c["items"])
    sets = list(c.get("sets", []))
    if c.get("hide"):
        sets.append("hide")
    if sets:
        it.append("(set %s)" % " ".join(sets))
    if c.get("short_flag"):
        it.append("(short_flag %d)" % ord(c["short_flag"]))
    if c.get("long_flag"):
        it.append("(long_flag %s)" % hexs(c["long_flag"]))
    if c.get("next_line"):
        it.append("(x-next-line)")
    if c.get("order") is not None:
        it.append("(x-order %d)" % c["order"])
    if c.get("sub_valname"):
        it.append("(x-sub-valname %s)" % hexs(c["sub_valname"]))
    if c.get("sub_heading"):
        it.append("(x-sub-heading %s)" % hexs(c["sub_heading"]))
    for a in c["args"]:
        if "next_heading" in a:       # Command::next_help_heading called before this argument is added
            it.append("(x-next-heading%s)" % ("" if a["next_heading"] is None else " " + hexs(a["next_heading"])))
        it.append("(arg %s %s)" % (hexs(a["id"]), " ".join(a["items"])))
    for g in c.get("groups", []):
        gi = [hexs(g["id"]), "(args %s)" % " ".join(hexs(x) for x in g["args"])]
        if g["required"]:
            gi.append("(required)")
        if g["multiple"]:
            gi.append("(multiple)")
        if g["requires"]:
            gi.append("(requires %s)" % " ".join(hexs(x) for x in g["requires"]))
        it.append("(group %s)" % " ".join(gi))
    for s in c["subs"]:
        it.append("(sub %s)" % cmd_sx(s))
    return "(cmd %s)" % " ".join(it)


def all_paths(c, prefix=()):
    out = [prefix]
    for s in c["subs"]:
        out += all_paths(s, prefix + (s["name"],))
    return out


def which_sx(kind, path=()):
    if kind in ("short", "long", "usage"):
        return kind
    return "(%s%s)" % (kind, "".join(" " + hexs(p) for p in path))


def case_sx(c, width, which):
    return "(help %s (width %d) (which %s))" % (cmd_sx(c) if isinstance(c, dict) else c, width, which)


BOUNDARY_WIDTHS = [0, 1, 2, 3, 5, 7, 8, 9, 10, 11, 12, 13, 14, 15, 16, 19, 20, 21, 24, 25, 26, 30, 39, 40, 41, 50, 60, 79, 80, 81,
                   99, 100, 101, 120, 199, 200]


NONASCII_PV = [False]


def gen_nonascii(tier, rng, n):
    """the long and short help of commands whose possible-value names are not ASCII: outside the Coq model's domain, so
    implementation only, judged by the oracle (no panic, bounded padding, hidden values absent; seeded change seed3/C12-3
    padded the long-help value list by byte length)"""
    NONASCII_PV[0] = True
    try:
        cases = []
        while len(cases) < n:
            ctr = Ctr()
            c = gen_cmd(rng, ctr, "p", rng.choice([0, 1]), {"nopt": [1, 2, 3], "npos": [0, 1, 2]})
            sx = cmd_sx(c)
            if "(x-pv" not in sx:
                continue
            for wh in ("long", "short", which_sx("flag-help", ())):
                w = rng.choice(BOUNDARY_WIDTHS) if rng.random() < 0.5 else rng.randrange(0, 201)
                cases.append(case_sx(sx, w, wh))
        return cases
    finally:
        NONASCII_PV[0] = False


def gen_random(tier, rng, n):
    cases = []
    for _ in range(n):
        ctr = Ctr()
        prof = {}
        if rng.random() < 0.3:
            prof = {"p_heading": 0.6, "p_order": 0.5}
        c = gen_cmd(rng, ctr, "p", rng.choice([0, 1, 1, 2]), prof)
        sx = cmd_sx(c)
        paths = all_paths(c)
        for _ in range(3):
            w = rng.choice(BOUNDARY_WIDTHS) if rng.random() < 0.6 else rng.randrange(0, 201)
            r = rng.random()
            if r < 0.35:
                wh = "short"
            elif r < 0.6:
                wh = "long"
            elif r < 0.7:
                wh = "usage"
            else:
                wh = which_sx(rng.choice(["flag-h", "flag-help", "sub-help"]), rng.choice(paths))
            cases.append(case_sx(sx, w, wh))
    return cases


def gen_usage_forms(tier, rng, n):
    """round 3: the usage line with argument groups, requires rules and the subcommand forms; every which"""
    cases = []
    for _ in range(n):
        ctr = Ctr()
        prof = {"nflag": [1, 2, 3], "nopt": [1, 2, 3], "npos": [0, 1, 2, 3], "nsub": [0, 1, 2], "p_nohelp": 0.2,
                "p_group": rng.choice([0.3, 0.9]), "p_requires": rng.choice([0.2, 0.6])}
        c = gen_cmd(rng, ctr, "p", rng.choice([0, 1, 1, 2]), prof)
        add_usage_forms(rng, ctr, c, prof)
        if rng.random() < 0.5:
            add_headings(rng, c)
        sx = cmd_sx(c)
        paths = all_paths(c)
        for wh in ["usage", rng.choice(["short", "long"]),
                   which_sx(rng.choice(["flag-h", "flag-help", "sub-help"]), rng.choice(paths))]:
            cases.append(case_sx(sx, rng.choice([0, 40, 80, 100, 200]), wh))
    return cases


def gen_headings(tier, rng, n):
    """round 3: next_help_heading / subcommand_help_heading at every level x short / long / help at a level"""
    cases = []
    for _ in range(n):
        ctr = Ctr()
        c = gen_cmd(rng, ctr, "p", rng.choice([0, 1, 1, 2]), {"nflag": [1, 2, 3], "nopt": [1, 2], "npos": [0, 1, 2], "nsub": [0, 1, 2, 3],
                                                               "p_heading": rng.choice([0.0, 0.3]), "p_nohelp": 0.1})
        add_headings(rng, c, 0.9)
        sx = cmd_sx(c)
        paths = all_paths(c)
        for wh in ["short", "long", which_sx(rng.choice(["flag-h", "flag-help", "sub-help"]), rng.choice(paths))]:
            cases.append(case_sx(sx, rng.choice([0, 40, 80, 100]), wh))
    return cases


def gen_widths(tier, rng, ntrees):
    """small trees x every width 0..200 x short (+ long for some)"""
    cases = []
    for t in range(ntrees):
        ctr = Ctr()
        prof = {"nflag": [0, 1, 2], "nopt": [0, 1, 2], "npos": [0, 1], "nsub": [0, 1, 2], "p_nohelp": 0.3}
        c = gen_cmd(rng, ctr, "p", 1, prof)
        sx = cmd_sx(c)
        ws = range(0, 201) if tier == "thorough" or t < 10 else BOUNDARY_WIDTHS
        for w in ws:
            cases.append(case_sx(sx, w, "short"))
        if t % 4 == 0:
            for w in (range(0, 201, 3) if tier == "thorough" else BOUNDARY_WIDTHS[::3]):
                cases.append(case_sx(sx, w, "long"))
    return cases


def simple_arg(aid, items):
    return "(arg %s %s)" % (hexs(aid), " ".join(items))


def gen_adversarial(tier, rng, n):
    """directed families: sections that hold only short-only flags (Count!), colliding sort keys, everything
    hidden, hide_* combined with next_line_help, very long names, extreme widths"""
    cases = []
    widths = [0, 1, 2, 7, 8, 9, 10, 11, 12, 20, 80, 200, 65535, 65536, 2 ** 32, 2 ** 64 - 1]

    def emit(cmd, whs=("short", "long", "usage")):
        for wh in whs:
            for w in (widths if tier == "thorough" else rng.sample(widths, 5)):
                cases.append(case_sx(cmd, w, wh))
    # B: a section with only short-only flags
    for acts in (["count"], ["settrue", "count"], ["count", "count"], ["settrue"], ["setfalse", "count"]):
        for nohelp in (True, False):
            for heading in (False, True):
                items = []
                for i, act in enumerate(acts):
                    its = ["(short %d)" % ord("vwxy"[i]), "(action %s)" % act]
                    if i % 2 == 0:
                        its.append("(help %s)" % hexs("hp%02dz w" % i))
                    if heading:
                        its.append("(x-heading %s)" % hexs("Hd1z"))
                    items.append(simple_arg("ar%02dz" % i, its))
                sets = "(set disable_help_flag) " if nohelp else ""
                emit("(cmd %s %s%s)" % (hexs("p"), sets, " ".join(items)))
    # B': a short Count flag next to a short positional-like entry under a custom heading (longest = 3 or 4)
    for vn in ("A", "AB", "ABC"):
        emit("(cmd %s (set disable_help_flag) %s %s)" % (
            hexs("p"),
            simple_arg("ar01z", ["(short 118)", "(action count)", "(x-heading %s)" % hexs("Hd1z"), "(help %s)" % hexs("hp01z")]),
            simple_arg("ar02z", ["(action set)", "(x-valname %s)" % hexs(vn), "(x-heading %s)" % hexs("Hd1z"), "(help %s)" % hexs("hp02z")])),
            whs=("short",))
    # M: colliding (display_order, key) pairs
    for (o1, o2) in ((0, 0), (999, 999), (3, 3), (None, 0)):
        a1 = ["(short 97)", "(action settrue)", "(help %s)" % hexs("hp01z")] + (["(x-order %d)" % o1] if o1 is not None else [])
        a2 = ["(long %s)" % hexs("a0"), "(action settrue)", "(help %s)" % hexs("hp02z")] + (["(x-order %d)" % o2] if o2 is not None else [])
        emit("(cmd %s %s %s)" % (hexs("p"), simple_arg("ar01z", a1), simple_arg("ar02z", a2)), whs=("short", "long"))
        emit("(cmd %s %s %s)" % (hexs("p"), simple_arg("ar02z", a2), simple_arg("ar01z", a1)), whs=("short",))
    # random trees biased to the families
    for _ in range(n):
        ctr = Ctr()
        fam = rng.choice(["shortonly", "hidden", "nextline", "longnames", "orders", "subs"])
        prof = {"p_nohelp": 0.5}
        if fam == "shortonly":
            prof.update({"nopt": [0, 0, 1], "npos": [0, 0, 1], "nflag": [1, 2, 3, 4], "p_heading": 0.5})
        elif fam == "nextline":
            prof.update({"p_next_line": 0.5, "p_cmd_next_line": 0.3})
        elif fam == "orders":
            prof.update({"p_order": 0.9, "nflag": [2, 3, 4], "nopt": [1, 2, 3]})
        elif fam == "subs":
            prof.update({"nsub": [2, 3, 4], "nflag": [0, 1], "nopt": [0, 1]})
        c = gen_cmd(rng, ctr, "p", 1, prof)
        if fam == "shortonly":
            for a in c["args"]:
                if "long" in a and "short" in a and rng.random() < 0.8:
                    a["items"] = [x for x in a["items"] if not x.startswith("(long ")]
                    del a["long"]
        if fam == "hidden":
            for a in c["args"]:
                if not a.get("hide") and rng.random() < 0.7:
                    a["hide"] = True
                    fl = [x for x in a["items"] if x.startswith("(flags ")]
                    if fl:
                        a["items"].remove(fl[0])
                        a["items"].append("(flags %s hide)" % fl[0][7:-1])
                    else:
                        a["items"].append("(flags hide)")
            for s in c["subs"]:
                if rng.random() < 0.7:
                    s["hide"] = True
        if fam == "longnames":
            for a in c["args"]:
                if "long" in a and rng.random() < 0.5:
                    old = a["long"]
                    a["long"] = old + "q" * rng.choice([60, 150, 300])
                    a["items"] = [("(long %s)" % hexs(a["long"])) if x == "(long %s)" % hexs(old) else x for x in a["items"]]
        sx = cmd_sx(c)
        for _ in range(3):
            w = rng.choice(widths + BOUNDARY_WIDTHS)
            wh = rng.choice(["short", "short", "long", "usage", which_sx("flag-h", rng.choice(all_paths(c))),
                             which_sx("flag-help", rng.choice(all_paths(c)))])
            cases.append(case_sx(sx, w, wh))
    return cases


def gen_levels(tier, rng, n):
    cases = []
    for _ in range(n):
        ctr = Ctr()
        c = gen_cmd(rng, ctr, "p", 2, {"nsub": [1, 2, 3], "nflag": [0, 1, 2], "nopt": [0, 1], "npos": [0, 1], "p_nohelp": 0.1})
        sx = cmd_sx(c)
        for p in all_paths(c):
            for kind in ("flag-h", "flag-help", "sub-help"):
                if rng.random() < 0.6:
                    cases.append(case_sx(sx, rng.choice([0, 30, 80, 100]), which_sx(kind, p)))
    return cases


def gen_boundary(tier, rng):
    """the three comparisons of arg_next_line_help / subcommand_next_line_help hit exactly: one long-only flag
    (taken = len(long) + 2 + SHORT_SIZE + 2*TAB) or one subcommand (taken = len(name) + 2*TAB), help of
    h_w columns, widths around taken, 2.5*taken and taken + h_w"""
    cases = []
    for n in ([5, 6, 7, 8, 12, 20, 31] if tier == "quick" else range(5, 48)):
        for kind in ("arg", "sub"):
            taken = n + 10 if kind == "arg" else n + 4
            for h_w in sorted(set([1, taken, (3 * taken) // 2 - 1, (3 * taken) // 2, (3 * taken) // 2 + 1, 3 * taken])):
                if h_w < 6:
                    continue
                helptxt = ("hp01z " + "w" * 400)[:h_w]
                if helptxt.endswith(" "):
                    helptxt = helptxt[:-1] + "w"
                if kind == "arg":
                    cmd = "(cmd %s (set disable_help_flag) %s)" % (hexs("p"), simple_arg("ar01z", [
                        "(long %s)" % hexs(("lg01z" + "q" * n)[:n]), "(action settrue)", "(help %s)" % hexs(helptxt)]))
                else:
                    cmd = "(cmd %s (set disable_help_flag disable_help_subcommand) (sub (cmd %s (about %s) (set disable_help_flag))))" % (
                        hexs("p"), hexs(("sc01z" + "n" * n)[:n]), hexs(helptxt))
                ws = set()
                for c in (taken, (5 * taken) // 2, (5 * taken + 1) // 2, taken + h_w):
                    ws.update([c - 1, c, c + 1])
                for w in sorted(x for x in ws if x >= 0):
                    cases.append(case_sx(cmd, w, "short"))
    return cases


# --------------------------------------------------------------------------------- decoding a case (for the oracle)
def s_(t):
    return unhex(t).decode("utf-8")


def dec_arg(l):
    a = {"id": s_(l[0]), "pvs": [], "valnames": []}
    for it in l[1:]:
        h, r = it[0], it[1:]
        if h == "short":
            a["short"] = chr(int(r[0]))
        elif h == "long":
            a["long"] = s_(r[0])
        elif h == "action":
            a["action"] = r[0]
        elif h == "num":
            a["num"] = (int(r[0]), None if r[1] == "inf" else int(r[1]))
        elif h == "flags":
            for f in r:
                a[{"required": "required", "last": "last", "reqeq": "reqeq", "hide": "hide", "global": "global"}[f]] = True
        elif h in ("help", "x-help"):
            a["help"] = s_(r[0])
        elif h == "x-long-help":
            a["long_help"] = s_(r[0])
        elif h == "x-heading":
            a["heading"] = s_(r[0])
        elif h == "x-hide":
            a["hide"] = True
        elif h == "x-hide-short":
            a["hide_short"] = True
        elif h == "x-hide-long":
            a["hide_long"] = True
        elif h == "x-hide-pv":
            a["hide_pv"] = True
        elif h == "x-next-line":
            a["next_line"] = True
        elif h == "x-order":
            a["order"] = int(r[0])
        elif h == "x-valname":
            a["valnames"] += [s_(x) for x in r]
        elif h == "alias":
            a.setdefault("aliases", []).append((s_(r[0]), len(r) > 1 and r[1] == "v"))
        elif h == "salias":
            a.setdefault("saliases", []).append((chr(int(r[0])), len(r) > 1 and r[1] == "v"))
        elif h == "default":
            a["defaults"] = [s_(x) for x in r]
        elif h == "env":
            a["env"] = s_(r[0])
            a["env_val"] = s_(r[1]) if len(r) > 1 else None
        elif h == "x-hide-env":
            a["hide_env"] = True
        elif h == "x-hide-env-values":
            a["hide_env_values"] = True
        elif h == "x-hide-default":
            a["hide_default"] = True
        elif h == "requires":
            a.setdefault("requires", []).extend(s_(x) for x in r)
        elif h == "x-pv":
            pv = {"name": s_(r[0])}
            for e in r[1:]:
                if e == "hide":
                    pv["hide"] = True
                else:
                    pv["help"] = s_(e)
            a["pvs"].append(pv)
    return a


def dec_cmd(l):
    c = {"name": s_(l[0]), "args": [], "subs": [], "sets": []}
    current_heading = None        # Command::next_help_heading: applies to the arguments added afterwards
    for it in l[1:]:
        h, r = it[0], it[1:]
        if h == "about":
            c["about"] = s_(r[0])
        elif h == "long_about":
            c["long_about"] = s_(r[0])
        elif h in ("version", "long_version"):
            c["version"] = True
        elif h == "short_flag":
            c["short_flag"] = chr(int(r[0]))
        elif h == "long_flag":
            c["long_flag"] = s_(r[0])
        elif h == "set":
            for f in r:
                if f == "hide":
                    c["hide"] = True
                else:
                    c["sets"].append(f)
        elif h == "x-next-line":
            c["next_line"] = True
        elif h == "x-order":
            c["order"] = int(r[0])
        elif h == "x-next-heading":
            current_heading = s_(r[0]) if r else None
        elif h == "x-sub-heading":
            c["sub_heading"] = s_(r[0])
        elif h == "arg":
            a = dec_arg(r)
            if "heading" not in a and current_heading is not None:
                a["heading"] = current_heading
            c["args"].append(a)
        elif h == "group":
            g = {"id": s_(r[0]), "args": [], "required": False, "requires": []}
            for e in r[1:]:
                if e[0] == "args":
                    g["args"] = [s_(x) for x in e[1:]]
                elif e[0] == "required":
                    g["required"] = True
                elif e[0] == "requires":
                    g["requires"] = [s_(x) for x in e[1:]]
            c.setdefault("groups", []).append(g)
        elif h == "x-sub-valname":
            c["sub_valname"] = s_(r[0])
        elif h == "x-template":
            c["template"] = s_(r[0])
        elif h == "x-flatten-help":
            c["flatten"] = True
        elif h == "sub":
            c["subs"].append(dec_cmd(r[0][1:]))
    return c


def decode_case(case):
    v = sx_parse(case)
    cmd = dec_cmd(v[1][1:])
    width = int(v[2][1])
    wh = v[3][1]
    if isinstance(wh, list):
        which, path = wh[0], [s_(x) for x in wh[1:]]
    else:
        which, path = wh, []
    return cmd, width, which, path


def impl_text(impl):
    m = re.search(r"\(text (x[0-9a-f]*)\)", impl)
    return unhex(m.group(1)).decode("utf-8") if m else None


# --------------------------------------------------------------------------------- the oracle (from the property text)
def is_positional(a):
    return "short" not in a and "long" not in a


def hidden_for_mode(a, use_long):
    return bool(a.get("hide") or (a.get("hide_long") if use_long else a.get("hide_short")))


MARKER = re.compile(r"^(--)?[A-Za-z]{2}\d\dz")


def arg_markers(a):
    """strings that occur in a screen only because this argument is rendered (only names of the
    generators' marker shape are distinctive enough for an absence test)"""
    return [x for x in arg_markers_all(a) if MARKER.match(x)]


def arg_markers_all(a):
    m = []
    if "long" in a:
        m.append("--" + a["long"])
    for v in a["valnames"]:
        m.append(v)
    if is_positional(a) and not a["valnames"]:
        m.append(a["id"])
    if a.get("help"):
        m.append(a["help"].split()[0])
    if a.get("long_help"):
        m.append(a["long_help"].split()[0])
    for pv in a["pvs"]:
        m.append(pv["name"])
    # what spec_vals prints: env name and value, defaults, aliases (only marker-shaped ones are used)
    if a.get("env"):
        m.append(a["env"])
        if a.get("env_val"):
            m.append(a["env_val"])
    for al, _vis in a.get("aliases", []):
        m.append(al)
    if not a["pvs"]:
        for d in a.get("defaults", []):
            m.append(d.split()[0] if d.split() else d)
    return m


def short_occurs(text, c):
    return re.search(r"(?<![-\w])-%s(?![\w-])" % re.escape(c), text) is not None


def split_screen(text):
    """(about lines, usage text, {title: block text}, section titles in order) of a rendered screen"""
    lines = text.split("\n")
    ui = next((i for i, l in enumerate(lines) if l.startswith("Usage:")), None)
    if ui is None:
        return None
    about = [l for l in lines[:ui] if l.strip()]
    i = ui
    usage = []
    while i < len(lines) and lines[i].strip():
        usage.append(lines[i])
        i += 1
    secs, order, cur = {}, [], None
    for l in lines[i:]:
        if l and not l.startswith(" "):
            if l.endswith(":"):
                cur = l[:-1]
                order.append(cur)
                secs.setdefault(cur, [])
            else:
                cur = None
        elif cur is not None:
            secs[cur].append(l)
    return about, "\n".join(usage), {k: "\n".join(v) for k, v in secs.items()}, order


def left_bound(level):
    """a width-independent bound on the left column of any row of this level"""
    b = 24
    for a in level["args"]:
        names = a["valnames"] or [a["id"]]
        lo = (a.get("num") or (1, 1))[0]
        reps = max(lo, 1) if len(names) == 1 else 1
        w = 6 + len(a.get("long", "")) + 4 + sum(len(x) + 3 for x in names) * reps + 8
        b = max(b, w)
        for pv in a["pvs"]:
            b = max(b, 14 + sum(2 if ord(ch) > 0x2e80 else 1 for ch in pv["name"]) + 4)
    for s in level["subs"]:
        b = max(b, len(s["name"]) + len(s.get("long_flag", "")) + 16)
    return b


def walk(cmd, path):
    """the level a path of subcommand names leads to, with the global settings inherited on the way"""
    inherited = set(x for x in cmd["sets"] if x.startswith("disable_"))
    lv = cmd
    for p in path:
        nxt = [s for s in lv["subs"] if s["name"] == p]
        if not nxt:
            return None, inherited
        # global arguments of the level above are arguments of this level too (unless it defines the id itself)
        ids = set(a["id"] for a in nxt[0]["args"])
        glob = [a for a in lv["args"] if a.get("global") and a["id"] not in ids]
        lv = dict(nxt[0], args=nxt[0]["args"] + glob)
        inherited |= set(x for x in lv["sets"] if x.startswith("disable_"))
    return lv, inherited


def oracle(case, impl, flat_bound=None):
    """`flat_bound` is given by `flatten_oracle` when the rendered level is flattened: the screen then has no
    "Commands" section (the subcommands are checked there) and rows of other levels (the bound covers them)."""
    cmd, width, which, path = decode_case(case)
    if impl.startswith("PANIC"):
        return "rendering panicked: " + impl[:200]
    if impl.startswith("INVALID") or impl.startswith("harness-error") or impl.startswith("unknown-mode"):
        return None
    level, inherited = (cmd, set(x for x in cmd["sets"] if x.startswith("disable_"))) if which in ("short", "long", "usage") \
        else walk(cmd, path)
    if level is None:
        return None
    if impl.startswith("err") or impl.startswith("noerr"):
        # the help flag must yield help at the level it was given at, unless it is disabled there
        if which in ("flag-h", "flag-help") and "disable_help_flag" not in inherited:
            return "%s at level %r did not produce a help screen: %s" % (which, path, impl[:100])
        return None
    text = impl_text(impl)
    if text is None:
        return "no rendered text in the result"
    # -- no unbounded padding: the longest run of spaces is bounded independently of the width
    bound = left_bound(level) if flat_bound is None else flat_bound
    m = re.search(r"\(maxrun (\d+)\)", impl)
    if m and int(m.group(1)) > bound:
        return "a run of %s spaces exceeds the width-independent bound %d" % (m.group(1), bound)
    if which == "usage":
        for a in level["args"]:
            if a.get("hide") and not a.get("required"):
                for mk in arg_markers(a):
                    if mk in text:
                        return "hidden optional argument %s appears in the usage (%r)" % (a["id"], mk)
                # (a flattened usage block also carries the lines of other levels, where the same letter may be in use)
                if flat_bound is None and "short" in a and "long" not in a and short_occurs(text, a["short"]):
                    return "hidden optional argument %s appears in the usage (-%s)" % (a["id"], a["short"])
        return None
    scr = split_screen(text)
    if scr is None:
        return "rendered help has no usage line"
    about, usage, secs, order = scr
    # which mode was rendered?  -h: short; --help / help <path>: long (identical visibility when clap falls back to short)
    use_long = which in ("long", "flag-help", "sub-help")
    # -- help level
    if which in ("flag-h", "flag-help", "sub-help"):
        exp = (level.get("long_about") or level.get("about")) if use_long else level.get("about")
        if exp is not None:
            if not about or about[0].rstrip() != exp.split("\n")[0] and exp.split()[0] not in " ".join(about):
                return "help of level %r does not start with that level's about %r (got %r)" % (path, exp, about[:1])
        else:
            if about:
                return "help of level %r (no about) starts with %r" % (path, about[0])
        ut = usage.split()
        want = [cmd["name"]] + path
        pos = 0
        for t in ut:
            tt = t.strip("{}").split("|")[0]
            if pos < len(want) and tt == want[pos]:
                pos += 1
        if pos != len(want):
            return "usage line %r of the help at level %r does not name the path" % (usage, path)
    body = "\n".join(secs.get(t, "") for t in order)
    if flat_bound is not None:
        # a flattened screen: the absence tests by short letter are made on the level's OWN sections only (the flattened
        # sections belong to other levels, where the same letter may be in use)
        own = {"Arguments", "Options"} | set(a["heading"] for a in level["args"] if a.get("heading"))
        body = "\n".join(secs.get(t, "") for t in order if t in own)
    # -- every visible argument is listed in its section
    for a in level["args"]:
        hidden = hidden_for_mode(a, use_long)
        sec = a.get("heading") or ("Arguments" if is_positional(a) else "Options")
        if not hidden:
            blk = secs.get(sec)
            if blk is None:
                return "visible argument %s: its section %r is missing" % (a["id"], sec)
            if "long" in a:
                ok = ("--" + a["long"]) in blk and re.search(r"--%s(?![\w-])" % re.escape(a["long"]), blk)
            elif "short" in a:
                ok = short_occurs(blk, a["short"])
            else:
                nm = a["valnames"][0] if a["valnames"] else a["id"]
                ok = ("<%s>" % nm) in blk or ("[%s]" % nm) in blk
            if not ok:
                return "visible argument %s is not listed in section %r" % (a["id"], sec)
        elif not a.get("required"):
            # hidden for this mode and optional: appears nowhere in the sections
            for mk in arg_markers(a):
                if mk in body:
                    return "argument %s is hidden for this help mode but %r appears" % (a["id"], mk)
            if "short" in a and "long" not in a and short_occurs(body, a["short"]):
                return "argument %s is hidden for this help mode but -%s appears" % (a["id"], a["short"])
        if a.get("hide") and not a.get("required"):
            for mk in arg_markers(a):
                if mk in text:
                    return "hidden optional argument %s: %r appears" % (a["id"], mk)
        # hidden possible values appear nowhere
        for pv in a["pvs"]:
            if pv.get("hide") and MARKER.match(pv["name"]) and pv["name"] in text:
                return "hidden possible value %s of %s appears" % (pv["name"], a["id"])
            if pv.get("hide") and pv.get("help") and MARKER.match(pv["help"]) and pv["help"].split()[0] in text:
                return "help of hidden possible value %s of %s appears" % (pv["name"], a["id"])
        # hidden (non-visible) aliases appear nowhere
        for al, vis in a.get("aliases", []):
            if not vis and MARKER.match(al) and al in text:
                return "hidden alias %s of %s appears" % (al, a["id"])
    # -- subcommands
    for s in level["subs"]:
        if s.get("hide"):
            mks = [s["name"]] + ([s["about"].split()[0]] if s.get("about") else []) + \
                  (["--" + s["long_flag"]] if s.get("long_flag") else [])
            for mk in mks:
                if MARKER.match(mk) and mk in text:
                    return "hidden subcommand %s: %r appears" % (s["name"], mk)
        elif flat_bound is None:
            blk = secs.get(level.get("sub_heading") or "Commands")
            if blk is None or not re.search(r"(?m)^  %s(?![\w-])" % re.escape(s["name"]), blk):
                return "visible subcommand %s is not listed under %s" % (s["name"], level.get("sub_heading") or "Commands")
    return None


TEMPLATES = ["{usage-heading} {usage}\n\nOPTS:\n{options}\nPOS:\n{positionals}\nSUBS:\n{subcommands}\n",
             "{name} {version}\n{about}\n{usage}\n{all-args}{after-help}",
             "{before-help}{about-with-newline}\n{usage-heading} {usage}\n\n{all-args}",
             "{options}", "{positionals}\n{options}", "{subcommands}{tab}x"]


def gen_templates(tier, rng, n):
    """custom help templates: the per-tag writers ({options}, {positionals}, {subcommands}, {all-args}) must apply
    the same visibility filter as the default template (implementation-only stream: templates are not modelled)"""
    out = []
    ctr = Ctr()
    while len(out) < n:
        c = gen_cmd(rng, ctr, "prog", 1, {"p_heading": 0.0, "nflag": [1, 2, 3], "nopt": [1, 2, 3], "npos": [0, 1, 2], "nsub": [0, 1, 2]})
        for a in c["args"]:
            if rng.random() < 0.5 and not any(x.startswith("(x-hide") for x in a["items"]) and "(flags required)" not in " ".join(a["items"]):
                a["items"].append(rng.choice(["(x-hide)", "(x-hide-short)", "(x-hide-long)"]))
        c["items"].append("(x-template %s)" % hexs(rng.choice(TEMPLATES)))
        for which in ("short", "long"):
            out.append(case_sx(c, rng.choice([0, 40, 80, 100]), which))
    return out[:n]


def template_oracle(case, impl):
    if impl.startswith("PANIC"):
        return "rendering panicked: " + impl[:200]
    if impl.startswith(("INVALID", "harness-error", "unknown-mode", "err", "noerr")):
        return None
    cmd, width, which, path = decode_case(case)
    text = impl_text(impl)
    if text is None:
        return None
    use_long = which == "long"
    for a in cmd["args"]:
        if hidden_for_mode(a, use_long) and not a.get("required"):
            if is_positional(a) and not a.get("hide"):
                continue     # the usage line (part of most templates) still names a positional hidden only for one help mode
            for mk in arg_markers(a):
                if mk in text:
                    return "argument %s is hidden for this help mode but %r appears (custom template)" % (a["id"], mk)
    for sc in cmd["subs"]:
        if sc.get("hide") and MARKER.match(sc["name"]) and sc["name"] in text:
            return "hidden subcommand %s appears (custom template)" % sc["name"]
    return None


TAG_TITLES = {"options": "OPTSz", "positionals": "POSz", "subcommands": "SUBSz"}


def gen_template_tags(tier, rng, n):
    """round 3: custom templates built from titled blocks `TITLE:\\n{tag}` for the row-writing tags ({options},
    {positionals}, {subcommands}; any subset, any order, a tag may repeat) or `{all-args}`, compared with the model
    (tag dispatch of write_templated_help) row by row; arguments hidden per mode, headings, hidden subcommands"""
    out = []
    while len(out) < n:
        ctr = Ctr()
        c = gen_cmd(rng, ctr, "p", 1, {"p_heading": rng.choice([0.0, 0.4]), "nflag": [1, 2, 3], "nopt": [0, 1, 2], "npos": [0, 1, 2],
                                     "nsub": [0, 1, 2, 3]})
        for a in c["args"]:
            if rng.random() < 0.4 and not any(x.startswith("(x-hide") for x in a["items"]) and "required" not in " ".join(a["items"]) \
                    and "hide" not in " ".join(a["items"]):
                a["items"].append(rng.choice(["(x-hide)", "(x-hide-short)", "(x-hide-long)"]))
        head = rng.choice(["{about-with-newline}\n", "{about}\n\n", ""]) + "{usage-heading} {usage}\n\n"
        if rng.random() < 0.25:
            body = "{all-args}"
        else:
            tags = [rng.choice(list(TAG_TITLES)) for _ in range(rng.choice([1, 2, 3, 3, 4]))]
            body = "".join("%s%d:\n{%s}\n\n" % (TAG_TITLES[t], i, t) for i, t in enumerate(tags))
            if rng.random() < 0.3:
                body += "{unknownz}{tab}"
        tmpl = head + body + "{after-help}"
        c["items"].append("(x-template %s)" % hexs(tmpl))
        for which in ("short", "long"):
            out.append(case_sx(c, rng.choice([0, 30, 40, 80, 100]), which))
    return out[:n]


def template_tags_oracle(case, impl):
    """hidden-absent (template_oracle) and, per titled block, visible-listed: {options} lists every non-positional
    argument that is not hidden for the mode, {positionals} every such positional, {subcommands} every subcommand
    that is not hidden"""
    r = template_oracle(case, impl)
    if r:
        return r
    if impl.startswith(("PANIC", "INVALID", "harness-error", "unknown-mode", "err", "noerr")):
        return None
    cmd, width, which, path = decode_case(case)
    text = impl_text(impl)
    tmpl = cmd.get("template")
    if text is None or not tmpl:
        return None
    use_long = which == "long"
    scr = split_screen(text)
    if scr is None:
        return "rendered template has no usage line"
    secs = scr[2]
    for title, tag in re.findall(r"(\w+):\n\{(\w+)\}", tmpl):
        blk = secs.get(title)
        if blk is None:
            return "the block %r of the template is missing" % title
        if tag in ("options", "positionals"):
            for a in cmd["args"]:
                if hidden_for_mode(a, use_long) or is_positional(a) != (tag == "positionals"):
                    continue
                if "long" in a:
                    ok = re.search(r"--%s(?![\w-])" % re.escape(a["long"]), blk)
                elif "short" in a:
                    ok = short_occurs(blk, a["short"])
                else:
                    nm = a["valnames"][0] if a["valnames"] else a["id"]
                    ok = ("<%s>" % nm) in blk or ("[%s]" % nm) in blk
                if not ok:
                    return "visible argument %s is not listed by {%s}" % (a["id"], tag)
        elif tag == "subcommands":
            for sc in cmd["subs"]:
                if not sc.get("hide") and not re.search(r"(?m)^  %s(?![\w-])" % re.escape(sc["name"]), blk):
                    return "visible subcommand %s is not listed by {subcommands}" % sc["name"]
    return None


def f32_oracle(case, impl):
    if not re.match(r"f32 checked \d+ differ \(\)\s*$", impl):
        return "the f32 comparison of arg_next_line_help differs from 5*taken > 2*term_w: " + impl[:200]
    return None


# --------------------------------------------------------------------------------- projection
def project(r):
    if r.startswith("PANIC"):
        return "PANIC"
    if r.startswith("err") or r.startswith("noerr"):
        return "err"
    if r.startswith("INVALID"):
        return "INVALID"
    i = r.find(" (maxline")
    return r[:i].rstrip() if i >= 0 else r.rstrip()


def nontrivial(case, impl):
    return "(row " in impl or len(re.findall(r"\(usage ([^)]*)\)", impl)[0].split()) > 1 if "(usage" in impl else False


# --------------------------------------------------------------------------------- fourth pass: `help <path>` and the help
# flag behind chains WITH arguments, on the parser (`parse` mode of the shared harness / parse model driver)
HS_LETTERS = "abcdefgijklmnopqrstuvwxyz"      # no h: nothing but `help` starts with h


def _hs_name(rng, used):
    while True:
        n = "".join(rng.choice(HS_LETTERS) for _ in range(rng.choice([2, 3, 4, 5, 6])))
        if n not in used and not any(u.startswith(n) or n.startswith(u) for u in used if rng.random() < 0.7):
            used.add(n)
            return n


def _hs_cmd(rng, name, depth, used_opts):
    c = {"name": name, "subs": [], "aliases": [], "flag": None, "opt": None, "set": []}
    if rng.random() < 0.7:
        f = _hs_name(rng, used_opts)
        c["flag"] = f
    if rng.random() < 0.6:
        o = _hs_name(rng, used_opts)
        c["opt"] = o
    if depth > 0:
        used = set()
        for _ in range(rng.choice([0, 1, 2, 2, 3])):
            sc = _hs_cmd(rng, _hs_name(rng, used), depth - 1, used_opts)
            for _ in range(rng.choice([0, 0, 1, 1, 2])):
                sc["aliases"].append((_hs_name(rng, used), rng.random() < 0.5))
            c["subs"].append(sc)
    return c


def _hs_sx(c):
    out = "(cmd " + hexs(c["name"].encode())
    for st in c["set"]:
        out += " (set %s)" % st
    for (a, vis) in c["aliases"]:
        out += " (alias %s%s)" % (hexs(a.encode()), " v" if vis else "")
    if c["flag"]:
        out += " (arg %s (long %s) (action settrue))" % (hexs(c["flag"].encode()), hexs(c["flag"].encode()))
    if c["opt"]:
        out += " (arg %s (long %s) (action set))" % (hexs(c["opt"].encode()), hexs(c["opt"].encode()))
    for sc in c["subs"]:
        out += " (sub %s)" % _hs_sx(sc)
    return out + ")"


def _hs_level_args(rng, c):
    out = []
    if c["flag"] and rng.random() < 0.5:
        out.append("--" + c["flag"])
    if c["opt"] and rng.random() < 0.5:
        if rng.random() < 0.5:
            out.append("--%s=v%d" % (c["opt"], rng.randrange(10)))
        else:
            out += ["--" + c["opt"], "v%d" % rng.randrange(10)]
    rng.shuffle(out) if len(out) == 2 and not any(t.startswith("v") for t in out) else None
    return out


def _hs_word(rng, c, infer):
    """a word aimed at the subcommands of c: (token, kind)"""
    if not c["subs"]:
        return rng.choice(["zz", "q"]), "garbage"
    sc = rng.choice(c["subs"])
    r = rng.random()
    if r < 0.35:
        return sc["name"], "name"
    if r < 0.65 and sc["aliases"]:
        return rng.choice(sc["aliases"])[0], "alias"
    if r < 0.8 and sc["aliases"]:
        a = rng.choice(sc["aliases"])[0]
        return a[:rng.randrange(1, len(a))] if len(a) > 1 else a, "alias-prefix"
    if r < 0.92:
        n = sc["name"]
        return n[:rng.randrange(1, len(n))] if len(n) > 1 else n, "name-prefix"
    return rng.choice(["zz", "help", "q"]), "garbage"


def gen_help_sub_paths(tier, rng, n):
    cases = []
    while len(cases) < n:
        root = _hs_cmd(rng, "p", rng.choice([1, 2, 2, 3]), set())
        infer = rng.random() < 0.5
        if infer:
            root["set"].append("infer_subcommands")
        if rng.random() < 0.06:
            root["set"].append("disable_help_subcommand")
        sx = _hs_sx(root)
        for _ in range(6):
            argv = ["p"]
            cur = root
            argv += _hs_level_args(rng, cur)
            for _ in range(rng.choice([0, 0, 1, 1, 2])):          # descend by exact names / aliases
                if not cur["subs"]:
                    break
                sc = rng.choice(cur["subs"])
                argv.append(rng.choice([sc["name"]] + [a for (a, _) in sc["aliases"]]))
                cur = sc
                argv += _hs_level_args(rng, cur)
            end = rng.random()
            if end < 0.7:
                argv.append(rng.choice(["help", "help", "help", "he", "hel", "h"]) if infer else "help")
                lv = cur
                for _ in range(rng.choice([0, 1, 1, 2, 2, 3])):
                    w, kind = _hs_word(rng, lv, infer)
                    argv.append(w)
                    nxt = [s for s in lv["subs"] if s["name"] == w or w in [a for (a, _) in s["aliases"]]]
                    if nxt:
                        lv = nxt[0]
            else:
                argv.append(rng.choice(["--help", "-h"]))
                if rng.random() < 0.4:
                    argv.append(rng.choice(["--bogus", "zz", "--help"]))
            cases.append("(parse %s (argv%s))" % (sx, "".join(" " + hexs(t.encode()) for t in argv)))
    return cases[:n]


def _hs_read(case):
    """reference reading, from the documentation of the help subcommand / help flag; None = no verdict.
    -> (expected canonical path or None, saw_help)"""
    from .. import parse_streams as P
    cmd, argv = P.decode_case(case)
    toks = [t.decode() for t in argv[1:]]
    settings = set(cmd["settings"])
    infer = "infer_subcommands" in settings
    if "disable_help_subcommand" in settings or "disable_help_flag" in settings:
        return None
    cur, names, i = cmd, [], 0

    def resolve(c, w):
        hit = [s for s in c["subs"] if s["name"].decode() == w or w in [a.decode() for (a, _) in s["aliases"]]]
        return hit[0] if len(hit) == 1 else None

    while i < len(toks):
        t = toks[i]
        if t in ("--help", "-h"):
            return names
        if t.startswith("--"):
            body = t[2:]
            key = body.split("=", 1)[0]
            a = [x for x in cur["args"] if x.get("long", b"").decode() == key]
            if not a:
                return None
            if a[0].get("action") == "set" and "=" not in body:
                i += 1
            i += 1
            continue
        if t.startswith("-"):
            return None
        is_help = t == "help" or (infer and t != "" and "help".startswith(t))
        if is_help:
            if not cur["subs"] or any(s["name"].decode().startswith("h") or any(a.decode().startswith("h") for (a, _) in s["aliases"])
                                      for s in cur["subs"]):
                return None
            lv, path = cur, []
            for w in toks[i + 1:]:
                if w == "help" and lv["subs"]:
                    return None                      # the generated help subcommand itself: no verdict
                nxt = resolve(lv, w)
                if nxt is None:
                    return None                      # a word that is no exact name / alias: an error, not judged here
                path.append(nxt["name"].decode())
                lv = nxt
            return names + path
        nxt = resolve(cur, t)
        if nxt is None:
            return None
        names.append(nxt["name"].decode())
        cur = nxt
        i += 1
    return None


def help_sub_oracle(case, impl):
    if impl is None or impl.startswith("PANIC") or impl.startswith("ABORT"):
        return "help request panics: %s" % (impl or "no result")[:160]
    try:
        exp = _hs_read(case)
    except Exception:
        return None
    if exp is None:
        return None
    p = impl.split(" ")
    if p[0] != "err" or p[1] != "DisplayHelp":
        return "a help request for level `%s` did not produce a help screen: %s" % (" ".join(["p"] + exp), impl[:120])
    head = unhex(p[4]).decode("utf-8", "replace") if len(p) > 4 else ""
    want = "Usage: " + " ".join(["p"] + exp)
    if not (head == want or head.startswith(want + " ")):
        return "help of the wrong level: expected `%s ..`, got `%s`" % (want, head)
    return None


def help_sub_project(result):
    if result is None:
        return "none"
    p = result.split(" ")
    if p[0] == "err":
        return "err " + (p[1] if p[1] in ("DisplayHelp", "DisplayVersion") else "other")
    return p[0]


def help_sub_nontrivial(case, impl):
    try:
        return _hs_read(case) is not None
    except Exception:
        return False


def describe_help_sub(cases):
    d = {"cases": len(cases), "judged (reference reading has a verdict)": 0, "help subcommand": 0, "help flag": 0,
         "infer_subcommands": sum(1 for c in cases if "infer_subcommands" in c), "with alias on the line": 0}
    for c in cases:
        try:
            v = _hs_read(c)
        except Exception:
            v = None
        if v is not None:
            d["judged (reference reading has a verdict)"] += 1
        toks = [unhex(t).decode() for t in re.search(r"\(argv([^()]*)\)", c).group(1).split()]
        if any(t in ("--help", "-h") for t in toks):
            d["help flag"] += 1
        elif any(t != "" and "help".startswith(t) for t in toks[1:]):
            d["help subcommand"] += 1
        als = {unhex(a).decode() for a in re.findall(r"\(alias (x[0-9a-f]*)", c)}
        if als & set(toks):
            d["with alias on the line"] += 1
    return d


# --------------------------------------------------------------------------------- round 5: flatten_help
def _flat_cond(c):
    return bool(c.get("flatten")) and any(not s.get("hide") for s in c["subs"])


def _mark_flatten(rng, c, p):
    if c["subs"] and rng.random() < p:
        c["flatten"] = True
        c["items"].append("(x-flatten-help)")
    for s in c["subs"]:
        _mark_flatten(rng, s, 0.5)


def gen_flatten(tier, rng, n):
    """trees of depth <= 3; `flatten_help` on the root (mostly) and on inner nodes (half of them); hidden subcommands,
    flag subcommands, display orders, required arguments / groups at the parents (they go into the usage names),
    the settings that decide whether a level writes its own line; every kind of rendering, at the root and at levels
    reached by a parse (those are built lazily: the shape of their `help` line differs from the one of a level that
    `build()` builds for the rendering)"""
    cases = []
    for _ in range(n):
        ctr = Ctr()
        prof = {"nsub": [1, 2, 2, 3], "nflag": [0, 1, 2], "nopt": [0, 1, 1], "npos": [0, 0, 1, 2], "p_nohelp": 0.1,
                "p_case_twin": 0.06, "p_heading": 0.1}
        c = gen_cmd(rng, ctr, "p", rng.choice([1, 2, 2, 3]), prof)
        if rng.random() < 0.5:
            add_usage_forms(rng, ctr, c, {"p_group": 0.3, "p_requires": 0.2})
        _mark_flatten(rng, c, 0.9)
        sx = cmd_sx(c)
        paths = all_paths(c)
        flat_paths = [p for p in paths if _flat_cond(_level_of(c, p))] or paths
        for _ in range(3):
            w = rng.choice([0, 80, 80, 100, 120, 60, 200])
            r = rng.random()
            if r < 0.25:
                wh = "usage"
            elif r < 0.45:
                wh = "short"
            elif r < 0.6:
                wh = "long"
            else:
                wh = which_sx(rng.choice(["flag-h", "flag-help", "sub-help"]),
                              rng.choice(flat_paths) if rng.random() < 0.8 else rng.choice(paths))
            cases.append(case_sx(sx, w, wh))
    return cases


def _level_of(c, path):
    for p in path:
        c = next(s for s in c["subs"] if s["name"] == p)
    return c


def _norm_tok(t):
    return t.strip("{}").split("|")[0]


def _flat_owners(level, path):
    """(path of names, node) of every subcommand that must write a line of its own into the flattened usage of
    `level`, by the documentation of `flatten_help`: every visible subcommand, recursively through the visible
    subcommands that are flattened themselves (such a node writes its own line unless a subcommand is required
    and arguments do not conflict with subcommands)"""
    out = []
    for s in level["subs"]:
        if s.get("hide"):
            continue
        sp = path + [s["name"]]
        if _flat_cond(s):
            if "subcommand_required" not in s["sets"] or "args_conflicts_with_subcommands" in s["sets"]:
                out.append((sp, s))
            out += _flat_owners(s, sp)
        else:
            out.append((sp, s))
    return out


def _flat_sections(level, path):
    """the visible subcommands that get a flattened section: recursively through those that have the setting"""
    out = []
    for s in level["subs"]:
        if s.get("hide"):
            continue
        sp = path + [s["name"]]
        out.append((sp, s))
        if s.get("flatten"):
            out += _flat_sections(s, sp)
    return out


def _hidden_markers(level, through_flat_only=True):
    """marker names of the hidden subcommands met on the way (and of everything below them)"""
    out = []
    for s in level["subs"]:
        if s.get("hide"):
            out.append(s["name"])
            if s.get("about"):
                out.append(s["about"].split()[0])
        elif s.get("flatten"):
            out += _hidden_markers(s)
    return out


def _all_nodes(c):
    return [c] + [x for s in c["subs"] for x in _all_nodes(s)]


def _flat_split(text):
    """sections of a flattened screen: as `split_screen`, but the unindented lines right under a heading (the about
    that `write_flat_subcommands` writes there) belong to the section"""
    lines = text.split("\n")
    ui = next((i for i, l in enumerate(lines) if l.startswith("Usage:")), None)
    i = ui
    while i < len(lines) and lines[i].strip():
        i += 1
    secs, order, cur, rows_seen = {}, [], None, False
    for l in lines[i:]:
        if l and not l.startswith(" "):
            if l.endswith(":"):
                cur, rows_seen = l[:-1], False
                order.append(cur)
                secs.setdefault(cur, [])
            elif cur is not None and not rows_seen:
                pass                      # about line(s) of the section
            else:
                cur = None
        elif cur is not None:
            if l.strip():
                rows_seen = True
            secs[cur].append(l)
    return {k: "\n".join(v) for k, v in secs.items()}, order


def _long_help_exists(level):
    """the documented rule for `--help` / `help`: long help is shown when the level has any (a long about, or an
    argument that is not hidden and has a long help, is hidden in one of the two modes only, or has a possible value
    with a help text); otherwise the short help is shown"""
    if level.get("long_about"):
        return True
    for a in level["args"]:
        if a.get("hide"):
            continue
        takes = a.get("action") in ("set", "append")
        if a.get("long_help") or a.get("hide_long") or a.get("hide_short"):
            return True
        if takes and not a.get("hide_pv") and any(pv.get("help") and not pv.get("hide") for pv in a["pvs"]):
            return True
    return False


def flatten_oracle(case, impl):
    """From the property text, for a level rendered with `flatten_help`: the rendering does not panic, has no
    unbounded padding; every visible subcommand (to the depth the flattening goes) has its usage line, starting with
    the program name and naming the path, and its section listing every argument of its own that is visible in the
    mode and not global; hidden subcommands, and optional arguments hidden for the mode, appear nowhere.  A level
    that is not flattened is judged by the general oracle."""
    cmd, width, which, path = decode_case(case)
    if impl.startswith("PANIC"):
        return "rendering panicked: " + impl[:200]
    level = cmd if which in ("short", "long", "usage") else walk(cmd, path)[0]
    if level is None or not _flat_cond(level) or not impl.startswith("ok"):
        return oracle(case, impl)
    bound = max(left_bound(x) for x in _all_nodes(cmd))
    r = oracle(case, impl, flat_bound=bound)
    if r is not None:
        return r
    text = impl_text(impl)
    if which == "usage":
        usage = text
    else:
        scr = split_screen(text)
        usage = scr[1]
    base = [cmd["name"]] + (path if which not in ("short", "long", "usage") else [])
    known = set(x["name"] for x in _all_nodes(cmd)) | {"help"}
    ulines = [[_norm_tok(t) for t in l.split()] for l in usage.split("\n")]
    ulines = [(l[1:] if l and l[0] == "Usage:" else l) for l in ulines]
    owner_of = []
    for l in ulines:
        names = [t for t in l if t in known]
        owner_of.append((names[-1] if names else None, l))
    for sp, node in _flat_owners(level, base):
        mine = [l for (o, l) in owner_of if o == sp[-1]]
        if not mine:
            return "visible subcommand %s has no line in the flattened usage" % "/".join(sp)
        two = ("subcommand_negates_reqs" in node["sets"] or "args_conflicts_with_subcommands" in node["sets"])
        if len(mine) > (2 if two else 1):
            return "visible subcommand %s has %d lines in the flattened usage" % ("/".join(sp), len(mine))
        l = mine[0]
        if not l or l[0] != cmd["name"]:
            return "the usage line of %s does not start with the program name: %r" % ("/".join(sp), " ".join(l))
        # the names of the path, in order
        pos = 0
        for t in l:
            if pos < len(sp) and t == sp[pos]:
                pos += 1
        if pos < len(sp):
            return "the usage line of %s does not name its path: %r" % ("/".join(sp), " ".join(l))
    for mk in _hidden_markers(level):
        if MARKER.match(mk) and mk in text:
            return "hidden subcommand: %r appears in the flattened help" % mk
    if which == "usage":
        return None
    # the mode that is rendered: the arguments of the flattened subcommands are filtered by the mode of the SCREEN
    # (observation, docs/notes/C12.md: `--help` at a level without long help of its own renders the short mode, and a
    # `hide_short_help` argument of a flattened subcommand is then not listed although `sub --help` lists it)
    use_long = which == "long" or (which in ("flag-help", "sub-help") and _long_help_exists(level))
    secs, order = _flat_split(text)
    by_last = {}
    for t in order:
        toks = [_norm_tok(x) for x in t.split()]
        names = [x for x in toks if x in known]
        if names:
            by_last.setdefault(names[-1], []).append(t)
    for sp, node in _flat_sections(level, base):
        ts = by_last.get(sp[-1], [])
        if len(ts) != 1:
            return "visible subcommand %s has %d flattened sections" % ("/".join(sp), len(ts))
        blk = secs[ts[0]]
        for a in node["args"]:
            hidden = hidden_for_mode(a, use_long)
            if not hidden and not a.get("global"):
                if "long" in a:
                    ok = re.search(r"--%s(?![\w-])" % re.escape(a["long"]), blk)
                elif "short" in a:
                    ok = short_occurs(blk, a["short"])
                else:
                    nm = a["valnames"][0] if a["valnames"] else a["id"]
                    ok = ("<%s>" % nm) in blk or ("[%s]" % nm) in blk
                if not ok:
                    return "visible argument %s of %s is not listed in its flattened section" % (a["id"], "/".join(sp))
            elif hidden and not a.get("required"):
                for mk in arg_markers(a):
                    if mk in blk:
                        return "argument %s of %s is hidden for this help mode but %r appears" % (a["id"], "/".join(sp), mk)
            for pv in a["pvs"]:
                if pv.get("hide") and MARKER.match(pv["name"]) and pv["name"] in blk:
                    return "hidden possible value %s of %s appears" % (pv["name"], a["id"])
    return None


def flatten_nontrivial(case, impl):
    m = re.search(r"\(usagetext (x[0-9a-f]*)\)", impl)
    return bool(m) and unhex(m.group(1)).count(b"\n") >= 1


def describe_flatten(cases):
    d = {"cases": len(cases)}
    for k in ("usage", "short", "long", "flag-h", "flag-help", "sub-help"):
        d["which=" + k] = sum(1 for c in cases if "(which %s)" % k in c or "(which (%s" % k in c)
    d["flatten marks per case (mean)"] = round(sum(c.count("(x-flatten-help)") for c in cases) / max(1, len(cases)), 2)
    d["nested flatten (>= 2 marks)"] = sum(1 for c in cases if c.count("(x-flatten-help)") >= 2)
    for k in ("hide", "subcommand_required", "args_conflicts_with_subcommands", "subcommand_negates_reqs", "(short_flag",
              "(long_flag", "(x-order", "global", "(group ", "required", "disable_help_subcommand"):
        d["has " + k] = sum(1 for c in cases if k in c)
    return d


def describe(cases, name):
    d = {"cases": len(cases)}
    for k in ("short", "long", "usage", "flag-h", "flag-help", "sub-help"):
        d["which=" + k] = sum(1 for c in cases if "(which %s)" % k in c or "(which (%s" % k in c)
    for k in ("(action count)", "(x-heading", "(x-order", "(x-next-line)", "(x-hide-short)", "(x-hide-long)", "(x-pv",
              "(x-hide-pv)", "hide", "disable_help_flag", "(sub ", "(short_flag", "(x-long-help", "reqeq", "last",
              "global", "(env ", "(x-hide-env)", "(x-hide-env-values)", "(default ", "(x-hide-default)", "(alias ", " v)", "(salias ",
              "(group ", "(required)", "(requires ", "(requires_if ", "subcommand_negates_reqs", "args_conflicts_with_subcommands",
              "subcommand_required", "allow_external_subcommands", "(x-sub-valname", "(x-template", "(x-next-heading", "(x-sub-heading"):
        d["has " + k] = sum(1 for c in cases if k in c)
    ws = [int(re.search(r"\(width (\d+)\)", c).group(1)) for c in cases if "(width" in c]
    d["widths distinct"] = len(set(ws))
    d["width 0"] = ws.count(0)
    return d


def streams(tier, rng):
    q = tier == "quick"
    rnd = gen_random(tier, rng, 700 if q else 30000)
    wid = gen_widths(tier, rng, 14 if q else 150)
    adv = gen_adversarial(tier, rng, 300 if q else 12000)
    lev = gen_levels(tier, rng, 60 if q else 2000)
    bnd = gen_boundary(tier, rng)
    usf = gen_usage_forms(tier, rng, 400 if q else 8000)
    tpt = gen_template_tags(tier, rng, 300 if q else 6000)
    hdg = gen_headings(tier, rng, 200 if q else 5000)
    out = [
        Stream("help-random", rnd, oracle=oracle, area="help", project=project, nontrivial=nontrivial,
               describe=describe(rnd, "random")),
        Stream("help-widths", wid, oracle=oracle, area="help", project=project, nontrivial=nontrivial,
               describe=describe(wid, "widths")),
        Stream("help-adversarial", adv, oracle=oracle, area="help", project=project, nontrivial=nontrivial,
               describe=describe(adv, "adversarial")),
        Stream("help-levels", lev, oracle=oracle, area="help", project=project, nontrivial=nontrivial,
               describe=describe(lev, "levels")),
        Stream("help-boundary", bnd, oracle=oracle, area="help", project=project, nontrivial=nontrivial,
               describe=describe(bnd, "boundary")),
        Stream("help-usage-forms", usf, oracle=oracle, area="help", project=project, nontrivial=nontrivial,
               describe=describe(usf, "usage-forms")),
        Stream("help-headings", hdg, oracle=oracle, area="help", project=project, nontrivial=nontrivial,
               describe=describe(hdg, "headings")),
        Stream("help-template-tags", tpt, oracle=template_tags_oracle, area="help", project=project, nontrivial=nontrivial,
               describe=describe(tpt, "template-tags")),
        Stream("help-nonascii", gen_nonascii(tier, rng, 300 if q else 6000), oracle=oracle, area=None, nontrivial=nontrivial,
               describe={"what": "possible-value names with multi-byte, wide and combining characters; long, short, --help"}),
        Stream("help-templates", gen_templates(tier, rng, 200 if q else 4000), oracle=template_oracle, area=None,
               nontrivial=nontrivial),
        Stream("help-f32", ["(helpf32 %d %d)" % (t, w) for (t, w) in ([(300, 300)] if q else [(1200, 1200), (70000, 40)])],
               oracle=f32_oracle, area=None, nontrivial=lambda c, r: True),
    ]
    hsp = None
    if not q:
        rnd2 = gen_random(tier, rng, 12000)
        adv2 = gen_adversarial(tier, rng, 6000)
        out += [
            Stream("help-random-release", rnd2, oracle=oracle, area="help", project=project, nontrivial=nontrivial,
                   profile="release", describe=describe(rnd2, "random-release")),
            Stream("help-adversarial-release", adv2, oracle=oracle, area="help", project=project, nontrivial=nontrivial,
                   profile="release", describe=describe(adv2, "adversarial-release")),
        ]
    # generated last: the cases of the streams above do not depend on it
    hsp = gen_help_sub_paths(tier, rng, 600 if q else 12000)
    out.append(Stream("help-subcommand-paths", hsp, oracle=help_sub_oracle, area="parse", project=help_sub_project,
                      nontrivial=help_sub_nontrivial, describe=describe_help_sub(hsp)))
    # round 5, generated after everything else
    flt = gen_flatten(tier, rng, 170 if q else 4000)
    out.append(Stream("help-flatten", flt, oracle=flatten_oracle, area="help", project=project,
                      nontrivial=flatten_nontrivial, describe=describe_flatten(flt)))
    return out


def classify_known(stream, case, impl, failure):
    # C12-usage-hidden-group-member: Usage::write_args prints a listed (required) group through format_group, which joins
    # ALL members -- a hidden optional member appears in the usage line as `<--a|--z>`
    if isinstance(failure, str) and failure.startswith("hidden optional argument ") and "appears in the usage" in failure:
        m = re.match(r"hidden optional argument (\S+) appears", failure)
        if m:
            aid = m.group(1)
            for g in re.finditer(r"\(group \S+ \(args ([^()]*)\)", case):
                members = g.group(1).split()
                if aid in members or ("x" + aid.encode().hex()) in members or aid.strip("b'\"") in members:
                    return "C12-usage-hidden-group-member"
    return None


TECHNIQUE = ("Coq proof (column arithmetic, visibility, section assembly, spec_vals non-interference of the help writer; usage line over the "
             "requirement graph with groups; tag dispatch of custom templates; help-flag and help-subcommand dispatch along subcommand chains with "
             "arguments between the names, on the parser model; flatten_help: Command::build, the flattened usage block and write_flat_subcommands) "
             "+ extracted-model/implementation correspondence")
LEVEL_TEXT = ("Machine-checked theorems (Coq 8.16, closed under the global context) about a model of help_template.rs / "
              "usage.rs that mirrors the Rust functions one by one: every unsigned subtraction and run-time format width in "
              "write_args / align_to_about / help / subcmd succeeds for every command, every width and every display-width "
              "function, the padding is bounded independently of the width, every argument and subcommand that is visible in "
              "the rendered mode is a row of its section, hidden optional arguments / hidden subcommands / hidden possible "
              "values contribute no row and no usage piece, and the help error raised at a level renders that level.  Round 2: "
              "spec_vals is modelled in full (env, defaults, aliases, short aliases, quoted possible values) and compared token by token; "
              "non-interference: two commands that differ only in hidden possible values, invisible aliases, hidden env / env values / "
              "defaults render the same screen in every mode at every width; every row carries exactly spec_vals of its argument and every "
              "visible possible value is listed; the usage line mentions every required positional; global arguments reach every "
              "subcommand level; and on the parser model try_get_matches_from on `bin name_1 .. name_k (--help|-h) ..` (names/aliases of "
              "nested subcommands, class help_chain) returns the DisplayHelp error of the level at the end of the chain.  Round 3: the usage "
              "line follows usage.rs write_args in full -- the unrolled requirement graph (the parser model's required_graph / "
              "unroll_arg_requires / unroll_args_in_group), required groups as <a|b> with members not repeated, the [OPTIONS] rule, the second "
              "line under subcommand_negates_reqs / args_conflicts_with_subcommands, subcommand_value_name -- and never panics for commands "
              "whose references resolve (refs_ok), every piece comes from a requirement, a visible positional or a listed group, a hidden "
              "argument that no rule demands has no piece in either form (incl. the optional hidden last positional), every required argument "
              "is mentioned (own piece, or inside the <a|b> of a listed group it belongs to); custom help templates: write_templated_help is "
              "modelled tag by tag and, for EVERY template text, rendering is total, every row any tag writes comes from a shown argument or "
              "a non-hidden subcommand, and {options} / {positionals} / {subcommands} / {all-args} each list every visible item of their kind; "
              "next_help_heading / subcommand_help_heading decide the section an item is listed in.  Fourth pass: on the parser model "
              "`prog -v sub --opt x subsub (--help|-h) anything..` returns the DisplayHelp error of subsub for C09's wide class of lines "
              "(per level options in six spellings, positional values, multi-values; levels left through names, aliases, inferred prefixes, "
              "long flag-subcommands), given that every level accepts its own arguments; the generated help argument is DERIVED for every "
              "level reached from an unbuilt tree whose help flag is not disabled; `help <path>` (the help subcommand; `help` itself possibly "
              "an inferred prefix) returns the help of the level the path of names / aliases leads to, a word that is no exact name or alias "
              "gives InvalidSubcommand, and parse_help_subcommand's unwrap is shown dead for clap's canonicalising lookup and live for lookups "
              "that hand on the typed alias text; a hidden argument that is neither in the unrolled requirement closure nor a member of a "
              "listed group is MENTIONED by no usage piece (own piece or inside a <a|b>), with a witness for each side of that boundary.  Round 5: "
              "Command::flatten_help is modelled (Command::build with the expanded help tree and _build_bin_names_internal, the flatten branch of "
              "write_help_usage, write_flat_subcommands): without the setting the new writer is the old one; the usage block of a flattened level is "
              "the own line (unless subcommand_required without args_conflicts_with_subcommands) followed by exactly one line per subcommand of the "
              "built clone that is not hidden, in order, each starting with bin name of the level + required arguments of the level + {name|--long|-s}; "
              "under nested flattening the lines are exactly those of the nodes reached through subcommands that are not hidden (sound and complete); "
              "the block is a function of the built clone; the flattened sections are total with bounded padding on the class flat_tree_ok, every "
              "section belongs to a subcommand that is not hidden, every row to an argument shown in the mode and not global, and every such "
              "subcommand / argument has its section / row (distinct names); C12_padding_safe extended to screens with flatten_help.  The "
              "model is tied to clap_builder on every run by rendering generated command trees with the real crate at widths "
              "0..200 (debug and release) and comparing sections, rows, help columns and usage tokens with the extracted model; "
              "an independent python oracle written from the property text checks the rendered text itself.")
LEVEL_NOTE = ("Trusted: Coq kernel, extraction, OCaml driver, Rust harness, generators; core::fmt, BTreeMap, f32 comparison "
              "(swept each run), textwrap (C20) and unicode-width are modelled or abstract; the model's domain excludes flatten_help under a custom template, "
              "usage / help overrides, subcommand aliases in help, the texts of the template tags name / bin / version / author / before- / "
              "after-help, non-ASCII names, Arg::group on the argument side.  Differential / oracle only: byte-exact layout and wrapped text, help "
              "requests on lines outside the class hsplit (levels left through -S / a short cluster, the flag read while a multi-valued positional "
              "collects values, args_conflicts_with_subcommands, ignore_errors; covered by the stream help-subcommand-paths and C09's streams).  "
              "The help-flag theorems no longer assume long_help_at / short_help_at: they are derived from validity for a level "
              "that contains the generated help argument, with the necessary side condition that no subcommand answers to `--help` / `-h`.  Observations (not defect fixes): a default value naming "
              "a hidden possible value is printed in [default: ..]; a hidden member of a listed group is printed in the usage line <a|b> (recorded "
              "finding; C12_usage_hidden_listed_member_mentioned), and a hidden argument that a required argument `requires` is printed on its own "
              "(C12_usage_hidden_required_target_mentioned).  Round 5: the flatten theorems are stated on the built clone (h_build c = Some b is a "
              "hypothesis where the statement needs b; totality of build() itself and the fuel bound tree_fuel are differential: stream help-flatten "
              "compares the usage block byte for byte on trees of depth <= 3); observations: the flattened sections are filtered by the mode of the "
              "SCREEN (`--help` at a level without long help of its own hides a subcommand's hide_short_help argument), a global argument declared at "
              "a flattened subcommand is listed nowhere in the parent's flattened help, and the generated help subcommand appears in one of two "
              "shapes (C11-flatten-help-subcommand-shape).")
