"""C20: text wrapping keeps every word, in order, within the requested width."""
import itertools
import re

from .. import core
from ..core import hexs, unhex, sx_parse, sx_all
from ..runner import Stream

ID = "C20"
AREAS = ["wrap"]
RULE = ("wrap: every text over the atoms {a, bb, ' ', '\\n', '\\t', U+5BBD (wide), U+200B (zero width), U+0301 "
        "(combining), e-acute} up to a length bound x widths 0..9, plus random longer texts (more whitespace kinds, "
        "emoji, NBSP, ideographic space, control characters) x widths up to 100 and usize::MAX; styled: the same with "
        "ESC[1m / ESC[0m / ESC[38;5;1m inserted (plus a few malformed sequences in the random part).  Character "
        "widths and the text/escape segmentation are first asked from the implementation (probe pass: "
        "unicode-width, anstream::strip_str) and embedded in the case so that model and implementation read the "
        "same line.  A case is non-trivial when the output contains a line break the input does not have (a break "
        "was actually inserted); distinct = distinct case text.")
TRUSTED = [
    "Coq 8.16.1 kernel (coqc); no native_compute; theorems C20_* are 'Closed under the global context'",
    "extraction: ExtrOcamlBasic only, no Extract Constant; OCaml driver ocaml/wrap_driver.ml + zarith conversions; "
    "UTF-8 decoding/encoding on the model side are the extracted Utf8.decode / WrapModel.encode",
    "correspondence: vp/props/c20.py generators, harness/src/modes/wrap.rs (hooks clap_builder::__verif::{wrap, "
    "display_width, find_words, styled_wrap, styled_display_width, styled_text_segments}), string comparison of "
    "canonical results",
    "oracles, not verified: unicode-width (per-character widths, taken from the implementation per case), "
    "anstream::adapter::strip_str (text/escape segmentation, taken from the implementation per case), "
    "char::is_whitespace / char::len_utf8 (transcribed as is_ws / utf8_len_std)",
]
ASSUMPTIONS = [
    "64-bit usize; line_width + word_width does not overflow (it is bounded by a small multiple of the byte length "
    "of the text); hard_width is any usize",
    "C20_width is stated for plain text = no ASCII control character other than the line terminator '\\n' "
    "(display_width treats ANY control character, e.g. a tab, as the start of an escape sequence running to the "
    "next 'm': lemma width_tab_refuted) and assumes ch_width c <= utf8_len c for whitespace characters (checked "
    "against unicode-width for every whitespace character on each run)",
    "'space' is formalised as char::is_whitespace minus '\\n' (the code trims with str::trim_end); the U+0020-only "
    "reading holds on texts whose only whitespace is U+0020 and '\\n' (C20_strict_on_plain) and fails in general "
    "('a\\t b' at width 1 drops the tab: strict_reading_refuted)",
    "styled text: the indent re-emitted after an inserted break is the wrapper's carry-over; since /repo 63452b4 "
    "StyledStr::wrap resets the wrapper after every line that ended with a newline, also across text segments "
    "(the model follows the repaired code; C20_styled_stale_carryover keeps the pre-repair function as a witness); "
    "a segment that continues a line keeps the carry-over, so C20_styled allows any whitespace-only indent",
]
TECHNIQUE = ("Coq proof (faithful look-behind model of LineWrapper::wrap shown equal to a look-ahead formulation; "
             "inductive rewrite relation Wrapped; width invariant) + extracted-model/implementation correspondence")
LEVEL_TEXT = ("Machine-checked theorems (Coq 8.16, closed under the global context) about an executable model of "
              "clap_builder's textwrap (find_words_ascii_space, display_width, LineWrapper::wrap, wrap, "
              "StyledStr::wrap): for every text and every width the output is obtained from the input only by "
              "replacing non-empty runs of non-newline whitespace by a line break plus the line's carry-over indent "
              "(hence the non-whitespace characters and the original line breaks are preserved in order); for plain "
              "text every output line is within the width or has no breakable space after its indent; escape "
              "segments of styled text are copied verbatim and ESC[..m sequences have zero display width.  The "
              "model is tied to the real crate on every check by running the extracted model and the real functions "
              "on the same generated cases (exhaustive for short texts and small widths, random beyond), and an "
              "independent python oracle written from the property text is applied to the implementation's output.")
LEVEL_NOTE = ("Trusted: Coq kernel, extraction (ExtrOcamlBasic), OCaml driver, Rust harness, generators; unicode-width "
              "and anstream::strip_str are oracles whose answers are read from the implementation per case; usize "
              "overflow of line_width is assumed away; width theorem restricted to text without control characters.")

USIZE_MAX = 2**64 - 1
# Rust char::is_whitespace
WS = {chr(c) for c in list(range(9, 14)) + [0x20, 0x85, 0xA0, 0x1680] + list(range(0x2000, 0x200B))
      + [0x2028, 0x2029, 0x202F, 0x205F, 0x3000]}
WS_NONL = WS - {"\n"}
WS_STR = "".join(sorted(WS))
SGR = re.compile("\x1b\\[[0-9;]*m")

ATOMS = ["a", "bb", " ", "\n", "\t", "\u5bbd", "\u200b", "\u0301", "\u00e9"]
ESCS = ["\x1b[1m", "\x1b[0m", "\x1b[38;5;1m"]
STYLED_ATOMS = ["a", "bb", " ", "\n", "\u5bbd", "\u0301"] + ESCS
RANDOM_WORDS = ["a", "bb", "ccc", "dddd", "x", "m", "-", "\u5bbd\u5bbd", "\u00e9", "e\u0301", "\u200b", "w\u00f6rd",
                "\U0001f920", "\u00a0", "\u3000", "\u2003", "\t", "\x07", "\u0085", "a\u00a0b", "\u200d", "to", "be,"]
RANDOM_SEPS = [" ", " ", " ", "  ", "   ", "\n", " \n", "\n ", "\n  ", "\n\n", ""]
FIXED = ["foo bar baz", " foobar baz", "a\t b", "  foo bar", "foo     bar     baz  ", "x \u2013 x",
         "aaabbbccc x yyyzzzwww", "To be, or not to be, that is the question."]
MALFORMED = ["\x1b", "\x1b[", "\x1b[1", "\x1b]0;t\x07", "\x1bm"]
ALL_CHARS = sorted(set("".join(ATOMS + ESCS + RANDOM_WORDS + RANDOM_SEPS + FIXED + MALFORMED)) | WS)


def is_control(c):
    return ord(c) < 32 or ord(c) == 127


# ----------------------------------------------------------------- probe pass (implementation as oracle
# for unicode-width and for the segmentation of styled strings)
_WIDTHS = None


def _harness():
    ok, hbin, out = core.build_harness("debug")
    if not ok:
        raise RuntimeError("harness does not build: " + out[-500:])
    return hbin


def widths():
    """code point -> width the implementation assigns (unicode-width via display_width of the 1-char string)"""
    global _WIDTHS
    if _WIDTHS is None:
        r = core.run_cases(_harness(), ["(probe %s)" % hexs("".join(ALL_CHARS))], "C20.probe.widths", shards=1)[0]
        v = sx_all(r)
        _WIDTHS = {chr(int(p[0])): int(p[1]) for p in v[0][1:]}
        missing = [c for c in ALL_CHARS if c not in _WIDTHS]
        if missing:
            raise RuntimeError("probe returned no width for %r: %s" % (missing, r[:300]))
    return _WIDTHS


def width_table(s):
    w = widths()
    seen = []
    for c in s:
        if c not in seen and w[c] != 1:
            seen.append(c)
    return "(widths%s)" % "".join(" (%d %d)" % (ord(c), w[c]) for c in seen)


def probe_segments(texts):
    """for each styled text the byte ranges of the text segments StyledStr::iter_text yields"""
    res = core.run_cases(_harness(), ["(probe %s)" % hexs(t) for t in texts], "C20.probe.segments")
    out = []
    for t, r in zip(texts, res):
        try:
            seg = [x for x in sx_all(r) if isinstance(x, list) and x and x[0] == "segments"][0]
        except Exception:
            raise RuntimeError("probe failed on %r: %r" % (t, r))
        out.append(core.sx_str(seg))
    return out


# ----------------------------------------------------------------- the property, in python
def nonws(s):
    return [c for c in s if c not in WS]


def split_inclusive(s):
    out, cur = [], []
    for c in s:
        cur.append(c)
        if c == "\n":
            out.append("".join(cur))
            cur = []
    if cur:
        out.append("".join(cur))
    return out


def indents_by_pos(s):
    """list, indexed by position in s, of the admissible indents of the line that position is in"""
    res = []
    for line in split_inclusive(s):
        k = 0
        while k < len(line) and line[k] in WS_NONL:
            k += 1
        lead = line[:k]
        if all(c == " " for c in lead):
            cands = [lead]
        else:
            cands = [lead[:i] for i in range(len(lead) + 1)]
        res.extend([cands] * len(line))
    return res


def wrapped(s, o, styled):
    """Is o obtained from s by keeping characters and replacing non-empty runs of non-newline whitespace by
    '\\n' + indent?  plain: indent = the line's leading indent, all of s and o consumed.  styled (visible text):
    indent = any non-newline whitespace, and a final trim_end: o is matched entirely and the rest of s must be
    whitespace."""
    n, m = len(s), len(o)
    inds = None if styled else indents_by_pos(s)
    seen = set()
    stack = [(0, 0)]
    while stack:
        i, j = stack.pop()
        if (i, j) in seen:
            continue
        seen.add((i, j))
        if j == m:
            if i == n or (styled and all(c in WS for c in s[i:])):
                return True
            continue
        if i < n and s[i] == o[j]:
            stack.append((i + 1, j + 1))
        if o[j] == "\n" and i < n and s[i] in WS_NONL:
            ends = []
            if styled:
                e = j + 1
                ends.append(e)
                while e < m and o[e] in WS_NONL:
                    e += 1
                    ends.append(e)
            else:
                for ind in inds[i]:
                    if o.startswith(ind, j + 1):
                        ends.append(j + 1 + len(ind))
            if ends:
                k = i
                while k < n and s[k] in WS_NONL:
                    k += 1
                    for e in ends:
                        stack.append((k, e))
    return False


def text_width(s):
    w = widths()
    return sum(w[c] for c in s)


def parse_result(impl):
    v = sx_all(impl)
    return {x[0]: x[1:] for x in v if isinstance(x, list) and x}


def well_formed(case, nargs):
    """(mode x<utf8> WIDTH ...) with the right arity; anything else (e.g. a shrinking candidate that cut a
    character in two) is not an input of the property"""
    try:
        v = sx_parse(case)
        if not isinstance(v, list) or len(v) != nargs + 1 or not 0 <= int(v[2]) <= USIZE_MAX:
            return None
        return v, unhex(v[1]).decode("utf-8"), int(v[2])
    except Exception:
        return None


def wrap_oracle(case, impl):
    wf = well_formed(case, 3)
    if wf is None:
        return None
    v, s, W = wf
    if impl is None or impl.startswith(("PANIC", "ABORT", "harness-error", "unknown-mode", "badcase")):
        return "wrap did not return: %s" % impl
    r = parse_result(impl)
    o = unhex(r["out"][0]).decode("utf-8")
    if nonws(o) != nonws(s):
        return "the sequence of non-whitespace characters changed: %r -> %r (width %d)" % (s, o, W)
    if not wrapped(s, o, False):
        return ("output is not the input with runs of inter-word whitespace replaced by line break + the line's "
                "indent: %r -> %r (width %d)" % (s, o, W))
    plain = not any(is_control(c) and c != "\n" for c in s)
    if plain:
        for line in o.split("\n"):
            t = line.rstrip(WS_STR)
            if text_width(t) > W and " " in t.lstrip(WS_STR):
                return ("line %r of the output is %d columns wide (> %d) and holds more than one word: %r -> %r"
                        % (line, text_width(t), W, s, o))
    if not any(is_control(c) for c in s):
        if int(r["dw"][0]) != text_width(s):
            return "display_width(%r) = %s, sum of character widths is %d" % (s, r["dw"][0], text_width(s))
    return None


def wrap_nontrivial(case, impl):
    if well_formed(case, 3) is None or not impl.startswith("(out"):
        return False
    v = sx_parse(case)
    r = parse_result(impl)
    return unhex(r["out"][0]).count(b"\n") > unhex(v[1]).count(b"\n")


def styled_oracle(case, impl):
    wf = well_formed(case, 4)
    if wf is None:
        return None
    v, s, W = wf
    if impl is None or impl.startswith(("PANIC", "ABORT", "harness-error", "unknown-mode", "badcase")):
        return "styled wrap did not return: %s" % impl
    r = parse_result(impl)
    o = unhex(r["out"][0]).decode("utf-8")
    if "\x1b" in SGR.sub("", s):
        return None        # malformed sequences: correspondence only, the property speaks of ANSI sequences
    if SGR.findall(o) != SGR.findall(s):
        return "escape sequences not kept intact and in order: %r -> %r (width %d)" % (s, o, W)
    vs, vo = SGR.sub("", s), SGR.sub("", o)
    if nonws(vo) != nonws(vs):
        return "the visible non-whitespace characters changed: %r -> %r (width %d)" % (s, o, W)
    if not wrapped(vs, vo, True):
        return ("visible text is not the input's with runs of inter-word whitespace replaced by ONE line break + "
                "whitespace indent (up to the final trim_end): %r -> %r (width %d)" % (s, o, W))
    if "\x1b" not in s and not any(is_control(c) and c != "\n" for c in s):
        # a styled string without any escape sequence is plain text: the width bound of the property applies
        for line in o.split("\n"):
            t = line.rstrip(WS_STR)
            if text_width(t) > W and " " in t.lstrip(WS_STR):
                return ("line %r of the output is %d columns wide (> %d) and holds more than one word: %r -> %r"
                        % (line, text_width(t), W, s, o))
    if not any(is_control(c) for c in vs):
        if int(r["sdw"][0]) != text_width(vs):
            return ("display width of styled %r is %s, its visible characters sum to %d (escape sequences must "
                    "count as zero)" % (s, r["sdw"][0], text_width(vs)))
    return None


def styled_nontrivial(case, impl):
    if well_formed(case, 4) is None or not impl.startswith("(out"):
        return False
    v = sx_parse(case)
    r = parse_result(impl)
    return "\x1b" in unhex(v[1]).decode("utf-8") and unhex(r["out"][0]).count(b"\n") > unhex(v[1]).count(b"\n")


# ----------------------------------------------------------------- generators
def random_text(rng, styled):
    n = rng.choice([3, 5, 8, 12, 20, 35, 60])
    parts = []
    if rng.random() < 0.3:
        parts.append(rng.choice([" ", "  ", "    ", "\t", " \t", "\u3000", "\u00a0 "]))
    for _ in range(n):
        if styled and rng.random() < 0.2:
            parts.append(rng.choice(ESCS))
        parts.append(rng.choice(RANDOM_WORDS[:12]) if rng.random() < 0.8 else rng.choice(RANDOM_WORDS))
        if styled and rng.random() < 0.15:
            parts.append(rng.choice(ESCS))
        parts.append(rng.choice(RANDOM_SEPS))
    if styled and rng.random() < 0.05:
        parts.insert(rng.randrange(len(parts) + 1), rng.choice(MALFORMED))
    return "".join(parts)


def random_width(rng, s):
    tw = len(s)
    return rng.choice([0, 1, 2, 3, 5, 8, 10, 20, 40, 80, 100, USIZE_MAX, USIZE_MAX - 1,
                       rng.randrange(0, 101), rng.randrange(0, 101), max(tw - 1, 0), tw, tw + 1])


def gen_texts(tier, rng, atoms, full_len, sample_lens, sample_n, max_w, sample_widths):
    """(text, width) pairs: exhaustive up to full_len atoms x widths 0..max_w, sampled beyond"""
    out = []
    for L in range(full_len + 1):
        for t in itertools.product(atoms, repeat=L):
            s = "".join(t)
            for w in range(max_w + 1):
                out.append((s, w))
    for L in sample_lens:
        for _ in range(sample_n):
            s = "".join(rng.choice(atoms) for _ in range(L))
            for w in rng.sample(range(max_w + 1), sample_widths):
                out.append((s, w))
    return out


def gen_wrap(tier, rng):
    if tier == "quick":
        pairs = gen_texts(tier, rng, ATOMS, 4, [5], 6000, 9, 3)
        nrand = 4000
    else:
        pairs = gen_texts(tier, rng, ATOMS, 5, [6, 7], 40000, 9, 3)
        nrand = 60000
    for s in FIXED:
        for w in [0, 1, 5, 6, 9, 10, USIZE_MAX]:
            pairs.append((s, w))
    for _ in range(nrand):
        s = random_text(rng, False)
        pairs.append((s, random_width(rng, s)))
    return ["(wrap %s %d %s)" % (hexs(s), w, width_table(s)) for s, w in pairs]


def gen_styled(tier, rng):
    if tier == "quick":
        pairs = gen_texts(tier, rng, STYLED_ATOMS, 4, [5, 6], 3000, 5, 2)
        nrand = 3000
    else:
        pairs = gen_texts(tier, rng, STYLED_ATOMS, 5, [6, 7], 30000, 6, 3)
        nrand = 40000
    for _ in range(nrand):
        s = random_text(rng, True)
        pairs.append((s, random_width(rng, s)))
    # plain multi-line texts through StyledStr::wrap (about / help texts are usually just that): a short first
    # line followed by longer ones, widths around the length of the first line
    for _ in range(nrand // 4):
        first = " ".join(rng.choice(RANDOM_WORDS[:12]) for _ in range(rng.choice([1, 2, 3])))
        rest = "\n".join(" ".join(rng.choice(RANDOM_WORDS[:12]) for _ in range(rng.choice([4, 8, 14])))
                         for _ in range(rng.choice([1, 2])))
        t = first + "\n" + rest
        pairs.append((t, rng.choice([len(first), len(first) + 1, len(first) + 5, 15, 40, max(len(first) - 1, 0)])))
    texts = sorted({s for s, _ in pairs})
    segs = dict(zip(texts, probe_segments(texts)))
    return ["(styled %s %d %s %s)" % (hexs(s), w, width_table(s), segs[s]) for s, w in pairs]


def check_width_oracle_assumption():
    """hypothesis of C20_width: a whitespace character is never wider than its UTF-8 encoding is long"""
    w = widths()
    bad = [c for c in WS if w[c] > len(c.encode("utf-8"))]
    if bad:
        raise RuntimeError("unicode-width gives whitespace %r a width above its byte length" % bad)


def gen_wrap_release(rng):
    """release build (no overflow checks): random texts, widths concentrated on the usize boundary"""
    out = []
    for _ in range(20000):
        s = random_text(rng, False)
        w = rng.choice([USIZE_MAX, USIZE_MAX - 1, USIZE_MAX - len(s), 2**63, 2**32, 0, 1, random_width(rng, s)])
        out.append("(wrap %s %d %s)" % (hexs(s), w, width_table(s)))
    return out


def streams(tier, rng):
    check_width_oracle_assumption()
    sts = [
        Stream("wrap", gen_wrap(tier, rng), oracle=wrap_oracle, area="wrap", nontrivial=wrap_nontrivial),
        Stream("styled", gen_styled(tier, rng), oracle=styled_oracle, area="wrap", nontrivial=styled_nontrivial),
    ]
    if tier == "thorough":
        sts.append(Stream("wrap_release", gen_wrap_release(rng), oracle=wrap_oracle, area="wrap",
                          nontrivial=wrap_nontrivial, profile="release"))
    return sts


def stale_newline_carryover(case):
    """family C20-styled-stale-newline-carryover: a text segment of the styled string ends with a blank line
    (its last split_inclusive line is whitespace-only and ends with a newline) and is followed by another text
    segment.  StyledStr::wrap does not reset the LineWrapper between segments, so the carry-over "indent"
    re-emitted after every inserted break is that blank line: each break becomes two (or more) line breaks."""
    wf = well_formed(case, 4)
    if wf is None:
        return False
    v, s, W = wf
    b = s.encode("utf-8")
    segs = [x for x in v[4][1:]] if isinstance(v[4], list) else []
    try:
        texts = [b[int(x[0]):int(x[1])].decode("utf-8") for x in segs]
    except Exception:
        return False
    for t in texts[:-1]:
        ls = split_inclusive(t)
        if ls and ls[-1].endswith("\n") and all(c in WS for c in ls[-1]):
            return True
    return False


def classify_known(stream, case, impl, failure):
    """Only effective when known_findings.json lists the family (it does not by default)."""
    if stream == "styled" and failure != "diff" and "ONE line break" in failure and stale_newline_carryover(case):
        return "C20-styled-stale-newline-carryover"
    return None
