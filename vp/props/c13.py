"""C13: lexing any OS string is a lossless, consistent decomposition (clap_lex ParsedArg / ShortFlags)."""
import itertools
import re

from ..core import hexs, unhex, sx_parse, sx_all
from ..runner import Stream

ID = "C13"
AREAS = ["lex"]
RULE = ("lex: every byte string over the boundary alphabet {-,=,1,.,e,a,C3,A9,E2,82,AC,F0,9F,80,FF} up to a "
        "length bound (quick: all <=3, sample of length 4; thorough: all <=5, sample of 6), the same strings behind "
        "'-' and '--', every string over {1,.,e,E,-} behind '-' (number shapes), and random strings up to 40 bytes "
        "built from well-formed and broken UTF-8 pieces; short: the ShortFlags of '-'+remainder driven by canonical "
        "(k x next_flag then next_value_os ...) and random interleavings of next_flag/next_value_os/advance_by/"
        "is_empty/is_negative_number/clone-and-drain, advance counts around the cluster length and usize::MAX.  "
        "A lex case is non-trivial when the argument is a long or short form (starts with '-', length >= 2) or is "
        "not UTF-8; a short case when the argument really has a ShortFlags; distinct = distinct case text.")
TRUSTED = [
    "Coq 8.16.1 kernel (coqc); no native_compute; theorems C13_* are 'Closed under the global context'",
    "extraction: ExtrOcamlBasic only, no Extract Constant; OCaml driver ocaml/lex_driver.ml + zarith conversions",
    "correspondence: vp/props/c13.py generators, harness/src/modes/lex.rs (lex, short), string comparison of canonical results",
    "modelled not verified: std::str::from_utf8 / Utf8Error::valid_up_to / CharIndices (Base/Utf8.v after Unicode "
    "Table 3-7), slice::split_at, OsStr::from_encoded_bytes_unchecked (identity on bytes)",
    "python's own UTF-8 decoder (bytes.decode) and `re` as the independent oracle",
]
ASSUMPTIONS = [
    "OsStr = arbitrary bytes (Unix); 64-bit usize",
    "Rust's from_utf8 accepts exactly the well-formed sequences of Unicode Table 3-7 and valid_up_to is the length "
    "of the longest well-formed prefix (checked on every run by the differential stream, not proved about std)",
]

ALPHA = [0x2D, 0x3D, 0x31, 0x2E, 0x65, 0x61, 0xC3, 0xA9, 0xE2, 0x82, 0xAC, 0xF0, 0x9F, 0x80, 0xFF]
USIZE_MAX = 2**64 - 1

# digits; at most one '.', not first, before any exponent; at most one e/E, not first, not last
NUM = re.compile(rb"(?:[0-9]*|[0-9]+\.[0-9]*|(?:[0-9]+|[0-9]+\.[0-9]*)[eE][0-9]+)")


def is_utf8(b):
    try:
        b.decode("utf-8")
        return True
    except UnicodeDecodeError:
        return False


def py_walk(b):
    """(characters of the longest well-formed prefix, the tail after it) by python's decoder."""
    try:
        return list(b.decode("utf-8")), b""
    except UnicodeDecodeError as e:
        return list(b[:e.start].decode("utf-8")), b[e.start:]


def looks_number(b):
    return is_utf8(b) and NUM.fullmatch(b) is not None


def fmt_flag_ok(ch):
    return "(ok %d)" % ord(ch)


def b2s(x):
    return "true" if x else "false"


# ----------------------------------------------------------------- lex
def lex_oracle(case, impl):
    v = sx_parse(case)
    s = unhex(v[1])
    if impl is None or impl.startswith("PANIC") or impl.startswith("ABORT") or "panic" in impl:
        return "lexing %r panics: %s" % (s, impl)
    d = {}
    for e in sx_all(impl):
        d[e[0]] = e[1:]
    need = ["is_empty", "is_stdio", "is_escape", "is_neg", "is_long", "is_short", "to_value", "to_long", "to_short"]
    for k in need:
        if k not in d:
            return "malformed result (no %s): %s" % (k, impl)
    fl = {k: d[k][0] == "true" for k in need[:6]}
    # -- classification, from the property text
    exp = {
        "is_empty": s == b"",
        "is_stdio": s == b"-",
        "is_escape": s == b"--",
        "is_long": s.startswith(b"--") and len(s) > 2,
        "is_short": s.startswith(b"-") and not s.startswith(b"--") and len(s) > 1,
    }
    for k, e in exp.items():
        if fl[k] != e:
            return "%s is %s for %r, expected %s" % (k, fl[k], s, e)
    classes = [fl["is_empty"], fl["is_stdio"], fl["is_escape"], fl["is_long"], fl["is_short"],
               (s != b"" and not s.startswith(b"-"))]
    if sum(1 for c in classes if c) != 1:
        return "classes are not mutually exclusive and exhaustive for %r: %s" % (s, classes)
    # -- to_value
    tv = d["to_value"][0]
    if unhex(tv[1]) != s or (tv[0] == "ok") != is_utf8(s):
        return "to_value wrong for %r: %s" % (s, tv)
    # -- long decomposition re-assembles
    tl = d["to_long"][0]
    if (tl != "none") != fl["is_long"]:
        return "is_long and to_long disagree on %r" % (s,)
    if tl != "none":
        kind, f = tl[1][0], unhex(tl[1][1])
        val = None if tl[2] == "none" else unhex(tl[2][1])
        re_s = b"--" + f + (b"" if val is None else b"=" + val)
        if re_s != s:
            return "to_long does not re-assemble: %r from %r" % (re_s, s)
        if b"=" in f:
            return "long flag name %r contains '='" % (f,)
        if (kind == "ok") != is_utf8(f):
            return "long flag name %r reported as %s" % (f, kind)
        if f == b"" and val is None:
            return "empty long flag without value for %r" % (s,)
    # -- short cluster
    ts = d["to_short"][0]
    if (ts != "none") != fl["is_short"]:
        return "is_short and to_short disagree on %r" % (s,)
    if ts != "none":
        rem = s[1:]
        value, walk = ts[1], ts[2]
        if value[1] == "none" or unhex(value[1][1]) != rem:
            return "next_value_os on a fresh cluster is not the whole remainder %r: %s" % (rem, value)
        chars, tail = py_walk(rem)
        expw = [["ok", str(ord(c))] for c in chars] + ([["err", hexs(tail)]] if tail else [])
        if walk[1:] != expw:
            return "walk of %r is %s, expected %s" % (rem, walk[1:], expw)
    # -- negative number
    en = s.startswith(b"-") and looks_number(s[1:])
    if fl["is_neg"] != en:
        return "is_negative_number is %s for %r, expected %s" % (fl["is_neg"], s, en)
    if fl["is_neg"] and not (fl["is_short"] or fl["is_stdio"]):
        return "negative number %r is neither short nor stdio" % (s,)
    return None


def lex_nontrivial(case, impl):
    s = unhex(sx_parse(case)[1])
    return (s.startswith(b"-") and len(s) >= 2) or not is_utf8(s)


PIECES = [b"a", b"b", b"1", b"0", b"9", b".", b"e", b"E", b"=", b"-", "é".encode(), "€".encode(),
          "\U0001F600".encode(), b"\xef\xbf\xbf", b"\xf4\x8f\xbf\xbf", b"\xc2\x80", b"\xe0\xa0\x80",
          b"\xf0\x90\x80\x80", b"\xed\x9f\xbf", b"\xee\x80\x80"]
BROKEN = [b"\xc3", b"\xe2\x82", b"\xf0\x9f\x80", b"\xff", b"\xed\xa0\x80", b"\xc0\x80", b"\xf4\x90\x80\x80",
          b"\x80", b"\xe0\x9f\xbf", b"\xf0\x8f\xbf\xbf", b"\xc1\xbf", b"\xf5\x80\x80\x80", b"\xe2", b"\xf0\x9f"]


def rand_bytes(rng, maxlen=40):
    n = rng.choice([0, 1, 2, 3, 4, 6, 9, 14, 22, 40])
    out = b""
    while len(out) < n:
        r = rng.random()
        if r < 0.75:
            out += rng.choice(PIECES)
        elif r < 0.93:
            out += rng.choice(BROKEN)
        else:
            out += bytes([rng.randrange(256)])
    return out[:maxlen]


def gen_lex(tier, rng):
    quick = tier == "quick"
    full = 3 if quick else 5
    seen = set()
    out = []

    def add(b):
        if b not in seen:
            seen.add(b)
            out.append("(lex %s)" % hexs(b))
    for L in range(full + 1):
        for t in itertools.product(ALPHA, repeat=L):
            add(bytes(t))
    # one length beyond: sampled, bare and behind '-' / '--'
    L = full + 1
    nbare, npre = (15000, 7000) if quick else (250000, 150000)
    for _ in range(nbare):
        add(bytes(rng.choice(ALPHA) for _ in range(L)))
    for pre in (b"-", b"--"):
        for _ in range(npre):
            add(pre + bytes(rng.choice(ALPHA) for _ in range(L)))
    # number shapes behind '-'
    nl = 5 if quick else 7
    for k in range(nl + 1):
        for t in itertools.product(b"1.eE-", repeat=k):
            add(b"-" + bytes(t))
    for _ in range(2000 if quick else 100000):
        b = rand_bytes(rng)
        r = rng.random()
        add((b"-" if r < 0.4 else b"--" if r < 0.7 else b"") + b)
    return out


# ----------------------------------------------------------------- short
def py_short(rem, ops):
    """The property's reading: the characters of the well-formed prefix in order, then the tail once;
    next_value_os = everything unread."""
    if rem == b"" or rem.startswith(b"-"):
        return "noshort", []
    chars, tail = py_walk(rem)
    pos = 0
    pending = tail != b""
    outs = ["short"]
    acct = []          # bytes consumed by each op, for the accounting check

    def unread():
        return "".join(chars[pos:]).encode("utf-8") + (tail if pending else b"")

    for op in ops:
        k = op[0]
        if k == "next_flag":
            if pos < len(chars):
                outs.append(fmt_flag_ok(chars[pos]))
                acct.append(chars[pos].encode("utf-8"))
                pos += 1
            elif pending:
                outs.append("(err %s)" % hexs(tail))
                acct.append(tail)
                pending = False
            else:
                outs.append("none")
                acct.append(b"")
        elif k == "next_value":
            u = unread()
            outs.append("(some %s)" % hexs(u) if u else "none")
            acct.append(u)
            pos, pending = len(chars), False
        elif k == "advance":
            n = int(op[1])
            res = "ok"
            eaten = b""
            i = 0
            while i < n:
                if pos < len(chars):
                    eaten += chars[pos].encode("utf-8")
                    pos += 1
                elif pending:
                    eaten += tail
                    pending = False
                    res = "(err %d)" % i
                    break
                else:
                    res = "(err %d)" % i
                    break
                i += 1
            outs.append(res)
            acct.append(eaten)
        elif k == "is_empty":
            outs.append(b2s(unread() == b""))
            acct.append(b"")
        elif k == "is_neg":
            outs.append(b2s(looks_number(unread())))
            acct.append(b"")
        elif k == "clone-and-drain":
            items = [fmt_flag_ok(c) for c in chars[pos:]] + (["(err %s)" % hexs(tail)] if pending else [])
            outs.append("(drain%s)" % ("".join(" " + x for x in items)))
            acct.append(b"")
    return " ".join(outs), acct


def short_oracle(case, impl):
    v = sx_parse(case)
    rem, ops = unhex(v[1]), v[2]
    if impl is None or impl.startswith("PANIC") or impl.startswith("ABORT") or "panic" in impl:
        return "ShortFlags on %r panics: %s" % (rem, impl)
    exp, acct = py_short(rem, ops)
    if impl != exp:
        return "ShortFlags history on %r differs from chars-of-prefix-then-tail: expected [%s] got [%s]" % (rem, exp, impl)
    # unread-bytes accounting directly on what the implementation returned
    got = sx_all(impl)[1:]
    consumed = b""
    for op, o, a in zip(ops, got, acct):
        piece = None
        if op[0] == "next_flag" and isinstance(o, list):
            piece = chr(int(o[1])).encode("utf-8") if o[0] == "ok" else unhex(o[1])
        elif op[0] == "next_value" and isinstance(o, list):
            piece = unhex(o[1])
            if consumed + piece != rem:
                return "next_value_os did not return exactly the unread bytes of %r" % (rem,)
        elif op[0] == "advance":
            piece = a
        if piece is not None:
            if not rem.startswith(consumed + piece):
                return "consumed bytes are not a prefix of the cluster %r" % (rem,)
            consumed += piece
    return None


def short_nontrivial(case, impl):
    return impl.startswith("short")


def rand_ops(rng, nchars):
    ops = []
    for _ in range(rng.choice([1, 2, 3, 4, 6, 9, 12])):
        r = rng.random()
        if r < 0.40:
            ops.append("(next_flag)")
        elif r < 0.52:
            ops.append("(next_value)")
        elif r < 0.67:
            n = rng.choice([0, 1, 1, 2, 3, max(nchars - 1, 0), nchars, nchars + 1, USIZE_MAX, 2**63, rng.randrange(0, 6)])
            ops.append("(advance %d)" % n)
        elif r < 0.79:
            ops.append("(is_empty)")
        elif r < 0.90:
            ops.append("(is_neg)")
        else:
            ops.append("(clone-and-drain)")
    return ops


def gen_short(tier, rng):
    quick = tier == "quick"
    full = 3 if quick else 4
    out = []

    def add(rem, ops):
        out.append("(short %s (%s))" % (hexs(rem), " ".join(ops)))
    for L in range(full + 1):
        for t in itertools.product(ALPHA, repeat=L):
            rem = bytes(t)
            add(rem, ["(is_empty)", "(is_neg)", "(clone-and-drain)"] + ["(next_flag)"] * (L + 2) + ["(is_empty)", "(next_value)"])
            for k in range(L + 2):
                if L == full and rng.random() < 0.5:
                    continue
                add(rem, ["(next_flag)"] * k + ["(next_value)", "(is_empty)", "(next_flag)", "(next_value)", "(clone-and-drain)"])
            for _ in range(1 if quick else 2):
                add(rem, rand_ops(rng, L))
    for k in range(5 if quick else 7):
        for t in itertools.product(b"1.eE", repeat=k):
            rem = bytes(t)
            add(rem, ["(is_neg)", "(next_flag)", "(is_neg)", "(advance 1)", "(is_neg)", "(next_value)", "(is_neg)"])
    for _ in range(6000 if quick else 150000):
        rem = rand_bytes(rng)
        if rem[:1] == b"-" and rng.random() < 0.9:
            rem = b"x" + rem
        add(rem, rand_ops(rng, len(py_walk(rem)[0])))
    return out


def streams(tier, rng):
    return [
        Stream("lex", gen_lex(tier, rng), oracle=lex_oracle, area="lex", nontrivial=lex_nontrivial),
        Stream("short", gen_short(tier, rng), oracle=short_oracle, area="lex", nontrivial=short_nontrivial),
    ]


def classify_known(stream, case, impl, failure):
    return None


TECHNIQUE = ("Coq proof (ParsedArg classifiers/decompositions, ShortFlags struct model refined to 'unread bytes', "
             "UTF-8 boundary lemmas) + extracted-model/implementation correspondence")
LEVEL_TEXT = ("Machine-checked theorems (Coq 8.16, closed under the global context), for every byte string without "
              "length bound: the ParsedArg classifiers are mutually exclusive and exhaustive and agree with "
              "to_long/to_short; to_long re-assembles to the original bytes with an '='-free name; is_number is "
              "exactly the declarative number language and a negative number is a short cluster or '-'; the model "
              "of the ShortFlags struct (CharIndices offset, remaining prefix, invalid suffix) yields the code "
              "points of the longest well-formed prefix in order, then the tail once, then None; next_value_os "
              "returns exactly the unread bytes; every interleaving of next_flag/next_value_os/advance_by/is_empty/"
              "is_negative_number/clone equals the 'unread bytes' machine and keeps consumed ++ unread = input; "
              "every index passed to the unsafe split_at is in range and preceded by well-formed UTF-8; none of the "
              "modelled panic sites (debug_asserts, unwrap, split_at bounds, len-1) is reachable.  The model is tied "
              "to clap_lex by running the extracted model and the real crate on the same generated cases on every "
              "check, and an independent python oracle (bytes.decode, re) is applied to the implementation's output.")
LEVEL_NOTE = ("Trusted: Coq kernel, extraction (ExtrOcamlBasic), OCaml driver, Rust harness, generators; "
              "std::str::from_utf8/CharIndices/slice::split_at are modelled (Base/Utf8.v after Unicode Table 3-7), "
              "their agreement with the real std is tested by the differential run, not proved.  Documented oddity, "
              "not a violation: '-' is stdio and is_negative_number (is_number \"\" = true).")
