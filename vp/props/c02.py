"""C02: every argv token is attributed exactly once, per the documented grammar."""
import collections
import hashlib

from .. import gen_cmd
from ..core import hexs, unhex, sx_parse
from ..parse_streams import gen_cases, decode_case, parse_result, levels
from ..runner import Stream

ID = "C02"
AREAS = ["parse"]
RULE = ("unparse: conventional command trees (own generator: options with short/long/aliases, actions Set/Append/"
        "Count/SetTrue/SetFalse, value counts 1 | 2..2 | 1..3 | 0..1+default_missing | 1..inf, delimiters, single and "
        "trailing multi-valued positionals, subcommands by name or alias to depth 2, args_override_self) x random "
        "*invocations* (which argument occurs how often with which values) rendered with a random spelling per "
        "occurrence (--n=v, --n v.., -ov, -o=v, -o v.., clusters -abc[ovalue]); the expected matches (raw occurrence "
        "groups split only at the declared delimiter, indices by the documented rule, subcommand chain) are computed "
        "from the invocation, not from argv, and travel with the case in a checksum-guarded x-expect item.  "
        "unparse_tails: flat commands with one of the fourth-pass positional shapes (last(true) behind a single / a multiple "
        "positional, trailing_var_arg, single / multi-valued positional with hyphen or negative-number values, low-index "
        "multiple, allow_missing_positional) x lines of the matching tail grammar (values after --, raw tails with known flags / "
        "-- / flag-looking tokens, look-ahead runs followed by nothing or a flag), same expectation mechanism.  "
        "random/adversarial: the shared generator (all features) for the index-discipline and provenance oracles.  "
        "A case is non-trivial when the parse succeeds and at least one argument has a command-line value.")
TRUSTED = [
    "Coq 8.16.1 kernel (coqc); no native_compute; theorems C02_* are 'Closed under the global context'",
    "extraction: ExtrOcamlBasic only, no Extract Constant; OCaml driver ocaml/parse_driver.ml + common_parse/{spec,show}.ml",
    "correspondence: generators in vp/props/c02.py and vp/gen_cmd.py, harness/src/modes/parse.rs; the projection is the "
    "whole result (ids in order, source, indices, raw occurrence groups, subcommand chain; error kind class)",
    "the python un-parser (render + denote) is a third, independent implementation of the documented grammar",
]
ASSUMPTIONS = [
    "conservation (nothing lost, nothing invented, order kept) is proved in Coq for the model and checked against the python "
    "un-parser for the implementation, for the conventional class only; outside it the index-discipline and provenance "
    "oracles and the model comparison apply",
    "ids propagated as global values into other levels are outside the per-level index statement",
]
TECHNIQUE = ("Coq proof: (1) index discipline, key uniqueness and provenance as instances of the primitive-closed state predicate "
             "of the parse-loop invariant; (2) the un-parser theorem: executable Gallina render/apply_items/occs/run_inv for "
             "invocation trees, a simulation lemma per item kind (token loop = meaning of the item, for all states and any rest), "
             "induction over the item list and over the command tree up to parse_top, conservation via C07's abstract fold and "
             "C06's phase frames, the index rule of react folded over the occurrences; third pass: the same simulation for the lifted "
             "class with new step lemmas for = spellings, terminators and MaybeHyphenValue exits, composition with C09's closed form "
             "of the globals merge, refutation witness for the positional pending bound; fourth pass: one iteration of parse_loop "
             "split into classification and delivery phases (parse_loop_step, by computation), the trailing-mode loop via C05's "
             "pos_body, tails of a level as tree constructors, the pending bound as ONE invariant by induction over the loop "
             "branches, the bridge from the declared command through projection lemmas of _build_self) + extracted-model/"
             "implementation correspondence on the complete matches + python un-parser")
LEVEL_TEXT = ("Machine-checked theorems (Coq 8.16, closed under the global context).  (a) For every command accepted by the "
              "validity gate (class: no short flag-subcommands) and every token list, at every level: pairwise distinct keys, "
              "every index a fresh value of the running counter (unique, strictly increasing per argument), every stored value a "
              "contiguous piece of a token / declared value / action literal.  (b) The un-parser theorem for the conventional "
              "class (boolean predicates conv on the built command and wf_items/wf_inv on the invocation: flags and options by "
              "long name or alias in the spellings --n, --n=v, --n v1..vk, short clusters -abc, -abcoV, -abco=V, -abco v1..vk, runs "
              "of positional values, -- and the values after it, subcommands by name or alias to any depth): the token loop on render(items) ++ rest equals "
              "the loop on rest from the state the items denote (each token consumed exactly once as the item part it was "
              "rendered from; an equality of results, rejected lines included); all spellings denote the same occurrence list; "
              "get_matches_with / _do_parse / try_get_matches_from on the rendered tree equal the tree's meaning (for trees "
              "without global arguments: parse_top(bin :: render inv) = Ok(denote inv)); conservation at every level (the "
              "occurrence groups reported per argument are exactly the invocation's: nothing dropped, duplicated, reordered, "
              "invented or moved; split only by the declared delimiter); the subcommand chain is kept; the reported indices are "
              "the closed form denote_idx (one per stored value, one for an option name given by flag) and the index events of a "
              "level strictly increase in argv order.  Non-vacuity examples exercise every item kind and spelling.  "
              "(c) Third pass: positional lookup is by key (characterisation of get_pos, invariance under any permutation of the "
              "declarations); delimiter splitting is byte level for all byte strings and keeps every piece, OsString values are never "
              "rejected; the whole of (b) (loop, level, tree, parse_top, conservation, indices) for the lifted class convx/wfx_items/"
              "wfx_inv: require_equals (spelled --o=v / -o=v), value terminators incl. the terminator token, hyphen and negative-"
              "number values of options; parse_top of a rendered tree WITH global arguments = the meaning with C09's final map "
              "inserted at every level (closed form, old and lifted class); pending buffer: opens empty, grows by one token while "
              "below max, every accepted occurrence has min <= #values <= max (the literal bound is refuted for multi-valued "
              "positionals, crate agrees: TooManyValues).  (d) Fourth pass: convx now also admits last(true) and trailing_var_arg "
              "positionals, hyphen / negative-number values of POSITIONALS, low-index multiples (<sources>... <target>) and "
              "allow_missing_positional; trees invy add the tails of a level -- the values after -- (delivered to the corrected "
              "counter: the highest positional when a last(true) one exists), the run of a trailing_var_arg positional, the run of "
              "a multi-valued positional with hyphen values (swallows flags, --, subcommand names), the look-ahead run at the "
              "second-to-last positional (last value to the last positional) -- and C02_unparse_tree_y / _y / _denote_y / _globals_y / "
              "conservation_tree_y / indices_tree_y are the whole of (b) for them; a token that looks like a flag but is a value of "
              "the current positional (unknown long, cluster with an unknown short, -<number>) is characterised (hyphen_tok) and "
              "short clusters are clusters exactly when they are not such a token (cluster_clear).  THE BRIDGE IS COMPLETE: "
              "C02_bridge / C02_bridge_x (user_conventional[x] c0 -> conv / convx (build_self c0) for ALL valid c0: generated "
              "--help/--version flags, Arg::_build, index assignment, deprecated-settings push, Built mark; the low-index conjunct "
              "is derived from the declared arguments), C02_unparse_user(_y): the un-parser theorem stated on the command as "
              "written, and C02_bridge_tree(_y) / C02_unparse_user_tree(_y): for whole command TREES as written (the user-level "
              "class is stable under the propagation of global settings and global arguments into a child, and the child the "
              "parser builds is build_self of the propagated declared child, so every level's class conjunct of wf_inv / wfy_inv "
              "follows; old and lifted class).  C02_pending_bounded IS ONE INVARIANT of parse_loop: for all assert_app commands, all token lists, all "
              "exits of the loop (errors included), the occurrence being collected for an OPTION never holds more than "
              "num_args.max values (C02_pending_invariant: PB holds initially and is re-established at every iteration).")
LEVEL_NOTE = ("Outside the lifted class (-- directly after an open multi-valued positional run, dont_delimit_trailing_values, the values "
              "after -- for commands with a low-index multiple, a value equal to a positional's terminator after --, a multi-valued "
              "positional with negative-number (not hyphen) values whose run stays open, require_equals options given without a "
              "value, a subcommand directly after a look-ahead run, flag/external subcommands, ignore_errors, "
              "args_conflicts_with_subcommands, subcommand_precedence_over_arg) conservation is checked by the python un-parser / "
              "model comparison only (the python un-parser's own class includes a bare -- in front of the last positional run of the "
              "line, with and without dont_delimit_trailing_values, and values of a started multi-valued positional spelled like "
              "subcommand names).  The bridges discharge the class conjuncts of every level (old and lifted class); the items of each "
              "level (names resolve by key on the built command, value tokens) and the subcommand-name tests are still checked on the "
              "built command by computation.  The pending bound is for options; for multi-valued positionals it stays refuted "
              "(their run is counted when flushed: C02_flushed_in_range).  The python un-parser stream renders the conventional "
              "grammar; the fourth-pass shapes are tied to the crate by the stream unparse_tails (flat commands, expectations computed "
              "from the invocation), by the corpus lines of the Coq examples (expectations = the pinned theorem statements) and by the "
              "shared generators' model/implementation comparison.  Trusted: Coq kernel, "
              "extraction, OCaml driver, Rust harness, generators.")

VALS = [b"v", b"w", b"x1", b"1", b"0", b"zz", b"v=w", b"a.b", "é".encode(), b"3", b"=", b"e=", b"long-value", b"x y"]
# values only an OsString-typed argument accepts: not well-formed UTF-8 (the grammar, and the split at the declared
# delimiter, are byte-level: C02's "exactly the corresponding argv substrings" does not depend on the encoding)
VALS_OS = [b"\xff", b"g\xe9n", b"a\xffb", b"\xc3", b"v\xc3\x28", b"\xe2\x82", b"x\xff="]
SHORTS = "abcdefgijklmnopqrstuwxyz"
LONGS = ["alpha", "beta", "gamma", "delta", "eps", "zeta", "eta", "theta", "iota", "kappa", "out", "opt", "al", "be"]
SUBS = ["sub", "run", "test", "add", "rm", "ls"]


def pick(rng, s):
    return s[rng.randrange(len(s))]


# ----------------------------------------------------------------------------- commands of the conventional class
def gen_conv_cmd(rng, depth=0, path="p", stats=None):
    c = {"name": path.split("/")[-1].encode(), "about": ("A:" + path).encode(), "args": [], "groups": [], "subs": [],
         "settings": [], "aliases": []}
    if rng.random() < 0.3:
        c["settings"].append("args_override_self")
    if rng.random() < 0.3:
        c["settings"].append("disable_help_flag")
    if rng.random() < 0.3:
        c["version"] = b"1.0"
    shorts = set("hV")
    longs = {"help", "version"}

    def fresh(pool, used):
        for _ in range(30):
            x = pick(rng, pool)
            if x not in used:
                used.add(x)
                return x
        return None

    for k in range(rng.randrange(1, 6)):
        a = {"id": ("o%d" % k).encode(), "flags": set()}
        r = rng.random()
        a["short"] = fresh(SHORTS, shorts) if r < 0.8 else None
        lo = fresh(LONGS, longs) if (r > 0.3 or not a["short"]) else None
        a["long"] = lo.encode() if lo else None
        if not a["short"] and not a["long"]:
            continue
        if a["long"] and rng.random() < 0.3:
            al = fresh(LONGS, longs)
            if al:
                a["aliases"] = [(al.encode(), rng.random() < 0.5)]
        if a["short"] and rng.random() < 0.2:
            sa = fresh(SHORTS, shorts)
            if sa:
                a["saliases"] = [(sa, rng.random() < 0.5)]
        kind = rng.random()
        if kind < 0.2:
            a["action"] = pick(rng, ["settrue", "setfalse"])
        elif kind < 0.35:
            a["action"] = "count"
        else:
            a["action"] = pick(rng, ["set", "set", "append", None])
            rr = rng.random()
            if rr < 0.12:
                a["num"] = pick(rng, [(0, 1), (0, 1), (0, None), (0, 2)])
                if rng.random() < 0.55:
                    a["dmissing"] = [pick(rng, [b"dm", b"a,b"])] + ([b"dm2"] if rng.random() < 0.2 else [])
                # without default_missing_value an occurrence without a value is an EMPTY occurrence group
            elif rr < 0.24:
                a["num"] = (2, 2)
            elif rr < 0.36:
                a["num"] = (1, 3)
            elif rr < 0.44:
                a["num"] = (1, None)
            if rng.random() < 0.3:
                a["delim"] = ","
            if rng.random() < 0.2:
                a["vp"] = "os"
        c["args"].append(a)
    npos = rng.randrange(0, 4)
    explicit = npos >= 2 and rng.random() < 0.25
    if explicit:
        order = list(range(npos))
        rng.shuffle(order)
        c["decl_order"] = order      # declared in another order than their indices (gen_cmd.cmd_sx)
    for k in range(npos):
        a = {"id": ("p%d" % k).encode(), "flags": set()}
        if explicit:
            a["index"] = k + 1
        if k == npos - 1 and rng.random() < 0.5:
            a["num"] = pick(rng, [(0, None), (1, None), (1, 3), (2, 2)])
            if rng.random() < 0.4:
                a["action"] = "append"
        if rng.random() < 0.3:
            a["delim"] = ","
        if rng.random() < 0.2:
            a["vp"] = "os"
        c["args"].append(a)
    if depth < 2 and rng.random() < 0.55:
        names = {"help"}
        for _ in range(rng.randrange(1, 3)):
            n = pick(rng, SUBS)
            if n in names:
                continue
            names.add(n)
            s = gen_conv_cmd(rng, depth + 1, path + "/" + n, stats)
            if rng.random() < 0.4:
                al = pick(rng, SUBS)
                if al not in names:
                    names.add(al)
                    s["aliases"] = [(al.encode(), rng.random() < 0.5)]
            c["subs"].append(s)
    if depth == 0 and rng.random() < 0.25:
        # a global setting: values written after `--` are not split at the delimiter (stream family `trailing`)
        c["settings"].append("dont_delimit_trailing_values")
    return c


def is_opt(a):
    return bool(a.get("short") or a.get("long"))


def split_delim(a, v):
    return v.split(a["delim"].encode()) if a.get("delim") else [v]


# ----------------------------------------------------------------------------- invocation -> (tokens, expected)
def render_level(rng, c, stats, ddtv=False):
    """Returns (tokens, expected levels).  expected level = (dict id -> {"occ": [[bytes]], "idx": [int]}, sub name)."""
    override_self = "args_override_self" in c["settings"]
    ddtv = ddtv or "dont_delimit_trailing_values" in c["settings"]
    sub_names = set()
    for s in c["subs"]:
        sub_names.add(s["name"])
        for n, _ in s.get("aliases", []):
            sub_names.add(n)
    if c["subs"] and "disable_help_subcommand" not in c["settings"]:
        sub_names.add(b"help")

    def value(a):
        pool = VALS + VALS_OS if a.get("vp") == "os" else VALS
        for _ in range(20):
            v = pick(rng, pool)
            if a.get("delim") and rng.random() < 0.4:
                v = v + b"," + pick(rng, pool) + (b",," if rng.random() < 0.1 else b"")
            if v not in sub_names and not v.startswith(b"-"):
                return v
        return b"v"

    items = []     # (kind, arg, spelled tokens or cluster letter, values)
    opts = [a for a in c["args"] if is_opt(a)]
    for a in opts:
        if rng.random() < 0.5:
            continue
        act = a.get("action")
        repeat_ok = act in ("append", "count") or override_self
        reps = pick(rng, [1, 1, 2, 3]) if repeat_ok else 1
        if act == "count" and rng.random() < 0.1:
            reps = pick(rng, [5, 17])
        for _ in range(reps):
            if act in ("settrue", "setfalse", "count"):
                items.append(("flag", a, None))
            else:
                lo, hi = a.get("num") or (1, 1)
                k = pick(rng, [lo, max(lo, 1), hi if hi is not None else lo + 2, hi if hi is not None else 4])
                items.append(("opt", a, [value(a) for _ in range(k)]))
    rng.shuffle(items)

    # spell the option items
    toks = []         # list of (token, None) in order; built from groups
    groups = []       # each: {"toks": [...], "events": [...], "open": bool}  open = variable arity not filled / zero values
    i = 0
    while i < len(items):
        kind, a, vals = items[i]
        names = []
        if a.get("long"):
            names.append(b"--" + a["long"])
        for n, _ in a.get("aliases", []):
            names.append(b"--" + n)
        if a.get("short"):
            names.append(b"-" + a["short"].encode())
        for n, _ in a.get("saliases", []):
            names.append(b"-" + n.encode())
        name = pick(rng, names)
        if kind == "flag":
            # try to cluster with following short-spelled flags (and possibly a final option with attached value)
            if len(name) == 2 and rng.random() < 0.6:
                cluster = [name[1:]]
                events = [("flag", a)]
                j = i + 1
                while j < len(items) and rng.random() < 0.7:
                    k2, a2, v2 = items[j]
                    sh = [a2["short"]] if a2.get("short") else []
                    sh += [n for n, _ in a2.get("saliases", [])]
                    if not sh:
                        break
                    if k2 == "flag":
                        cluster.append(pick(rng, sh).encode())
                        events.append(("flag", a2))
                        j += 1
                        continue
                    lo, hi = a2.get("num") or (1, 1)
                    if len(v2) == 1 and v2[0] != b"" and not v2[0].startswith(b"="):
                        cluster.append(pick(rng, sh).encode() + (b"=" if rng.random() < 0.3 else b"") + v2[0])
                        events.append(("opt", a2, v2))
                        stats["spell:cluster+attached"] += 1
                        j += 1
                    break
                stats["spell:cluster%d" % min(len(events), 4)] += 1
                groups.append({"toks": [b"-" + b"".join(cluster)], "events": events, "open": False})
                i = j
                continue
            stats["spell:flag-" + ("short" if len(name) == 2 else "long")] += 1
            groups.append({"toks": [name], "events": [("flag", a)], "open": False})
            i += 1
            continue
        lo, hi = a.get("num") or (1, 1)
        opn = (hi is None or len(vals) < hi)       # would swallow a following non-flag token
        if len(vals) == 1 and rng.random() < 0.5 and not (len(name) == 2 and (vals[0] == b"" or vals[0].startswith(b"="))):
            if name.startswith(b"--"):
                tk = [name + b"=" + vals[0]]
                stats["spell:--n=v"] += 1
            elif rng.random() < 0.4:
                tk = [name + b"=" + vals[0]]
                stats["spell:-o=v"] += 1
            else:
                tk = [name + vals[0]]
                stats["spell:-ov"] += 1
            groups.append({"toks": tk, "events": [("opt", a, vals)], "open": False})
        else:
            stats["spell:%s v*%d" % ("--n" if name.startswith(b"--") else "-o", min(len(vals), 4))] += 1
            groups.append({"toks": [name] + vals, "events": [("opt", a, vals)], "open": opn})
        i += 1

    # positionals: in order, each run contiguous
    pos = [a for a in c["args"] if not is_opt(a)]
    pos_runs = []
    pos_open = False
    for a in pos:
        lo, hi = a.get("num") or (1, 1)
        multiple = a.get("num") is not None and (hi is None or hi > 1)
        if rng.random() < 0.25:
            break
        k = 1 if not multiple else pick(rng, [max(lo, 1), max(lo, 1) + 1, hi if hi is not None else 3])
        if hi is not None:
            k = min(k, hi)
        run = [value(a) for _ in range(k)]
        # a multi-valued positional that has STARTED collecting swallows a following word that spells a subcommand name
        # (the documented greedy grammar; seeded change seed3/C02-1 let the name steal the value): such a word may be any
        # value of the run but the first
        if multiple and len(run) >= 2 and sub_names and rng.random() < 0.3 and "subcommand_precedence_over_arg" not in c["settings"]:
            run[rng.randrange(1, len(run))] = pick(rng, sorted(sub_names))
            stats["positional value spelled like a subcommand name"] += 1
        pos_runs.append((a, run))
        if multiple or a.get("action") == "append":
            pos_open = True      # a positional collecting values (even a full one) swallows a following subcommand name
    # interleave option groups between positional runs; an "open" option group must not be followed by a
    # positional run or a subcommand
    slots = [[] for _ in range(len(pos_runs) + 1)]
    for g in groups:
        slots[rng.randrange(len(slots))].append(g)
    want_sub = bool(c["subs"]) and rng.random() < 0.6 and not pos_open
    seq = []
    for si, sl in enumerate(slots):
        followed = (si < len(pos_runs)) or want_sub
        if sl and sl[-1]["open"] and followed:
            closed = [g for g in sl if not g["open"]]
            if closed:
                sl.remove(closed[-1])
                sl.append(closed[-1])
            else:
                sl[-1]["demote"] = True   # drop it: cannot be placed unambiguously
        for g in sl:
            if g.get("demote"):
                continue
            seq.append(("grp", g))
        if si < len(pos_runs):
            seq.append(("pos", pos_runs[si]))
    # safety pass: an option group still accepting values must be followed by another option group
    changed = True
    while changed:
        changed = False
        for k, (kind, x) in enumerate(seq):
            if kind == "grp" and x["open"]:
                nxt = seq[k + 1][0] if k + 1 < len(seq) else ("sub" if want_sub else None)
                if nxt in ("pos", "sub"):
                    del seq[k]
                    changed = True
                    break
    # a multi-valued positional run must not be followed by further positional runs unless it is full
    # (keep: only the last positional is multi-valued in this class)

    # the escape: a bare `--` in front of the LAST positional run of the line when nothing but that run follows; every
    # token behind it is a value of that positional whatever it looks like, and under dont_delimit_trailing_values none of
    # them is split at the delimiter (seeded change seed3/C02-3 split all but the last one)
    escaped_run = None
    if seq and seq[-1][0] == "pos" and not want_sub and rng.random() < 0.3:
        a_, run_ = seq[-1][1]
        if rng.random() < 0.5 and run_:
            run_[rng.randrange(len(run_))] = pick(rng, [b"--x", b"-v", b"--", b"--help", b"-"] + sorted(sub_names))
        escaped_run = seq[-1][1]
        stats["escape before the last positional run" + (" (trailing values undelimited)" if ddtv else "")] += 1

    # ---- denote
    exp = collections.OrderedDict()
    idx = 0
    count = collections.Counter()

    def entry(a):
        return exp.setdefault(a["id"], {"occ": [], "idx": []})

    def occurrence(a, vals, is_flag_ident, whole=False):
        nonlocal idx
        act = a.get("action")
        if is_flag_ident:
            idx += 1
        if act not in ("append",):
            # Set-like: an earlier occurrence is replaced (the generator repeats only with args_override_self)
            exp.pop(a["id"], None)
        e = entry(a)
        g = []
        for v in vals:
            for piece in ([v] if whole else split_delim(a, v)):
                idx += 1
                g.append(piece)
                e["idx"].append(idx)
        e["occ"].append(g)

    for kind, x in seq:
        if kind == "grp":
            toks += x["toks"]
            for ev in x["events"]:
                if ev[0] == "flag":
                    a = ev[1]
                    act = a["action"]
                    idx += 1
                    if act == "count":
                        count[a["id"]] += 1
                        exp.pop(a["id"], None)
                        e = entry(a)
                        e["occ"] = [[str(min(count[a["id"]], 255)).encode()]]
                        e["idx"] = [idx]
                    else:
                        exp.pop(a["id"], None)
                        e = entry(a)
                        e["occ"] = [[b"true" if act == "settrue" else b"false"]]
                        e["idx"] = [idx]
                else:
                    a, vals = ev[1], ev[2]
                    if not vals:
                        vals = list(a.get("dmissing", []))
                    occurrence(a, vals, True)
        else:
            a, vals = x
            if x is escaped_run:
                toks.append(b"--")
            toks += vals
            occurrence(a, vals, False, whole=(x is escaped_run and ddtv))
    out_levels = [(exp, None)]
    if want_sub:
        s = pick(rng, c["subs"])
        names = [s["name"]] + [n for n, _ in s.get("aliases", [])]
        nm = pick(rng, names)
        stats["sub:" + ("name" if nm == s["name"] else "alias")] += 1
        toks.append(nm)
        st, sl = render_level(rng, s, stats, ddtv)
        toks += st
        out_levels = [(exp, s["name"])] + sl
    return toks, out_levels


def expect_sx(lv):
    parts = []
    for exp, sub in lv:
        ents = []
        for i, e in exp.items():
            ents.append("(%s (%s) (%s))" % (hexs(i), " ".join(str(k) for k in e["idx"]),
                                            " ".join("(" + " ".join(hexs(v) for v in g) + ")" for g in e["occ"])))
        parts.append("(lv %s %s)" % ("-" if sub is None else hexs(sub), " ".join(ents)))
    return " ".join(parts)


def guard(cmd_sx_text, argv):
    return hashlib.sha1((cmd_sx_text + "|" + " ".join(hexs(t) for t in argv)).encode()).hexdigest()[:12]


def gen_unparse(rng, n, stats):
    out = []
    while len(out) < n:
        c = gen_conv_cmd(rng)
        for _ in range(5):
            toks, lv = render_level(rng, c, stats)
            argv = [b"prog"] + toks
            base = gen_cmd.cmd_sx(c)
            g = guard(base, argv)
            c2 = dict(c)
            body = base[:-1] + " (x-expect %s %s))" % (g, expect_sx(lv))
            out.append("(parse %s (argv%s))" % (body, "".join(" " + hexs(t) for t in argv)))
    return out[:n]


# ----------------------------------------------------------------------------- the tails of a level (fourth pass)
PLAIN = [b"A", b"B", b"x1", b"0", b"zz", b"a.b", "é".encode(), b"k=v", b"long-value", b"x y", b"a,b"]
ANY = [b"-x", b"--", b"--opt", b"-v", b"--weird=1", b"plain", b"-", b"-5", b"--quiet", b"-qv", b"---", b"-=", b"3"]


def gen_tail_case(rng, stats):
    """One flat command and one line of the fourth-pass grammar (UnparseYTree.v: YTrail with a last(true) positional,
    YTva, hyph_single items, YHyp, YLook for a low-index multiple / allow_missing_positional), with the expected groups and
    indices computed from the invocation by the documented rule (an independent python reading of the grammar)."""
    def arg(i, **kw):
        a = {"id": i, "flags": set()}
        a.update(kw)
        return a
    v = arg(b"v", short="v", action="count")
    q = arg(b"q", short="q", long=b"quiet", action="settrue")
    o = arg(b"o", long=b"opt", action="set")
    c = {"name": b"p", "args": [v, q, o], "groups": [], "subs": [], "settings": [], "aliases": []}
    exp = collections.OrderedDict()
    toks = []
    idx = [0]
    nv = [0]

    def flags(maxn=3):
        for _ in range(rng.randrange(0, maxn + 1)):
            k = rng.random()
            if k < 0.4:
                toks.append(b"-v")
                idx[0] += 1
                nv[0] += 1
                exp.pop(b"v", None)
                exp[b"v"] = {"occ": [[str(nv[0]).encode()]], "idx": [idx[0]]}
            elif k < 0.7:
                if b"q" in exp:
                    continue
                toks.append(pick(rng, [b"-q", b"--quiet"]))
                idx[0] += 1
                exp[b"q"] = {"occ": [[b"true"]], "idx": [idx[0]]}
            else:
                if b"o" in exp:
                    continue
                val = pick(rng, PLAIN)
                idx[0] += 1
                if rng.random() < 0.5:
                    toks.extend([b"--opt", val])
                else:
                    toks.append(b"--opt=" + val)
                idx[0] += 1
                exp[b"o"] = {"occ": [[val]], "idx": [idx[0]]}

    def give(a, vals):
        e = exp.setdefault(a["id"], {"occ": [], "idx": []})
        g = []
        for x in vals:
            idx[0] += 1
            g.append(x)
            e["idx"].append(idx[0])
        e["occ"].append(g)

    shape = pick(rng, ["last", "last-low", "tva", "hyph1", "hyphm", "low", "amp", "hyphdigit"])
    stats["tail:" + shape] += 1
    if shape in ("last", "last-low"):
        first = arg(b"f", **({"num": (1, None), "action": "append"} if shape == "last-low" else {}))
        rest = arg(b"r", num=(1, None), action="append", flags={"last"})
        c["args"] += [first, rest]
        flags()
        if rng.random() < 0.7:
            fv = [pick(rng, PLAIN) for _ in range(1 if shape == "last" else rng.randrange(1, 4))]
            toks.extend(fv)
            give(first, fv)
            flags(2)
        toks.append(b"--")
        tail = [pick(rng, ANY + PLAIN) for _ in range(rng.randrange(1, 5))]
        toks.extend(tail)
        give(rest, tail)
    elif shape == "tva":
        cm = arg(b"c")
        args = arg(b"a", num=(pick(rng, [0, 1]), None), flags={"tva"})
        c["args"] += [cm, args]
        flags()
        toks.append(pick(rng, PLAIN))
        give(cm, [toks[-1]])
        flags(2)
        tail = [pick(rng, PLAIN)] + [pick(rng, ANY + PLAIN) for _ in range(rng.randrange(0, 4))]
        toks.extend(tail)
        give(args, tail)
    elif shape == "hyph1":
        pat = arg(b"p", flags={"hyphen"})
        num = arg(b"n", flags={"negnum"})
        c["args"] += [pat, num]
        flags(2)
        # a value of [pat]: plain, an unknown long, a cluster with an unknown short (known ones may precede it)
        t = pick(rng, [pick(rng, PLAIN), b"--weird", b"--weird=1", b"--op", b"-x", b"-vx", b"-Z9", b"-xv"])
        toks.append(t)
        give(pat, [t])
        flags(2)
        if rng.random() < 0.7:
            t = pick(rng, [b"-5", b"-3.14", b"-0", b"-1e5", pick(rng, PLAIN)])
            toks.append(t)
            give(num, [t])
            flags(2)
    elif shape == "hyphm":
        cm = arg(b"c")
        args = arg(b"a", num=(1, None), flags={"hyphen"})
        c["args"] += [cm, args]
        flags()
        toks.append(pick(rng, PLAIN))
        give(cm, [toks[-1]])
        flags(2)
        tail = [pick(rng, [pick(rng, PLAIN), b"--weird", b"-x", b"-vx"])] + [pick(rng, ANY + PLAIN) for _ in range(rng.randrange(0, 4))]
        toks.extend(tail)
        give(args, tail)
    elif shape == "hyphdigit":
        # short flags whose character is a DIGIT (`ls -1`, `xargs -0`) in front of a positional that accepts hyphen values and
        # has not started: a token that spells defined flags is those flags, also when it looks like a negative number
        # (seeded change seed4/C02-1 made allow_hyphen_values imply allow_negative_numbers)
        one = arg(b"1", short="1", action="settrue")
        zero = arg(b"0", short="0", action="count")
        paths = arg(b"a", num=(0, None), action="append", flags={"hyphen"})
        c["args"] += [one, zero, paths]
        nz = 0
        for _ in range(rng.randrange(1, 4)):
            t = pick(rng, [b"-1", b"-0", b"-0", b"-00", b"-v", b"-v0", b"-01", b"-10"])
            if b"1" in t and b"1" in exp:
                continue
            toks.append(t)
            for ch in t[1:].decode():
                idx[0] += 1
                if ch == "1":
                    exp[b"1"] = {"occ": [[b"true"]], "idx": [idx[0]]}
                elif ch == "0":
                    nz += 1
                    exp.pop(b"0", None)
                    exp[b"0"] = {"occ": [[str(nz).encode()]], "idx": [idx[0]]}
                else:
                    nv[0] += 1
                    exp.pop(b"v", None)
                    exp[b"v"] = {"occ": [[str(nv[0]).encode()]], "idx": [idx[0]]}
        if rng.random() < 0.8:
            tail = [pick(rng, PLAIN)] + [pick(rng, ANY + PLAIN + [b"-1", b"-0"]) for _ in range(rng.randrange(0, 3))]
            toks.extend(tail)
            give(paths, tail)
    elif shape == "low":
        src = arg(b"s", num=(1, None), flags={"required"})
        dst = arg(b"d", flags={"required"})
        c["args"] += [src, dst]
        flags()
        init = [pick(rng, PLAIN) for _ in range(rng.randrange(1, 4))]
        toks.extend(init)
        give(src, init)
        toks.append(pick(rng, PLAIN))
        give(dst, [toks[-1]])
        flags(2)
    else:
        first = arg(b"f")
        second = arg(b"s", flags={"required"})
        c["args"] += [first, second]
        c["settings"] = ["allow_missing_positional"]
        flags()
        if rng.random() < 0.5:
            toks.append(pick(rng, PLAIN))
            give(first, [toks[-1]])
        toks.append(pick(rng, PLAIN))
        give(second, [toks[-1]])
        flags(2)
    argv = [b"p"] + toks
    base = gen_cmd.cmd_sx(c)
    body = base[:-1] + " (x-expect %s %s))" % (guard(base, argv), expect_sx([(exp, None)]))
    return "(parse %s (argv%s))" % (body, "".join(" " + hexs(t) for t in argv))


def gen_tails(rng, n, stats):
    return [gen_tail_case(rng, stats) for _ in range(n)]


def coq_example_cases():
    """The invocations of coq/theories/ParseProofs/UnparseExamples.v (pinned by C02_unparse_nonvacuous,
    C02_indices_nonvacuous, C02_unparse_tree_nonvacuous, C02_unparse_trail_nonvacuous) as un-parser cases: the expectations below are the values
    the Coq theorems state for the model; the corpus file corpus/C02/unparse.coq_examples.cases (written once with
    `python3 -c "from vp.props import c02; print('\\n'.join(c02.coq_example_cases()))"`) makes every run compare
    the real crate with them."""
    def arg(i, **kw):
        a = {"id": i, "flags": set()}
        a.update(kw)
        return a
    one = {"name": b"p", "args": [
        arg(b"v", short="v", action="count"),
        arg(b"q", short="q", long=b"qu", action="settrue"),
        arg(b"o", short="o", long=b"opt", action="append"),
        arg(b"s", short="s", long=b"set", action="set"),
        arg(b"m", short="m", long=b"mu", action="append", num=(1, 3), delim=","),
        arg(b"y", short="y", long=b"yy", action="set", num=(0, 1), dmissing=[b"d"]),
        arg(b"f"),
        arg(b"r", num=(1, None)),
        arg(b"e", short="\u00e9", action="settrue")], "groups": [], "subs": [], "settings": [], "aliases": []}
    toks1 = [b"--qu", b"F", b"-vvoAB", b"--opt===", b"--mu", b"A", b"B,C", b"-vm", b"A", b"-s=", b"R", b"S", b"--yy", b"-v", b"T",
             "-\u00e9".encode()]
    exp1 = collections.OrderedDict([
        (b"q", {"occ": [[b"true"]], "idx": [1]}), (b"f", {"occ": [[b"F"]], "idx": [2]}),
        (b"o", {"occ": [[b"AB"], [b"=="]], "idx": [6, 8]}),
        (b"m", {"occ": [[b"A", b"B", b"C"], [b"A"]], "idx": [10, 11, 12, 15]}),
        (b"s", {"occ": [[b""]], "idx": [17]}), (b"r", {"occ": [[b"R", b"S"], [b"T"]], "idx": [18, 19, 23]}),
        (b"y", {"occ": [[b"d"]], "idx": [21]}), (b"v", {"occ": [[b"4"]], "idx": [22]}),
        (b"e", {"occ": [[b"true"]], "idx": [24]})])
    run = {"name": b"run", "aliases": [(b"go", True)], "args": [
        arg(b"x", short="x", action="settrue"), arg(b"n", long=b"name", action="set"), arg(b"f")],
        "groups": [], "subs": [], "settings": []}
    two = {"name": b"p", "args": [one["args"][0], one["args"][1], one["args"][2]], "groups": [], "subs": [run],
           "settings": [], "aliases": []}
    toks2 = [b"--qu", b"-voA", b"go", b"-x", b"--name=V", b"F"]
    exp2 = [(collections.OrderedDict([(b"q", {"occ": [[b"true"]], "idx": [1]}), (b"v", {"occ": [[b"1"]], "idx": [2]}),
                                      (b"o", {"occ": [[b"A"]], "idx": [4]})]), b"run"),
            (collections.OrderedDict([(b"x", {"occ": [[b"true"]], "idx": [1]}), (b"n", {"occ": [[b"V"]], "idx": [3]}),
                                      (b"f", {"occ": [[b"F"]], "idx": [4]})]), None)]
    toks3 = [b"--qu", b"--mu", b"A", b"--", b"F", b"-x", b"R"]
    exp3 = collections.OrderedDict([
        (b"q", {"occ": [[b"true"]], "idx": [1]}), (b"m", {"occ": [[b"A"]], "idx": [3]}),
        (b"f", {"occ": [[b"F"]], "idx": [4]}), (b"r", {"occ": [[b"-x", b"R"]], "idx": [5, 6]})])
    # UnparseLift.v (C02_positional_order_nonvacuous): the index-2 positional is declared first; line A B C
    order = {"name": b"p", "args": [arg(b"1", index=1), arg(b"2", index=2, num=(1, None))], "decl_order": [1, 0],
             "groups": [], "subs": [], "settings": [], "aliases": []}
    toks4 = [b"A", b"B", b"C"]
    exp4 = collections.OrderedDict([(b"1", {"occ": [[b"A"]], "idx": [1]}), (b"2", {"occ": [[b"B", b"C"]], "idx": [2, 3]})])
    # UnparseLift.v (C02_osstring_nonvacuous): OsString values that are not UTF-8, every (empty) piece kept
    osc = {"name": b"p", "args": [arg(b"m", short="m", long=b"mu", action="append", num=(1, 3), delim=",", vp="os"),
                                  arg(b"f", vp="os")], "groups": [], "subs": [], "settings": [], "aliases": []}
    toks5 = [b"--mu", b"a,,b", b",a", b"b,", b"--mu=\xff,\xc3", b"-m\xe9", b"g\xe9n"]
    exp5 = collections.OrderedDict([
        (b"m", {"occ": [[b"a", b"", b"b", b"", b"a", b"b", b""], [b"\xff", b"\xc3"], [b"\xe9"]],
                "idx": [2, 3, 4, 5, 6, 7, 8, 10, 11, 13]}),
        (b"f", {"occ": [[b"g\xe9n"]], "idx": [14]})])
    # UnparseXExamples.v (C02_unparse_x_nonvacuous, C02_terminator_nonvacuous): require_equals, terminator, hyphen /
    # negative-number values
    xrun = {"name": b"run", "aliases": [], "args": [arg(b"k", short="k", long=b"key", action="set", flags={"reqeq"})],
            "groups": [], "subs": [], "settings": []}
    xc = {"name": b"p", "args": [
        arg(b"v", short="v", action="count"),
        arg(b"r", short="r", long=b"req", action="set", flags={"reqeq"}),
        arg(b"t", short="t", long=b"term", action="append", num=(1, 3), term=b";"),
        arg(b"y", short="y", long=b"hy", action="set", num=(2, 2), flags={"hyphen"}),
        arg(b"n", short="n", long=b"num", action="set", flags={"negnum"}),
        arg(b"f")], "groups": [], "subs": [xrun], "settings": ["args_override_self"], "aliases": []}
    toks6 = [b"--req=A", b"-vr=B", b"--term", b"X", b"Y", b"--hy", b"-x", b"--", b"--num", b"-5", b"F", b"-t", b"Z",
             b"--req==", b"-y", b"--num", b"--term", b"run", b"--key=K"]
    exp6 = [(collections.OrderedDict([
        (b"v", {"occ": [[b"1"]], "idx": [3]}), (b"r", {"occ": [[b"="]], "idx": [18]}),
        (b"t", {"occ": [[b"X", b"Y"], [b"Z"]], "idx": [7, 8, 16]}),
        (b"y", {"occ": [[b"--num", b"--term"]], "idx": [20, 21]}), (b"n", {"occ": [[b"-5"]], "idx": [13]}),
        (b"f", {"occ": [[b"F"]], "idx": [14]})]), b"run"),
        (collections.OrderedDict([(b"k", {"occ": [[b"K"]], "idx": [2]})]), None)]
    xc1 = dict(xc, subs=[])
    toks7 = [b"--term", b"X", b";", b"F", b"-v"]
    exp7 = collections.OrderedDict([(b"t", {"occ": [[b"X"]], "idx": [2]}), (b"f", {"occ": [[b"F"]], "idx": [3]}),
                                    (b"v", {"occ": [[b"1"]], "idx": [4]})])
    # UnparseYExamples.v (C02_unparse_y_nonvacuous, C02_unparse_tva_nonvacuous): last(true) behind a multiple positional,
    # the values after `--`, a trailing_var_arg run
    yc = {"name": b"p", "args": [
        arg(b"v", short="v", action="count"), arg(b"o", long=b"opt", action="set"),
        arg(b"f", num=(1, None), action="append"),
        arg(b"c", num=(1, None), action="append", term=b";", flags={"last"})],
        "groups": [], "subs": [], "settings": [], "aliases": []}
    toks8 = [b"-v", b"A", b"B", b"--opt", b"X", b"--", b"-a", b"--", b"run"]
    exp8 = collections.OrderedDict([
        (b"v", {"occ": [[b"1"]], "idx": [1]}), (b"f", {"occ": [[b"A", b"B"]], "idx": [2, 3]}),
        (b"o", {"occ": [[b"X"]], "idx": [5]}), (b"c", {"occ": [[b"-a", b"--", b"run"]], "idx": [6, 7, 8]})])
    toks9 = [b"-v", b"--", b"R", b"S"]
    exp9 = collections.OrderedDict([(b"v", {"occ": [[b"1"]], "idx": [1]}), (b"c", {"occ": [[b"R", b"S"]], "idx": [2, 3]})])
    tc = {"name": b"p", "args": [arg(b"v", short="v", action="count"), arg(b"c"), arg(b"a", num=(0, None), flags={"tva"})],
          "groups": [], "subs": [], "settings": [], "aliases": []}
    toks10 = [b"-v", b"C", b"a1", b"--x", b"-v", b"--", b"z"]
    exp10 = collections.OrderedDict([
        (b"v", {"occ": [[b"1"]], "idx": [1]}), (b"c", {"occ": [[b"C"]], "idx": [2]}),
        (b"a", {"occ": [[b"a1", b"--x", b"-v", b"--", b"z"]], "idx": [3, 4, 5, 6, 7]})])
    # UnparseYExamples.v HEx (C02_hyphen_positional_nonvacuous): hyphen / negative-number values of positionals
    hc = {"name": b"p", "args": [
        arg(b"v", short="v", action="count"), arg(b"o", long=b"opt", action="set"),
        arg(b"p", flags={"hyphen"}), arg(b"n", flags={"negnum"})],
        "groups": [], "subs": [], "settings": [], "aliases": []}
    toks11 = [b"-v", b"--opt", b"X", b"--weird", b"-5"]
    exp11 = collections.OrderedDict([
        (b"v", {"occ": [[b"1"]], "idx": [1]}), (b"o", {"occ": [[b"X"]], "idx": [3]}),
        (b"p", {"occ": [[b"--weird"]], "idx": [4]}), (b"n", {"occ": [[b"-5"]], "idx": [5]})])
    toks12 = [b"-x", b"-v", b"-7"]
    exp12 = collections.OrderedDict([
        (b"p", {"occ": [[b"-x"]], "idx": [1]}), (b"v", {"occ": [[b"1"]], "idx": [2]}), (b"n", {"occ": [[b"-7"]], "idx": [3]})])
    hsub = {"name": b"sub", "aliases": [], "args": [], "groups": [], "subs": [], "settings": []}
    mc = {"name": b"p", "args": [arg(b"v", short="v", action="count"), arg(b"c"), arg(b"a", num=(1, None), flags={"hyphen"})],
          "groups": [], "subs": [hsub], "settings": [], "aliases": []}
    toks13 = [b"-v", b"C", b"--foo", b"-v", b"--", b"sub"]
    exp13 = collections.OrderedDict([
        (b"v", {"occ": [[b"1"]], "idx": [1]}), (b"c", {"occ": [[b"C"]], "idx": [2]}),
        (b"a", {"occ": [[b"--foo", b"-v", b"--", b"sub"]], "idx": [3, 4, 5, 6]})])
    # UnparseYExamples.v LEx (C02_lookahead_nonvacuous): a low-index multiple and allow_missing_positional
    lc = {"name": b"p", "args": [arg(b"v", short="v", action="count"), arg(b"s", num=(1, None), flags={"required"}),
                                 arg(b"d", flags={"required"})], "groups": [], "subs": [], "settings": [], "aliases": []}
    toks14 = [b"-v", b"A", b"B", b"C"]
    exp14 = collections.OrderedDict([(b"v", {"occ": [[b"1"]], "idx": [1]}), (b"s", {"occ": [[b"A", b"B"]], "idx": [2, 3]}),
                                     (b"d", {"occ": [[b"C"]], "idx": [4]})])
    toks15 = [b"A", b"B", b"C", b"-v"]
    exp15 = collections.OrderedDict([(b"s", {"occ": [[b"A", b"B"]], "idx": [1, 2]}), (b"d", {"occ": [[b"C"]], "idx": [3]}),
                                     (b"v", {"occ": [[b"1"]], "idx": [4]})])
    ac = {"name": b"p", "args": [arg(b"v", short="v", action="count"), arg(b"f"), arg(b"s", flags={"required"})],
          "groups": [], "subs": [], "settings": ["allow_missing_positional"], "aliases": []}
    toks16 = [b"A", b"-v"]
    exp16 = collections.OrderedDict([(b"s", {"occ": [[b"A"]], "idx": [1]}), (b"v", {"occ": [[b"1"]], "idx": [2]})])
    toks17 = [b"-v", b"A", b"B"]
    exp17 = collections.OrderedDict([(b"v", {"occ": [[b"1"]], "idx": [1]}), (b"f", {"occ": [[b"A"]], "idx": [2]}),
                                     (b"s", {"occ": [[b"B"]], "idx": [3]})])
    out = []
    for c, toks, lv in ((one, toks1, [(exp1, None)]), (two, toks2, exp2), (one, toks3, [(exp3, None)]),
                        (order, toks4, [(exp4, None)]), (osc, toks5, [(exp5, None)]), (xc, toks6, exp6),
                        (xc1, toks7, [(exp7, None)]), (yc, toks8, [(exp8, None)]), (yc, toks9, [(exp9, None)]),
                        (tc, toks10, [(exp10, None)]), (hc, toks11, [(exp11, None)]), (hc, toks12, [(exp12, None)]),
                        (mc, toks13, [(exp13, None)]), (lc, toks14, [(exp14, None)]), (lc, toks15, [(exp15, None)]),
                        (ac, toks16, [(exp16, None)]), (ac, toks17, [(exp17, None)])):
        argv = [b"p"] + toks
        base = gen_cmd.cmd_sx(c)
        body = base[:-1] + " (x-expect %s %s))" % (guard(base, argv), expect_sx(lv))
        out.append("(parse %s (argv%s))" % (body, "".join(" " + hexs(t) for t in argv)))
    return out


# ----------------------------------------------------------------------------- oracles
def read_expect(case):
    """-> (levels, guard ok?) or None when the case carries no expectation"""
    sx = sx_parse(case)
    items = sx[1][1:]
    ex = [it for it in items if isinstance(it, list) and it and it[0] == "x-expect"]
    if not ex:
        return None
    ex = ex[0]
    rest = [it for it in items if not (isinstance(it, list) and it and it[0] == "x-expect")]
    from ..core import sx_str
    base = sx_str(["cmd"] + rest)
    argv = [unhex(t) for t in sx[2][1:]]
    if guard(base, argv) != ex[1]:
        return None          # the shrinker changed the command or the line: the expectation no longer applies
    lv = []
    for l in ex[2:]:
        sub = None if l[1] == "-" else unhex(l[1])
        ents = collections.OrderedDict()
        for e in l[2:]:
            ents[unhex(e[0])] = {"idx": [int(k) for k in e[1]], "occ": [[unhex(v) for v in g] for g in e[2]]}
        lv.append((ents, sub))
    return lv


def oracle_unparse(case, impl):
    exp = read_expect(case)
    if exp is None:
        return oracle_generic(case, impl)
    p = parse_result(impl)
    if p["kind"] in ("panic", "abort", "invalid", "other"):
        return None       # C01's business / malformed
    if p["kind"] == "err":
        if p["ekind"] in ("DisplayHelp", "DisplayVersion"):
            return None
        return "a line rendered from a well-formed invocation of a conventional command was rejected: %s" % p["ekind"]
    got = levels(p["m"])
    if len(got) != len(exp):
        return "subcommand chain has %d levels, the invocation names %d" % (len(got), len(exp))
    for d, ((ents, sub), (eexp, esub)) in enumerate(zip(got, exp)):
        if sub != esub:
            return "level %d: reported subcommand %r, the command line names %r" % (d, sub, esub)
        gmap = {e["id"]: e for e in ents}
        for i, e in eexp.items():
            g = gmap.get(i)
            if g is None:
                return "level %d: argument %r was given on the command line but is not in the matches" % (d, i)
            if g["src"] != "cmdline":
                return "level %d: argument %r given on the command line is reported with source %s" % (d, i, g["src"])
            if g["occ"] != e["occ"]:
                return "level %d: raw occurrences of %r are %r, the command line gives %r" % (d, i, g["occ"], e["occ"])
            if g["idx"] != e["idx"]:
                return "level %d: indices of %r are %r, the documented rule gives %r" % (d, i, g["idx"], e["idx"])
        for e in ents:
            if e["id"] not in eexp and e["src"] == "cmdline":
                return "level %d: %r is reported as given on the command line but the invocation does not contain it" % (d, e["id"])
    return oracle_generic(case, impl)


def spec_levels(cmd, got):
    """the command definitions along the reported chain (None below an external subcommand)"""
    out = [cmd]
    cur = cmd
    for ents, sub in got[:-1]:
        nxt = [s for s in cur["subs"] if s["name"] == sub] if cur else []
        cur = nxt[0] if nxt else None
        out.append(cur)
    return out


def oracle_generic(case, impl):
    """index discipline and provenance on any successful parse"""
    p = parse_result(impl)
    if p["kind"] != "ok":
        return None
    cmd, argv = decode_case(case)
    got = levels(p["m"])
    defs = spec_levels(cmd, got)
    multi = len(got) > 1
    toks = argv
    # ids of global arguments anywhere on the chain: their values are copied between levels after parsing
    # (also into levels above the defining command) and keep the numbering of the level that parsed them
    global_ids = set()
    for cdef in defs:
        if cdef is not None:
            for a in cdef["args"]:
                if "global" in a["flags"]:
                    global_ids.add(a["id"])
    for d, ((ents, sub), cdef) in enumerate(zip(got, defs)):
        seen = {}
        for e in ents:
            if e["src"] == "?":
                continue
            if cdef is not None and any(g["id"] == e["id"] for g in cdef["groups"]):
                continue      # a group's "values" are the ids of its members, it has no indices
            if cdef is not None and e["id"] != b"" and not any(a["id"] == e["id"] for a in cdef["args"]) \
                    and e["id"] not in (b"help", b"version"):
                continue      # e.g. a group created by Arg::group, or an id of another level
            if multi and (cdef is None or e["id"] in global_ids or not any(a["id"] == e["id"] for a in cdef["args"])):
                continue      # values propagated between levels keep the numbering of the level that parsed them
            ix = e["idx"]
            if any(b <= a for a, b in zip(ix, ix[1:])):
                return "level %d: indices of %r are not strictly increasing: %r" % (d, e["id"], ix)
            for k in ix:
                if k in seen:
                    return "level %d: index %d is reported for both %r and %r" % (d, k, seen[k], e["id"])
                seen[k] = e["id"]
            nvals = sum(len(g) for g in e["occ"])
            if e["src"] == "cmdline" and cdef is not None and len(ix) != nvals:
                return "level %d: %r has %d values but %d indices" % (d, e["id"], nvals, len(ix))
            if e["src"] == "cmdline" and cdef is not None:
                a = [a for a in cdef["args"] if a["id"] == e["id"]]
                if a and a[0].get("action") in (None, "set", "append") and e["id"] != b"":
                    a = a[0]
                    extra = list(a.get("dmissing", []))
                    for g in e["occ"]:
                        for v in g:
                            if not any(v in t for t in toks) and not any(v in x for x in extra):
                                return "level %d: value %r of %r occurs in no command-line token (invented)" % (d, v, e["id"])
    return None


def nontrivial(case, impl):
    p = parse_result(impl)
    if p["kind"] != "ok":
        return False
    return any(e["src"] == "cmdline" and e["occ"] for ents, _ in levels(p["m"]) for e in ents)


def project(r):
    """the property speaks about successful parses: the whole reported matches; which error a rejected
    line gets is the business of C10"""
    p = parse_result(r)
    if p["kind"] == "err":
        return "help-or-version" if p["ekind"].split("|")[0] in ("DisplayHelp", "DisplayVersion") else "err"
    if p["kind"] == "panic":
        return "panic"
    return r


def freeze(stats):
    return dict(sorted(stats.items()))


def streams(tier, rng):
    big = tier == "thorough"
    stats = collections.Counter()
    unp = gen_unparse(rng, 60000 if big else 6000, stats)
    rand = gen_cases(rng, 40000 if big else 4000, {"depth": 3} if big else None)
    conv = gen_cases(rng, 20000 if big else 2000, dict(gen_cmd.CONVENTIONAL, delims=0.5, aliases=0.5), p_mutate=0.15, safe_p=0.9)
    adv = gen_cases(rng, 20000 if big else 2000, {"hyphen": 0.3, "flag_subs": 0.5, "low_index": 0.2, "terminators": 0.3,
                                                  "require_equals": 0.3, "last": 0.3, "tva": 0.25, "delims": 0.5},
                    p_mutate=0.3, safe_p=0.7)
    tstats = collections.Counter()
    tails = gen_tails(rng, 20000 if big else 2000, tstats)
    return [
        Stream("unparse", unp, oracle=oracle_unparse, area="parse", project=project, nontrivial=nontrivial,
               describe={"spellings": freeze(stats)}),
        Stream("unparse_tails", tails, oracle=oracle_unparse, area="parse", project=project, nontrivial=nontrivial,
               describe={"shapes": freeze(tstats)}),
        Stream("conventional", conv, oracle=oracle_generic, area="parse", project=project, nontrivial=nontrivial),
        Stream("random", rand, oracle=oracle_generic, area="parse", project=project, nontrivial=nontrivial),
        Stream("adversarial", adv, oracle=oracle_generic, area="parse", project=project, nontrivial=nontrivial),
    ]


def classify_known(stream, case, impl, failure):
    return None
