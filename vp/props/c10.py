"""C10: rejections are justified, correctly classified, and carry the CLI exit contract.

Streams (every random choice from the rng handed in by the runner):
  kinds      sweep of every ErrorKind variant named in error/kind.rs through Command::error / Error::raw /
             Error::new: stream and exit code (model: Parse/Errors.v table)
  faultfree  conventional commands x lines rendered from invocations that satisfy every rule python can
             check (counts, value languages, required, conflicts, requires, groups, no token ambiguity):
             must not be rejected
  fault      the same lines with ONE known fault: the kind must lie in the admissible set of that fault
  helpver    the same lines with one help/version request: DisplayHelp/DisplayVersion, stdout, 0
  random     general (also non-conventional) commands x mutated/malformed lines: exit contract
  sugg       near-miss tokens (typos of longs, subcommand names, possible values): every suggestion
             found in the error context names something that is defined where the suggestion says
  dym/flag   did_you_mean / did_you_mean_flag observed through the error context against the Coq model
             instantiated with exact jaro similarities
"""
import collections
import hashlib
import os
import re
from fractions import Fraction

from .. import gen_cmd
from ..core import hexs, unhex, sx_parse
from ..parse_streams import gen_cases, decode_case, parse_result
from ..runner import Stream

ID = "C10"
AREAS = ["parse", "errors"]
RULE = ("kinds: the variant list of enum ErrorKind read from kind.rs.  faultfree/fault/helpver: conventional command "
        "trees (depth <= 2; flags, counters, Set/Append options with value ranges 1, 2..2, 1..3, 2..3, 0..1, 1.., "
        "ranged i64 parsers, required/conflicts/requires/groups, positionals with a multiple last one, "
        "subcommand_required) x lines rendered from an invocation satisfying every rule, then either unchanged "
        "(fault-free), or with exactly one fault of a known type (unknown long/short/word, required argument "
        "deleted, requirement of a present argument deleted, conflicting argument added, non-repeatable argument "
        "repeated, one value too few / none / too many, value outside the integer range or not a number, required "
        "subcommand dropped), or with one help/version request; plus (gen_chain) 3-5 one-value options with a "
        "`requires` chain of 2-3 arguments and `requires_if` rules on the arguments BEHIND the root of the chain x "
        "lines over the values {v,w,z} (the rule's value on the root only / the carrier only / both / neither), "
        "classified fault-free or MissingRequiredArgument from the documented reading of requires_if ('if THIS "
        "argument has the value').  random: vp/gen_cmd.py trees with every feature x "
        "mutated lines.  sugg/dym/flag: near-miss spellings at edit distance 1-2 of defined names.  A case is "
        "non-trivial when the configuration is accepted and (fault streams) the line is rejected / (faultfree) "
        "has at least two tokens after the program name; distinct = distinct case text.")
TRUSTED = [
    "Coq 8.16.1 kernel (coqc); no native_compute; theorems C10_* are 'Closed under the global context'",
    "extraction: ExtrOcamlBasic only, no Extract Constant; OCaml drivers ocaml/parse_driver.ml, ocaml/errors_driver.ml "
    "(+ common_parse/{spec,show}.ml, zarith conversions)",
    "translators/tables.py gen_error_tables: regex reading of enum ErrorKind, Error::stream/use_stderr/exit_code, "
    "USAGE_CODE/SUCCESS_CODE (fails loudly on an unknown shape)",
    "translators/builder_tables.py gen_settings_tables: regex reading of enum AppSettings / AppFlags, the four "
    "setting helpers, every bool setter, Command::is_set, _propagate_subcommand, the settings block of _build_self, the "
    "tail of _check_help_and_version, and of the two spec readers of this framework (ocaml/common_parse/spec.ml "
    "apply_setting, harness/src/modes/parse.rs); exits non-zero naming the construct on an unknown shape",
    "correspondence: vp/props/c10.py generators and fault annotations, harness/src/modes/{parse,c10}.rs, comparison of "
    "the projection (ok | kind class, stream, exit code)",
    "strsim::jaro is not modelled: Errors/Suggest.v is parametric in the similarity; the dym/flag streams feed the model "
    "exact rational jaro values computed by vp/props/c10.py (cases within 1e-9 of the 0.7 threshold or with "
    "near-equal scores are dropped and counted)",
    "the choice between InvalidSubcommand and UnknownArgument in match_arg_error depends on jaro suggestions: the "
    "projection merges the two kinds into one class; the python oracle tells them apart per fault type",
]
ASSUMPTIONS = [
    "built-in value parsers only; the parser model's vp_parse (String, OsString, bool, u8 counter, ranged i64)",
    "Error::print/exit are not executed (they would terminate the harness); stream and exit code are read through "
    "Error::use_stderr and Error::exit_code, which print()/exit() consult",
    "a faulty line that is *accepted* is not a violation of C10's text (it speaks about rejections); it shows as a "
    "model/implementation difference",
]
TECHNIQUE = ("Coq proof (exit contract over the variant table regenerated from the source; whole-parse soundness of "
             "every error kind for class plain by one invariant-carrying traversal of the parser model "
             "(ParseProofs/KindSound.v) on top of the per-site soundness/completeness theorems; suggestions subset "
             "theorems for every similarity function; fourth pass: no-spurious-rejection as an independent theorem -- "
             "declarative rules on the denotation of a rendered invocation, success of the fold of react by an invariant "
             "(ParseProofs/NoSpurious*.v), composed with C02's un-parser theorem, C06's defaults frame and C03's validator "
             "completeness; round 5: AppSettings tables regenerated from the source and from the two spec readers, the "
             "model's propagation / build functions proved equal to the interpretation of those tables) "
             "+ extracted-model/implementation correspondence + python fault oracle")
LEVEL_TEXT = ("Machine-checked theorems (Coq 8.16, closed under the global context): the kind -> stream -> exit-code "
              "table of the model equals the table regenerated from error/kind.rs, error/mod.rs and util/mod.rs on every "
              "run and satisfies the exit contract for all variants; verify_num_args rejects exactly the counts outside "
              "the declared range with the kind that says how; value errors arise exactly for values outside the parser's "
              "language; did_you_mean / did_you_mean_flag and their three call sites only name defined things, for every "
              "similarity function.  Round 2: C10_kind_sound -- for every valid definition of class plain (no short "
              "flag subcommands) and EVERY argv, parse_top = Err e implies Breaks c0 argv e: at some level of the "
              "subcommand chain (built subcommand, tail of the line) the rule named by the kind is broken -- "
              "MissingRequiredArgument: a matcher whose explicit entries are all accounted for by tokens of the line / "
              "declared environment values (faithful) lacks an id that a declaratively stated requirement rule "
              "(rule_requires / req_by, no validator tables) asks for -- and (C10_requirement_set_exact, after the repair "
              "of Command::unroll_arg_requires) the validator's requirement set IS the set of ids demanded by that rule, "
              "both inclusions, for every command and matcher: requires/requires_if rules of an explicitly present "
              "argument that hold of its own occurrence, closed under unconditional requires (C10_req_by_is_C03_ReqBy: "
              "the same relation as C03's); C10_requires_if_chain_before_fix / _fixed: the pre-repair function demanded "
              "y for `--aa v --bb w` under a.requires(b), b.requires_if(v,y), the repaired model accepts that line; "
              "ArgumentConflict: two accounted-for ids with a "
              "declared conflict (C03's `declares`), an exclusive argument beside another, a repeated non-overriding Set "
              "argument, or a word/subcommand under args_conflicts_with_subcommands; TooMany/TooFew/WrongNumberOfValues: "
              "an argument named by a token of the line whose occurrence (values = pieces of tokens) has a count outside "
              "the declared range, or a value attached to a flag; NoEquals: the named token lacks `=`; InvalidValue / "
              "ValueValidation / InvalidUtf8: a value of known origin outside the value parser's language (C04 "
              "vocabulary), an empty value, or a non-UTF-8 external subcommand; unknown-token kinds, help/version and "
              "the two validator kinds likewise.  Proved through a loop invariant (C10_loop_invariant: every loop and "
              "matcher state) lifted over the subcommand recursion (C10_level_sites); C10_accepted_faithful: the explicit "
              "entries of an accepted level are accounted for by the line/environment; C10_unbroken_accepted: a line for "
              "which no error is justified is accepted (contrapositive joined with C01 totality).  Fourth pass: "
              "C10_no_spurious_reject as an INDEPENDENT statement -- for every valid definition and every rendered invocation "
              "tree of C02's lifted class (wfx_inv: exact keys, flags, clusters, all option spellings incl. require_equals, "
              "terminators, hyphen/negative-number option values, delimiters, positional runs, subcommand trees, globals) "
              "whose levels declare no environment values (lvl_class), if at every level (a) every occurrence's value count is "
              "inside the argument's range, (b) every stored value (pieces at the delimiter = C14 SplitSpec, default-missing "
              "values, flag literals) is in the parser language in_lang, (h) the action stores, (d) no Set-like argument "
              "without self-override occurs while C07's fold still holds it, (e) declared defaults are in the language, and "
              "(c) EVERY matcher that reports the denotation (per argument the groups of C07's fold, explicit, with the "
              "argument's ignore_case flag; a group id only if a member occurred) satisfies C03's declarative Relations and "
              "the level is not subcommand_required / empty under arg_required_else_help, then parse_top (bin :: render_inv i) "
              "= Ok (C10_no_spurious_reject; per level C10_level_accepted, per occurrence C10_occurrence_accepted; the matcher "
              "a level ends in reports its denotation: C10_final_matcher_reports).  No parser function occurs in a rule.  "
              "Converse: a rejected rendered line breaks a rule (C10_rejected_breaks_rule) and the kind says which side: if "
              "(a)(b)(d)(h)(e) hold everywhere the error has a validator kind, i.e. names (c) (C10_rejection_names_relations); "
              "for one occurrence a count kind means not (a), ArgumentConflict a stored non-self-overriding Set-like argument "
              "(not (d)), a value kind not (b), DisplayHelp/Version not (h) (C10_occurrence_rejection_names_rule).  "
              "On levels without groups rule (c) is decided by the validator's answer on the denotation's matcher "
              "(C10_relations_read, C10_reports_determine, C10_relations_rule_decide/_refute).  Non-vacuity "
              "(`prog --req A -n 300 -vv --mu a,b c -x F run --key=K`) and one necessity witness per rule (the named rule "
              "fails, the others hold, rejected with the kind that names it: C10_rule_*_necessary); the nine lines are corpus "
              "cases, so the crate answers as the theorems state on every run.  Round 5 (tie by translation; which settings are "
              "global decides e.g. whether an inferred long prefix or a repeated Set argument in a subcommand is rejected): "
              "Gen/SettingsTables.v is regenerated on every run; for every setter name of a case file the model-side reader "
              "does to the model command exactly what the source's Command::<name>(true) does -- same AppSettings variant, "
              "same AppFlags records (settings only, or settings and g_settings) -- for every command, and the harness "
              "calls the method of that name (C10_settings_reader_matches_source); the source's setters the model does not "
              "represent are exactly a listed set (C10_settings_unmodelled: a new setter breaks it); propagate_subcommand IS "
              "the table's function (C10_settings_propagate_table); per setting one propagation step is `is_set below = "
              "is_set below || in the parent's global record`, and the global record is handed on (C10_propagate_is_set); "
              "a setter routed through global_setting holds at EVERY level of any chain below the command it was called "
              "on, one routed through setting changes nothing below (C10_global_setter_reaches_every_level, "
              "C10_local_setter_stays), and in the real build order -- build_self, then build_subcommand to any depth, for every unbuilt "
              "tree without short-flag subcommands -- every global setting except PropagateVersion (which the generated help "
              "subcommand clears) is set at every level (C10_global_setting_set_at_every_built_level, "
              "C10_global_setter_set_at_every_built_level); the settings block of _build_self (multicall excluded) and the finishing of the "
              "generated help subcommand are the table's functions (C10_build_self_settings_table, "
              "C10_help_subcommand_table).  The model is tied to "
              "clap_builder by running extracted model and real crate on the same generated cases on every check; an "
              "independent python oracle (fault annotations, exit contract, existence of suggested names) runs on the "
              "implementation's output alone.")
LEVEL_NOTE = ("Trusted: Coq kernel, extraction, OCaml drivers, Rust harness, generators, table translator; strsim::jaro "
              "not modelled (parametric theorems).  Not proved: the converse inclusion (every argument named by a token has "
              "an explicit entry -- false as stated: overrides remove entries, a token that names an argument can be a value "
              "of another); no-spurious-rejection outside C02's lifted class or with environment values, values after `--`, "
              "and the decision of rule (c) on levels with groups (the rule itself is stated for every graph) stay with the "
              "faultfree stream; by-kind attribution among the occurrence rules at parse_top level is C10_kind_sound's; "
              "commands with short flag subcommands (outside class plain; C01 finding).")

HELPVER = ("DisplayHelp", "DisplayVersion")
KIND_RS = os.path.join(os.environ.get("VERIF_REPO", "/repo"), "clap_builder/src/error/kind.rs")


# =============================================================================== exit contract (a)
def contract_violation(kind, stream, code):
    """property text: help and version requests are the only outcomes that use stdout and exit code 0;
    every other error uses stderr and exit code 2"""
    if kind in HELPVER:
        if (stream, str(code)) != ("stdout", "0"):
            return "%s must use stdout and exit code 0, got %s/%s" % (kind, stream, code)
    elif (stream, str(code)) != ("stderr", "2"):
        return "%s must use stderr and exit code 2, got %s/%s" % (kind, stream, code)
    return None


def source_kind_names():
    src = open(KIND_RS, encoding="utf-8").read()
    m = re.search(r"pub\s+enum\s+ErrorKind\s*\{(.*?)\n\}", src, re.S)
    body = re.sub(r"//[^\n]*", "", m.group(1))
    body = re.sub(r"#\[[^\]]*\]", "", body)
    return [v.strip() for v in body.split(",") if v.strip()]


def kinds_oracle(case, impl):
    names = sx_parse(case)[1:]
    got = re.findall(r"\(([^()]*)\)", impl or "")
    if len(got) != len(names):
        return "kind sweep returned %d entries for %d variants: %s" % (len(got), len(names), (impl or "")[:200])
    for n, g in zip(names, got):
        p = g.split(" ")
        if p[0] != n or len(p) != 3:
            return "variant %s: the harness could not sweep it (%s)" % (n, g)
        v = contract_violation(n, p[1], p[2])
        if v:
            return v
    return None


def gen_kinds(rng):
    names = source_kind_names()
    cases = ["(c10-kinds %s)" % " ".join(names)]
    for _ in range(3):
        sub = [n for n in names if rng.random() < 0.5] or names[:1]
        rng.shuffle(sub)
        cases.append("(c10-kinds %s)" % " ".join(sub))
    return cases


# =============================================================================== conventional commands
C_LONGS = ["alpha", "beta", "gamma", "delta", "opt", "out", "color", "level", "count", "name", "file", "mode",
           "depth", "force", "quiet", "input", "output", "alp", "colour"]
C_SHORTS = "abcdefgijklmnopqrstuwxyz"
C_SUBS = ["sub", "run", "test", "add", "build", "bench", "clean", "list"]
C_SUB_ALIASES = ["sb", "rn", "tst", "ad", "bld", "bn", "cl", "ls"]
C_VALS = [b"v", b"w", b"x1", b"zz", b"1", b"0", b"3", b"val", b"v=w", b"a.b", b"7"]
NUMS = [None, None, None, (2, 2), (1, 3), (2, 3), (0, 1), (1, None), (3, 3)]
I64 = ("i64", -5, 300)


def pick(rng, seq):
    return seq[rng.randrange(len(seq))]


def chance(rng, p):
    return rng.random() < p


def gen_level(rng, path, depth, with_pv=False):
    c = {"name": path.split("/")[-1].encode(), "about": ("A:" + path).encode(), "args": [], "groups": [], "subs": [],
         "settings": [], "aliases": []}
    if chance(rng, 0.5) and depth == 0:
        c["version"] = b"1.0"
    longs, shorts = {"help", "version"}, {"h", "V"}

    def fresh(pool, used):
        for _ in range(30):
            x = pick(rng, pool)
            if x not in used:
                used.add(x)
                return x
        return None
    for k in range(rng.randrange(1, 6)):
        a = {"id": ("o%d" % k).encode(), "flags": set()}
        r = rng.random()
        sh = fresh(C_SHORTS, shorts) if r < 0.7 else None
        lo = fresh(C_LONGS, longs) if (r > 0.3 or sh is None) else None
        if sh is None and lo is None:
            continue
        a["short"], a["long"] = sh, (lo.encode() if lo else None)
        if lo and chance(rng, 0.25):
            al = fresh(C_LONGS, longs)
            if al:
                a["aliases"] = [(al.encode(), chance(rng, 0.5))]
        if sh and chance(rng, 0.15):
            sa = fresh(C_SHORTS, shorts)
            if sa:
                a["saliases"] = [(sa, chance(rng, 0.5))]
        kind = rng.random()
        if kind < 0.25:
            a["action"] = "settrue"
        elif kind < 0.35:
            a["action"] = "count"
        else:
            a["action"] = "append" if chance(rng, 0.35) else "set"
            a["num"] = pick(rng, NUMS)
            if a["num"] is None:
                del a["num"]
            if chance(rng, 0.3):
                a["vp"] = I64
            elif with_pv and chance(rng, 0.5) and a.get("num") in (None, (1, 3)):
                a["pv"] = [(b"fast", False), (b"slow", False), (b"faster", False), (b"secret", True)][:rng.randrange(2, 5)]
                # aliases of possible values are in the parser's language like the names, under ignore_case in any letter
                # case (PossibleValue::matches; seeded change seed3/C10-2 compared aliases exactly)
                if chance(rng, 0.5):
                    a["pv_alias"] = {b"fast": b"quick"} if chance(rng, 0.5) else {b"slow": b"lazy", b"fast": b"quick"}
                if chance(rng, 0.5):
                    a["flags"].add("icase")
        if chance(rng, 0.06):
            a["flags"].add("hide")
        c["args"].append(a)
    npos = rng.randrange(0, 4)
    req_upto = rng.randrange(0, npos + 1) if chance(rng, 0.6) else 0
    for k in range(npos):
        a = {"id": ("p%d" % k).encode(), "flags": set()}
        if k < req_upto:
            a["flags"].add("required")
        if k == npos - 1 and chance(rng, 0.5):
            a["num"] = pick(rng, [(1, 3), (2, 2), (1, None), (2, 3)])
        elif k == npos - 1 and chance(rng, 0.3):
            a["action"] = "append"      # one value per occurrence, any number of adjacent occurrences
        if chance(rng, 0.25):
            a["vp"] = I64
        if with_pv and chance(rng, 0.2):
            al = fresh(C_LONGS, longs)      # legal, and inert: not a key of the command
            if al:
                a["aliases"] = [(al.encode(), chance(rng, 0.5))]
        c["args"].append(a)
    # relations among options
    opts = [a for a in c["args"] if is_opt(a)]
    for a in opts:
        if chance(rng, 0.2):
            a["flags"].add("required")
    free = [a for a in opts if "required" not in a["flags"]]
    if len(free) >= 2 and chance(rng, 0.6):
        for _ in range(rng.randrange(1, 3)):
            a, b = rng.sample(free, 2)
            a.setdefault("conflicts", [])
            if b["id"] not in a["conflicts"]:
                a["conflicts"].append(b["id"])
    if len(opts) >= 2 and chance(rng, 0.5):
        a, b = rng.sample(opts, 2)
        if b["id"] not in a.get("conflicts", []) and a["id"] not in b.get("conflicts", []):
            a["requires"] = [b["id"]]
    if len(free) >= 2 and chance(rng, 0.35):
        members = rng.sample(free, min(len(free), rng.randrange(2, 4)))
        g = {"id": b"g0", "args": [m["id"] for m in members]}
        if chance(rng, 0.4):
            g["required"] = True
        if chance(rng, 0.3):
            g["multiple"] = True
        c["groups"].append(g)
    if depth < 1 and chance(rng, 0.6) or depth == 1 and chance(rng, 0.15):
        names = {"help"}
        for _ in range(rng.randrange(1, 3)):
            i = rng.randrange(len(C_SUBS))
            if C_SUBS[i] in names:
                continue
            names.add(C_SUBS[i])
            s = gen_level(rng, path + "/" + C_SUBS[i], depth + 1, with_pv)
            if chance(rng, 0.4) and C_SUB_ALIASES[i] not in names:
                names.add(C_SUB_ALIASES[i])
                s["aliases"] = [(C_SUB_ALIASES[i].encode(), chance(rng, 0.5))]
            c["subs"].append(s)
        if c["subs"] and chance(rng, 0.2):
            c["settings"].append("subcommand_required")
    return c


def is_opt(a):
    return bool(a.get("short") or a.get("long"))


def num_of(a):
    if a.get("action") in ("settrue", "count"):
        return (0, 0)
    return a["num"] if a.get("num") is not None else (1, 1)


def is_multi_pos(a):
    lo, hi = num_of(a)
    return (not is_opt(a)) and (hi is None or hi > 1 or a.get("action") == "append")


def is_append_single_pos(a):
    return (not is_opt(a)) and a.get("action") == "append" and num_of(a) == (1, 1)


def rules_ok(c, present):
    """every relation rule of the level holds for the set of explicitly present ids"""
    byid = {a["id"]: a for a in c["args"]}
    for a in c["args"]:
        if "required" in a["flags"] and a["id"] not in present:
            return False
    for i in present:
        a = byid[i]
        for o in a.get("conflicts", []):
            if o in present:
                return False
        for o in a.get("requires", []):
            if o not in present:
                return False
    for g in c["groups"]:
        n = len([m for m in g["args"] if m in present])
        if not g.get("multiple") and n > 1:
            return False
        if g.get("required") and n == 0:
            return False
    return True


def good_value(rng, a):
    if a.get("vp") == I64:
        return pick(rng, [b"1", b"0", b"300", b"7", b"42", b"299"])
    if a.get("pv"):
        return pick(rng, [n for n, hid in a["pv"]] + sorted(a.get("pv_alias", {}).values()))
    return pick(rng, C_VALS)


def names_of(a):
    out = []
    if a.get("long"):
        out.append(b"--" + a["long"])
    for n, _ in a.get("aliases", []):
        out.append(b"--" + n)
    if a.get("short"):
        out.append(b"-" + a["short"].encode())
    for n, _ in a.get("saliases", []):
        out.append(b"-" + n.encode())
    return out


def render_occurrence(rng, a, closed=False, k=None):
    """one occurrence of option a -> item dict (toks, open)"""
    name = pick(rng, names_of(a))
    lo, hi = num_of(a)
    if hi == 0:
        return {"kind": "opt", "arg": a, "toks": [name], "open": False, "k": 0, "attached": False}
    if k is None:
        choices = [lo, max(lo, 1), hi if hi is not None else lo + 2, hi if hi is not None else max(lo, 1)]
        k = pick(rng, choices)
    if closed:
        if hi is None:
            k = 1 if lo <= 1 else k
        else:
            k = hi
    vals = [good_value(rng, a) for _ in range(k)]
    attached = False
    toks = [name] + vals
    if k == 1 and lo <= 1 and (chance(rng, 0.45) or (closed and hi is None)):
        attached = True
        v = vals[0]
        if a.get("vp") == I64 and chance(rng, 0.3):
            v = pick(rng, [b"-5", b"-1", b"-3"])
        if name.startswith(b"--"):
            toks = [name + b"=" + v]
        else:
            toks = [name + (b"=" if chance(rng, 0.4) or v.startswith(b"-") or v[:1].isalpha() and False else b"") + v]
            if not toks[0][2:3] == b"=" and v.startswith(b"-"):
                toks = [name + b"=" + v]
    is_open = (not attached) and (hi is None or k < hi)
    return {"kind": "opt", "arg": a, "toks": toks, "open": is_open, "k": k, "attached": attached}


def follows_ok(seq):
    for i, it in enumerate(seq[:-1]):
        if it["open"] and seq[i + 1]["kind"] != "opt":
            return False
    return True


def gen_invocation(rng, c, force_closed=False):
    """-> list of levels [(cmd, seq)], seq = items (opt / pos / sub); None if no rule-satisfying set was found"""
    opts = [a for a in c["args"] if is_opt(a)]
    pos = [a for a in c["args"] if not is_opt(a)]
    present = None
    for _ in range(60):
        s = {a["id"] for a in opts if chance(rng, 0.45) or "required" in a["flags"]}
        npos = 0
        for a in pos:
            if "required" in a["flags"] or chance(rng, 0.65):
                npos += 1
            else:
                break
        s |= {a["id"] for a in pos[:npos]}
        # close under requires
        for _ in range(4):
            for a in c["args"]:
                if a["id"] in s:
                    s |= set(a.get("requires", []))
        # a required id may be a positional beyond npos: keep positional prefix shape
        ppres = [a["id"] in s for a in pos]
        if any(ppres[i + 1] and not ppres[i] for i in range(len(pos) - 1)):
            continue
        if rules_ok(c, s):
            present = s
            break
    if present is None:
        return None
    sub = None
    if c["subs"] and ("subcommand_required" in c["settings"] or chance(rng, 0.5)):
        sub = pick(rng, c["subs"])
    for attempt in range(40):
        closed = force_closed or attempt >= 25
        items = []
        for a in opts:
            if a["id"] not in present:
                continue
            reps = 1
            if a.get("action") in ("append", "count"):
                reps = pick(rng, [1, 1, 2, 3])
            for _ in range(reps):
                items.append(render_occurrence(rng, a, closed=closed))
        seq = []
        for a in pos:
            if a["id"] not in present:
                continue
            lo, hi = num_of(a)
            k = 1 if not is_multi_pos(a) else pick(rng, [lo, lo, hi if hi is not None else lo + 2, min(lo + 1, hi or lo + 1)])
            if is_append_single_pos(a):
                k = pick(rng, [1, 2, 3])
            seq.append({"kind": "pos", "arg": a, "toks": [good_value(rng, a) for _ in range(k)],
                        "open": is_multi_pos(a), "k": k, "attached": False})
        for it in items:
            seq.insert(rng.randrange(len(seq) + 1), it)
        if sub is not None:
            names = [sub["name"]] + [n for n, _ in sub.get("aliases", [])]
            seq.append({"kind": "sub", "sub": sub, "toks": [pick(rng, names)], "open": False})
        if follows_ok(seq):
            if sub is None:
                return [(c, seq)]
            rest = gen_invocation(rng, sub, force_closed)
            if rest is None:
                return None
            return [(c, seq)] + rest
    if sub is not None and "subcommand_required" not in c["settings"]:
        # drop the subcommand and try once more without it
        c2 = dict(c)
        c2["subs"] = []
        r = gen_invocation(rng, c2, force_closed=True)
        if r is not None:
            return [(c, r[0][1])]
    return None


def argv_of(levels):
    toks = [b"prog"]
    for _, seq in levels:
        for it in seq:
            toks += it["toks"]
    return toks


def annotate(case_text, kinds, fault, at=()):
    """self-describing case: the admissible kinds, the fault type and the chain of subcommand names of the
    level the fault sits in, guarded by a checksum of the rest of the case (a shrunk or edited case no longer
    matches and the annotation is ignored)."""
    h = hashlib.sha1(case_text.encode()).hexdigest()[:12]
    ann = " (x-expect (kinds %s) (fault %s) (at%s) (sum %s))" % (
        " ".join(kinds), fault, "".join(" " + hexs(n) for n in at), h)
    i = case_text.rindex(") (argv")
    return case_text[:i] + ann + case_text[i:]


ANN_RE = re.compile(r" \(x-expect \(kinds ([^()]*)\) \(fault ([^()]*)\) \(at([^()]*)\) \(sum (\w+)\)\)")


def annotation(case):
    m = ANN_RE.search(case)
    if not m:
        return None
    plain = case[:m.start()] + case[m.end():]
    if hashlib.sha1(plain.encode()).hexdigest()[:12] != m.group(4):
        return None
    return {"kinds": m.group(1).split(), "fault": m.group(2), "at": [unhex(x) for x in m.group(3).split()],
            "plain": plain}


def cmd_sx_pv(c):
    """gen_cmd.cmd_sx plus the `x-pv` extension item for possible values"""
    s = gen_cmd.cmd_sx(c)
    return s


def case_of(root, argv, mode="parse"):
    return gen_cmd.case_sx(root, argv, mode=mode)


# ------------------------------------------------------------------------------- faults
COUNT_KINDS_FEW = ["TooFewValues", "WrongNumberOfValues"]
COUNT_KINDS_NONE = ["InvalidValue", "TooFewValues", "WrongNumberOfValues"]
COUNT_KINDS_MANY = ["TooManyValues", "WrongNumberOfValues"]


def level_longs(c):
    out = {b"help"}
    if c.get("version") is not None:
        out.add(b"version")
    for a in c["args"]:
        if a.get("long"):
            out.add(a["long"])
        if is_opt(a):
            # (an alias declared on a POSITIONAL is no key: MKeyMap registers the position only; a suggestion naming it
            # names a flag that does not exist -- seeded change seed4/C10-2)
            for n, _ in a.get("aliases", []):
                out.add(n)
    return out


def level_shorts(c):
    out = {"h", "V"}
    for a in c["args"]:
        if a.get("short"):
            out.add(a["short"])
        for n, _ in a.get("saliases", []):
            out.add(n)
    return out


def level_subnames(c):
    out = set()
    for s in c["subs"]:
        out.add(s["name"])
        for n, _ in s.get("aliases", []):
            out.add(n)
    if c["subs"]:
        out.add(b"help")
    return out


def typo(rng, w):
    w = bytearray(w)
    k = rng.randrange(4)
    if k == 0 and len(w) > 2:
        del w[rng.randrange(len(w))]
    elif k == 1:
        w[rng.randrange(len(w))] = ord(pick(rng, "abcdefghijklmnopqrstuvwxyz"))
    elif k == 2 and len(w) >= 2:
        i = rng.randrange(len(w) - 1)
        w[i], w[i + 1] = w[i + 1], w[i]
    else:
        w.insert(rng.randrange(len(w) + 1), ord(pick(rng, "abcdefghijklmnopqrstuvwxyz")))
    return bytes(w)


def boundaries(seq):
    """insertion points of a level: before item i (0..n), never after the subcommand token"""
    n = len(seq) - (1 if seq and seq[-1]["kind"] == "sub" else 0)
    return list(range(n + 1))


def with_level(levels, li, newseq):
    out = list(levels)
    out[li] = (levels[li][0], newseq)
    return out


def chain(levels, li):
    return [levels[i][0]["name"] for i in range(1, li + 1)]


def raw_item(toks, is_open=False):
    return {"kind": "opt", "arg": None, "toks": toks, "open": is_open, "k": 0, "attached": False}


def mutate_fault(rng, levels, want=None):
    """-> (levels', fault name, admissible kinds, level index) or None"""
    faults = ["unknown_long", "unknown_short", "unknown_word", "missing_required", "missing_requirement",
              "conflict_add", "repeat_set", "too_few", "no_values", "too_many_pos", "flag_value", "bad_value",
              "missing_sub", "extra_value_opt"]
    f = want or pick(rng, faults)
    li = rng.randrange(len(levels))
    c, seq = levels[li]
    present = {it["arg"]["id"] for it in seq if it.get("arg")}
    byid = {a["id"]: a for a in c["args"]}

    def done(newseq, kinds):
        if not follows_ok(newseq):
            return None
        return with_level(levels, li, newseq), f, kinds, li

    if f == "unknown_long":
        for _ in range(10):
            base = pick(rng, sorted(level_longs(c)))
            w = typo(rng, base) if chance(rng, 0.7) else pick(rng, [b"zzunk", b"q", b"x-y"])
            if w in level_longs(c) or b"=" in w or not w or w.startswith(b"-"):
                continue
            tok = b"--" + w + (b"=v" if chance(rng, 0.2) else b"")
            i = pick(rng, boundaries(seq))
            return done(seq[:i] + [raw_item([tok])] + seq[i:], ["UnknownArgument"])
        return None
    if f == "unknown_short":
        cands = [x for x in "ZQXYKJ" + C_SHORTS if x not in level_shorts(c)]
        if not cands:
            return None
        i = pick(rng, boundaries(seq))
        return done(seq[:i] + [raw_item([b"-" + pick(rng, cands).encode()])] + seq[i:], ["UnknownArgument"])
    if f == "unknown_word":
        if seq and seq[-1]["kind"] == "sub":
            return None
        pos = [a for a in c["args"] if not is_opt(a)]
        if any(a["id"] not in present for a in pos) or any(is_multi_pos(a) for a in pos):
            return None
        if seq and seq[-1]["open"]:
            return None
        subn = level_subnames(c)
        w = None
        for _ in range(10):
            w = typo(rng, pick(rng, sorted(subn))) if subn and chance(rng, 0.7) else pick(rng, [b"zzword", b"q9", b"extra"])
            if w not in subn and w and not w.startswith(b"-"):
                break
            w = None
        if w is None:
            return None
        kinds = ["UnknownArgument", "InvalidSubcommand"] if c["subs"] else ["UnknownArgument"]
        return done(seq + [{"kind": "pos", "arg": None, "toks": [w], "open": False}], kinds)
    if f == "missing_required":
        cands = [a for a in c["args"] if a["id"] in present and "required" in a["flags"]]
        for g in c["groups"]:
            mem = [m for m in g["args"] if m in present]
            if g.get("required") and len(mem) == 1:
                cands.append(byid[mem[0]])
        lastpos = [it["arg"] for it in seq if it["kind"] == "pos"]
        cands = [a for a in cands if is_opt(a) or (lastpos and lastpos[-1] is a)]
        # deleting an argument that others require / that is the target of nothing else keeps the fault single
        if not cands:
            return None
        a = pick(rng, cands)
        return done([it for it in seq if it.get("arg") is not a], ["MissingRequiredArgument"])
    if f == "missing_requirement":
        cands = []
        for a in c["args"]:
            if a["id"] in present:
                for r in a.get("requires", []):
                    if r in present and is_opt(byid[r]):
                        cands.append(byid[r])
        if not cands:
            return None
        b = pick(rng, cands)
        return done([it for it in seq if it.get("arg") is not b], ["MissingRequiredArgument"])
    if f == "conflict_add":
        cands = []
        for a in c["args"]:
            for o in a.get("conflicts", []):
                if a["id"] in present and o not in present:
                    cands.append(byid[o])
                if o in present and a["id"] not in present:
                    cands.append(a)
        for g in c["groups"]:
            if not g.get("multiple"):
                mem = [m for m in g["args"] if m in present]
                if mem:
                    cands += [byid[m] for m in g["args"] if m not in present]
        cands = [b for b in cands if is_opt(b)]
        if not cands:
            return None
        b = pick(rng, cands)
        i = pick(rng, boundaries(seq))
        return done(seq[:i] + [render_occurrence(rng, b, closed=True)] + seq[i:], ["ArgumentConflict"])
    if f == "repeat_set":
        cands = [it for it in seq if it["kind"] == "opt" and it.get("arg") and it["arg"].get("action") in ("set", "settrue")]
        if not cands:
            return None
        it = pick(rng, cands)
        i = pick(rng, boundaries(seq))
        return done(seq[:i] + [render_occurrence(rng, it["arg"], closed=True)] + seq[i:], ["ArgumentConflict"])
    if f in ("too_few", "no_values"):
        cands = [it for it in seq if it["kind"] == "opt" and it.get("arg") and not it["attached"]
                 and num_of(it["arg"])[0] >= (2 if f == "too_few" else 1)]
        if not cands:
            return None
        it = pick(rng, cands)
        lo, hi = num_of(it["arg"])
        k = lo - 1 if f == "too_few" else 0
        new = dict(it)
        new["toks"] = it["toks"][:1 + k]
        new["k"] = k
        new["open"] = True
        i = seq.index(it)
        return done(seq[:i] + [new] + seq[i + 1:], COUNT_KINDS_FEW if f == "too_few" else COUNT_KINDS_NONE)
    if f == "too_many_pos":
        cands = [it for it in seq if it["kind"] == "pos" and it.get("arg") and is_multi_pos(it["arg"])
                 and num_of(it["arg"])[1] is not None and not is_append_single_pos(it["arg"])]
        if not cands:
            return None
        it = pick(rng, cands)
        lo, hi = num_of(it["arg"])
        new = dict(it)
        new["toks"] = [good_value(rng, it["arg"]) for _ in range(hi + 1)]
        i = seq.index(it)
        return done(seq[:i] + [new] + seq[i + 1:], COUNT_KINDS_MANY)
    if f == "too_few_pos":
        return None
    if f == "flag_value":
        cands = [a for a in c["args"] if is_opt(a) and num_of(a) == (0, 0) and a.get("long") and
                 (a["id"] not in present or a.get("action") == "count")]
        cands = [a for a in cands if rules_ok(c, present | {a["id"]})]
        if not cands:
            return None
        a = pick(rng, cands)
        i = pick(rng, boundaries(seq))
        return done(seq[:i] + [raw_item([b"--" + a["long"] + b"=v"])] + seq[i:], COUNT_KINDS_MANY)
    if f == "bad_value":
        cands = [it for it in seq if it.get("arg") and it["arg"].get("vp") == I64 and it["k"] >= 1]
        if not cands:
            return None
        it = pick(rng, cands)
        bad = pick(rng, [b"x", b"301", b"3x", b"99999999999999999999", b"+", b"1.5", b"0x1", b"3000"])
        if it["attached"] and chance(rng, 0.4):
            bad = pick(rng, [b"-6", b"-9223372036854775809", b"-", b"--5"])     # below the range / malformed sign
        new = dict(it)
        toks = list(it["toks"])
        if it["attached"]:
            t = toks[0]
            if b"=" in t:
                toks[0] = t[:t.index(b"=") + 1] + bad
            else:
                toks[0] = t[:2] + b"=" + bad
        else:
            j = rng.randrange(len(toks) - (1 if it["kind"] == "opt" else 0)) + (1 if it["kind"] == "opt" else 0)
            toks[j] = bad
        new["toks"] = toks
        i = seq.index(it)
        return done(seq[:i] + [new] + seq[i + 1:], ["ValueValidation", "InvalidValue"])
    if f == "missing_sub":
        if "subcommand_required" not in c["settings"] or not seq or seq[-1]["kind"] != "sub":
            return None
        newlevels = with_level(levels[:li + 1], li, seq[:-1])
        if not follows_ok(seq[:-1]) or (len(seq) == 1):
            # with no explicit argument at all the kind is still MissingSubcommand (no arg_required_else_help here)
            if not follows_ok(seq[:-1]):
                return None
        return newlevels, f, ["MissingSubcommand"], li
    if f == "extra_value_opt":
        # one value more than the maximum of an option: the extra token is no longer the option's
        pos = [a for a in c["args"] if not is_opt(a)]
        if pos or (seq and seq[-1]["kind"] == "sub"):
            return None
        cands = [it for it in seq if it["kind"] == "opt" and it.get("arg") and not it["attached"]
                 and num_of(it["arg"])[1] not in (None, 0) and it["k"] == num_of(it["arg"])[1]]
        if not cands:
            return None
        it = pick(rng, cands)
        new = dict(it)
        new["toks"] = it["toks"] + [pick(rng, [b"zzextra", b"v9"])]
        i = seq.index(it)
        kinds = ["UnknownArgument", "InvalidSubcommand"] if c["subs"] else ["UnknownArgument"]
        return done(seq[:i] + [new] + seq[i + 1:], kinds + ["TooManyValues", "WrongNumberOfValues"])
    return None


def mutate_helpver(rng, levels):
    li = rng.randrange(len(levels))
    c, seq = levels[li]
    opts = [(b"--help", "DisplayHelp"), (b"-h", "DisplayHelp")]
    if c.get("version") is not None:
        opts += [(b"--version", "DisplayVersion"), (b"-V", "DisplayVersion")]
    tok, kind = pick(rng, opts)
    if c["subs"] and chance(rng, 0.2) and not (seq and seq[-1]["kind"] == "sub") and not (seq and seq[-1]["open"]):
        newseq = seq + [{"kind": "sub", "toks": [b"help"], "open": False}]
        return with_level(levels[:li + 1], li, newseq), "help_subcommand", ["DisplayHelp"], li
    i = pick(rng, boundaries(seq))
    newseq = seq[:i] + [raw_item([tok])] + seq[i:]
    return with_level(levels, li, newseq), "request_" + kind, [kind], li


def gen_structured(rng, n, what):
    """what in {'faultfree','fault','helpver'} -> annotated case lines, Counter of fault types"""
    out, dist = [], collections.Counter()
    guard = 0
    while len(out) < n and guard < 40 * n + 200:
        guard += 1
        root = gen_level(rng, "p", 0)
        for _ in range(4):
            levels = gen_invocation(rng, root)
            if levels is None:
                continue
            if what == "faultfree":
                case = annotate(case_of(root, argv_of(levels)), ["ok"], "none")
                dist["none"] += 1
            else:
                r = mutate_fault(rng, levels) if what == "fault" else mutate_helpver(rng, levels)
                if r is None:
                    continue
                lv, fault, kinds, li = r
                case = annotate(case_of(root, argv_of(lv)), kinds, fault, chain(lv, li))
                dist[fault] += 1
            out.append(case)
    return out[:n], dist


def directed_faultfree():
    """Hand-written fault-free lines for grammar corners the conventional generator does not reach: a value of the LAST
    positional directly followed by a subcommand name, after a multi-valued positional (`<srcs>... <dest> <push|pull>`)
    or after an optional positional under allow_missing_positional (`[profile] <target> [run]`).  The documented reading:
    the name is the subcommand, the word before it belongs to the last positional (seeded change C10-2)."""
    def pos(i, **kw):
        a = {"id": i, "flags": set()}
        a.update(kw)
        return a

    def sub(n):
        return {"name": n, "about": b"A:" + n, "args": [{"id": b"f", "long": b"force", "action": "settrue", "flags": set()}],
                "groups": [], "subs": [], "settings": [], "aliases": []}
    out = []
    for req in (False, True):
        c = {"name": b"p", "about": b"A:p", "groups": [], "aliases": [],
             "settings": ["subcommand_required"] if req else [],
             "args": [{"id": b"v", "short": "v", "action": "settrue", "flags": set()},
                      pos(b"srcs", num=(1, None), flags={"required"}), pos(b"dest", flags={"required"})],
             "subs": [sub(b"push"), sub(b"pull")]}
        lines = [[b"a", b"out", b"push"], [b"a", b"b", b"out", b"pull"], [b"-v", b"a", b"out", b"push", b"--force"],
                 [b"a", b"b", b"c", b"out", b"pull"]]
        if not req:
            lines += [[b"a", b"out"], [b"a", b"b", b"out"]]
        for ln in lines:
            out.append(annotate(case_of(c, [b"prog"] + ln), ["ok"], "none"))
    # an exclusive flag, or a flag that conflicts with them, WAIVES required positionals -- all of them, also when there
    # are two or more (seeded change seed2/C10-1: the 'preceding positionals' display loop re-added waived ones)
    for how in ("exclusive", "conflicts"):
        lst = {"id": b"list", "long": b"list", "action": "settrue", "flags": {"exclusive"} if how == "exclusive" else set()}
        if how == "conflicts":
            lst["conflicts"] = [b"src", b"dst", b"extra"]
        c = {"name": b"p", "about": b"A:p", "groups": [], "aliases": [], "settings": [], "subs": [],
             "args": [lst, {"id": b"v", "short": "v", "action": "count", "flags": set()},
                      pos(b"src", flags={"required"}), pos(b"dst", flags={"required"}), pos(b"extra", flags={"required"})]}
        lines = [[b"--list"], [b"a", b"b", b"c"], [b"-v", b"a", b"b", b"c"]]
        if how == "conflicts":
            lines.append([b"--list", b"-v"])
        for ln in lines:
            out.append(annotate(case_of(c, [b"prog"] + ln), ["ok"], "none"))
    # a long alias of an argument that has only a short name is a key like any other (seeded change seed2/C10-3)
    c = {"name": b"p", "about": b"A:p", "groups": [], "aliases": [], "settings": [], "subs": [],
         "args": [{"id": b"o", "short": "o", "aliases": [(b"output", True), (b"out", False)], "action": "set", "flags": set()},
                  {"id": b"q", "short": "q", "aliases": [(b"quiet", False)], "action": "settrue", "flags": set()}]}
    for ln in ([b"--output", b"a.out"], [b"--output=a.out"], [b"--out", b"x", b"--quiet"], [b"-q", b"-o", b"x"], [b"--quiet"]):
        out.append(annotate(case_of(c, [b"prog"] + ln), ["ok"], "none"))
    # a GLOBAL setting of the root (args_override_self, infer_long_args, infer_subcommands) relaxes the rules at every depth
    # of the tree, not only in the root's direct subcommands (seeded change seed3/C10-3 stopped the propagation there)
    def url():
        return {"id": b"url", "long": b"url", "action": "set", "flags": set()}

    def lvl(n, subs):
        return {"name": n, "about": b"A:" + n, "args": [url()], "groups": [], "subs": subs, "settings": [], "aliases": []}
    for setting, lines in (("args_override_self", ([b"--url", b"a", b"--url", b"b"],
                                                   [b"remote", b"--url", b"a", b"--url", b"b"],
                                                   [b"remote", b"add", b"--url", b"a", b"--url", b"b"],
                                                   [b"remote", b"add", b"origin", b"--url=a", b"--url=b", b"--url", b"c"])),
                           ("infer_long_args", ([b"--ur", b"a"], [b"remote", b"--ur", b"a"], [b"remote", b"add", b"--ur", b"a"],
                                                [b"remote", b"add", b"origin", b"--u=a"])),
                           ("infer_subcommands", ([b"rem"], [b"rem", b"ad"], [b"remote", b"ad", b"--url", b"a"],
                                                  [b"r", b"a", b"origin"], [b"remote", b"add", b"ori"]))):
        c = lvl(b"p", [lvl(b"remote", [lvl(b"add", [lvl(b"origin", [])])])])
        c["settings"] = [setting]
        for ln in lines:
            out.append(annotate(case_of(c, [b"prog"] + list(ln)), ["ok"], "none"))
    # a token that looks like a short cluster is a VALUE of a hyphen-accepting positional as soon as ANY of its characters is
    # no defined short -- not only the first one (`grep -vx`, `-hello` with the generated -h; seeded change seed4/C10-1)
    c = {"name": b"p", "about": b"A:p", "groups": [], "aliases": [], "settings": [], "subs": [],
         "args": [{"id": b"v", "short": "v", "action": "settrue", "flags": set()},
                  {"id": b"n", "short": "n", "action": "count", "flags": set()},
                  pos(b"pattern", flags={"hyphen"}), pos(b"file")]}
    for ln in ([b"-vx"], [b"-hello"], [b"-xv"], [b"-x"], [b"-v"], [b"-vn", b"pat"], [b"-v", b"-nx", b"f"], [b"-nnq"], [b"-vnx", b"f"],
               [b"--weird"], [b"-n", b"-vx", b"file"]):
        out.append(annotate(case_of(c, [b"prog"] + ln), ["ok"], "none"))
    c = {"name": b"p", "about": b"A:p", "groups": [], "aliases": [], "settings": ["allow_missing_positional"],
         "args": [pos(b"profile"), pos(b"target", flags={"required"})], "subs": [sub(b"run")]}
    for ln in ([b"web", b"run"], [b"web"], [b"prod", b"web", b"run"], [b"prod", b"web"], [b"web", b"run", b"--force"]):
        out.append(annotate(case_of(c, [b"prog"] + ln), ["ok"], "none"))
    return out


# ------------------------------------------------ conditional rules behind a `requires` chain (round-2 finding, repaired)
CH_IDS = [b"a", b"b", b"c", b"d", b"e"]
CH_VALS = [b"v", b"w", b"z"]


def finding_chain_cmd():
    """the command of the finding: a.requires(b), b.requires_if("v", y)"""
    return {"name": b"p", "groups": [], "subs": [], "settings": [], "aliases": [],
            "args": [{"id": b"a", "long": b"aa", "flags": set(), "requires": [b"b"]},
                     {"id": b"b", "long": b"bb", "flags": set(), "requires_if": [(b"v", b"y")]},
                     {"id": b"y", "long": b"yy", "flags": set()}]}


def chain_broken(c, occ):
    """Written from the documentation of Arg::requires / Arg::requires_if ("if THIS arg has the value, the other is
    required"), no conflicts / exclusive / groups in these commands so no exemption applies.
    occ: id -> list of values of the explicitly present options.  -> list of (owner, rule, missing id)"""
    out = []
    for a in c["args"]:
        if a["id"] not in occ:
            continue
        for t in a.get("requires", []):
            if t not in occ:
                out.append((a["id"], "requires", t))
        for v, t in a.get("requires_if", []):
            if v in occ[a["id"]] and t not in occ:
                out.append((a["id"], "requires_if", t))
    return out


def chain_case(c, line):
    """line: [(id, value)] in command-line order -> annotated case"""
    byid = {a["id"]: a for a in c["args"]}
    occ = {}
    argv = [b"prog"]
    for i, v in line:
        occ.setdefault(i, []).append(v)
        argv += [b"--" + byid[i]["long"], v]
    broken = chain_broken(c, occ)
    text = case_of(c, argv)
    if broken:
        return annotate(text, ["MissingRequiredArgument"], "missing_required_chain"), False
    return annotate(text, ["ok"], "none"), True


def directed_chain():
    """the three lines of the finding: `--aa v --bb w` and `--aa z --bb w` break no rule, `--aa z --bb v` misses y"""
    c = finding_chain_cmd()
    ok, bad = [], []
    for va, vb in ((b"v", b"w"), (b"z", b"w"), (b"z", b"v")):
        case, good = chain_case(c, [(b"a", va), (b"b", vb)])
        (ok if good else bad).append(case)
    return ok, bad


def gen_chain(rng, n):
    """Commands of 3-5 one-value options with a `requires` chain of 2-3 arguments and `requires_if` rules on the
    arguments BEHIND the root of the chain (sometimes on the root and on unrelated options too; targets anywhere,
    cycles included); lines = random subsets (mostly closed under the unconditional rules) with values drawn from
    {v, w, z} so that the conditional rule's value sits on the root, on the carrier, on both or on neither.
    -> (fault-free cases, faulty cases, Counter)"""
    ok, bad, dist = [], [], collections.Counter()
    guard = 0
    while len(ok) + len(bad) < n and guard < 10 * n + 100:
        guard += 1
        k = rng.randrange(3, 6)
        args = []
        for i in range(k):
            a = {"id": CH_IDS[i], "long": CH_IDS[i] * 2, "flags": set()}
            if chance(rng, 0.2):
                a["action"] = "append"
            args.append(a)
        c = {"name": b"p", "groups": [], "subs": [], "settings": [], "aliases": [], "args": args}
        order = list(range(k))
        rng.shuffle(order)
        chain_ix = order[:pick(rng, [2, 2, 3])]
        for x, y in zip(chain_ix, chain_ix[1:]):
            args[x]["requires"] = [args[y]["id"]]

        def cond(a, m):
            rules = []
            for _ in range(m):
                t = pick(rng, [b["id"] for b in args if b["id"] != a["id"]])
                rules.append((pick(rng, [b"v", b"v", b"w"]), t))
            a["requires_if"] = rules
        for x in chain_ix[1:]:
            if chance(rng, 0.9):
                cond(args[x], pick(rng, [1, 1, 2]))
        if chance(rng, 0.3):
            cond(args[chain_ix[0]], 1)
        for x in order[len(chain_ix):]:
            if chance(rng, 0.25):
                cond(args[x], 1)
            elif chance(rng, 0.15):
                args[x]["requires"] = [pick(rng, [b["id"] for b in args if b["id"] != args[x]["id"]])]
        behind = sum(len(args[x].get("requires_if", [])) for x in chain_ix[1:])
        if behind == 0:
            continue
        dist["cmd_chain_len_%d" % len(chain_ix)] += 1
        for _ in range(8):
            present = {a["id"] for a in args if chance(rng, 0.45)}
            if chance(rng, 0.8):
                present.add(args[chain_ix[0]]["id"])
            if chance(rng, 0.75):
                for _ in range(4):
                    for a in args:
                        if a["id"] in present:
                            present |= set(a.get("requires", []))
            if not present:
                continue
            line = []
            for a in args:
                if a["id"] in present:
                    reps = pick(rng, [1, 1, 2]) if a.get("action") == "append" else 1
                    line += [(a["id"], pick(rng, CH_VALS)) for _ in range(reps)]
            rng.shuffle(line)
            case, good = chain_case(c, line)
            (ok if good else bad).append(case)
            occ = {}
            for i, v in line:
                occ.setdefault(i, []).append(v)
            # where does a conditional rule's value sit: on the root of a chain that reaches the carrier, on the carrier
            root = args[chain_ix[0]]["id"]
            for x in chain_ix[1:]:
                for v, t in args[x].get("requires_if", []):
                    if root in occ and args[x]["id"] in occ:
                        on_root, on_car = v in occ[root], v in occ[args[x]["id"]]
                        dist["value_on_%s" % ("both" if on_root and on_car else "root_only" if on_root else
                                              "carrier_only" if on_car else "neither")] += 1
                        if on_root and not on_car and t not in occ:
                            dist["root_only_target_absent" + ("_faultfree" if good else "_other_fault")] += 1
            dist["faultfree" if good else "missing_required_chain"] += 1
    return ok, bad, dist


def result_dist(store):
    def add(impl):
        p = parse_result(impl)
        store[p["ekind"] if p["kind"] == "err" else p["kind"]] += 1
    return add


def structured_oracle(outcomes):
    def oracle(case, impl):
        p = parse_result(impl)
        outcomes[(p["ekind"] if p["kind"] == "err" else p["kind"])] += 1
        if p["kind"] in ("panic", "abort", "invalid", "other", "outoffuel"):
            return None        # totality belongs to C01
        if p["kind"] == "err":
            v = contract_violation(p["ekind"], p["stream"], p["code"])
            if v:
                return v
        ann = annotation(case)
        if ann is None:
            return None
        if ann["kinds"] == ["ok"]:
            if p["kind"] == "err":
                return "a line that breaks no rule was rejected with %s" % p["ekind"]
            return None
        if p["kind"] == "err" and p["ekind"] not in ann["kinds"]:
            return "fault '%s': the reported kind %s does not name the broken rule (admissible: %s)" % (
                ann["fault"], p["ekind"], "/".join(ann["kinds"]))
        if p["kind"] == "ok" and ann["fault"].startswith(("request_", "help_subcommand")):
            return "a help/version request was not answered (%s)" % ann["fault"]
        return None
    return oracle


def structured_nontrivial(case, impl):
    ann = annotation(case)
    if ann is None or impl is None:
        return False
    if ann["kinds"] == ["ok"]:
        return impl.startswith("ok") and case.count(" x", case.rindex("(argv")) >= 3
    return impl.startswith("err")


def project(r):
    """what C10 talks about: accepted or not; kind class, stream, exit code"""
    p = parse_result(r)
    if p["kind"] == "err":
        k = p["ekind"]
        if k in ("UnknownArgument", "InvalidSubcommand", "UnknownArgument|InvalidSubcommand"):
            k = "unknown-token"
        return "err %s %s %s" % (k, p["stream"], p["code"])
    if p["kind"] == "ok":
        return "ok"
    if p["kind"] == "panic":
        return "panic"
    return p["kind"]


# =============================================================================== random stream
def random_oracle(outcomes):
    def oracle(case, impl):
        p = parse_result(impl)
        outcomes[(p["ekind"] if p["kind"] == "err" else p["kind"])] += 1
        if p["kind"] == "err":
            return contract_violation(p["ekind"], p["stream"], p["code"])
        return None
    return oracle


# =============================================================================== jaro (strsim 0.11 generic_jaro)
def jaro_parts(a, b):
    a, b = list(a), list(b)
    la, lb = len(a), len(b)
    if la == 0 and lb == 0:
        return None, Fraction(1)
    if la == 0 or lb == 0:
        return None, Fraction(0)
    sr = max(la, lb) // 2
    sr = max(sr - 1, 0)
    af, bf = [False] * la, [False] * lb
    m = 0
    for i in range(la):
        lo = i - sr if i > sr else 0
        hi = min(lb, i + sr + 1)
        for j in range(hi):
            if lo <= j and a[i] == b[j] and not bf[j]:
                af[i] = bf[j] = True
                m += 1
                break
    t = 0
    if m:
        bi = 0
        for i in range(la):
            if af[i]:
                while not bf[bi]:
                    bi += 1
                if a[i] != b[bi]:
                    t += 1
                bi += 1
    t //= 2
    if m == 0:
        return (0, la, lb, 0), Fraction(0)
    return (m, la, lb, t), (Fraction(m, la) + Fraction(m, lb) + Fraction(m - t, m)) / 3


def jaro(a, b):
    return jaro_parts(a.decode("utf-8"), b.decode("utf-8"))[1]


EPS = Fraction(1, 10**9)
THR = Fraction(7, 10)


def scores_safe(tok, names):
    """False when the exact and the f64 computation could order things differently"""
    seen = {}
    for n in names:
        parts, s = jaro_parts(tok.decode(), n.decode())
        if abs(s - THR) < EPS:
            return False
        if s < THR:
            continue               # never inserted: its order does not matter
        for p2, s2 in seen.values():
            if s != s2 and abs(s - s2) < EPS:
                return False
            if s == s2 and p2 != parts:
                return False       # equal rationals reached through different divisions may round differently
        seen[n] = (parts, s)
    return True


def sims_sx(tok, names):
    items = []
    for n in sorted(set(names)):
        s = jaro(tok, n)
        items.append("(%s %d %d)" % (hexs(n), s.numerator, s.denominator))
    return "(sims %s)" % " ".join(items)


WORDS = [b"test", b"temp", b"tent", b"text", b"possible", b"values", b"alignmentStart", b"alignmentScore", b"build",
         b"built", b"bulid", b"run", b"runs", b"ran", b"add", b"ad", b"dda", b"list", b"lint", b"last", b"clean",
         b"clear", b"color", b"colour", b"colr", b"a", b"ab", b"ba", b"abc", b"status", b"stats", b"start", b"stat"]


def gen_dym(rng, n, dropped):
    out = []
    while len(out) < n:
        k = rng.randrange(1, 7)
        cands = []
        for _ in range(k):
            w = pick(rng, WORDS)
            if chance(rng, 0.3):
                w = typo(rng, w)
            if w not in cands and w and not w.startswith(b"-"):
                cands.append(w)
        tok = typo(rng, pick(rng, cands)) if chance(rng, 0.8) else pick(rng, WORDS)
        if chance(rng, 0.2):
            tok = typo(rng, tok)
        if tok in cands or not tok or tok.startswith(b"-") or tok == b"help":
            continue
        if not scores_safe(tok, cands):
            dropped["near-threshold-or-tie"] += 1
            continue
        out.append("(c10-dym %s (cands %s) %s)" % (hexs(tok), " ".join(hexs(c) for c in cands), sims_sx(tok, cands)))
    return out


def dym_oracle(stats):
    def oracle(case, impl):
        v = sx_parse(case)
        tok = unhex(v[1])
        cands = [unhex(x) for x in v[2][1:]]
        if impl is None or not impl.startswith("("):
            stats["not-observable"] += 1
            return None
        got = [unhex(x) for x in sx_parse(impl)]
        stats["suggestions=%d" % min(len(got), 4)] += 1
        for g in got:
            if g not in cands:
                return "suggested subcommand %r is not one of the defined names %r" % (g, cands)
        # doc comment of did_you_mean: all values above the threshold, sorted by ascending similarity
        sc = [jaro(tok, g) for g in got]
        if any(s <= THR for s in sc):
            return "a suggestion does not exceed the similarity threshold"
        if any(sc[i] > sc[i + 1] for i in range(len(sc) - 1)):
            return "suggestions are not sorted by ascending similarity"
        return None
    return oracle


# =============================================================================== flag suggestions
def simple_tree(rng):
    """root with long options, 0-3 subcommands with long options; help/version flags disabled so that the
    long keys are exactly the declared ones (the model adds the same auto arguments anyway)"""
    used = set()

    def level(name, depth):
        c = {"name": name, "about": b"A", "args": [], "groups": [], "subs": [], "settings": [], "aliases": []}
        if chance(rng, 0.5):
            c["settings"].append("disable_help_flag")
        longs = set()
        for k in range(rng.randrange(0, 5)):
            w = pick(rng, WORDS + [x.encode() for x in C_LONGS])
            if chance(rng, 0.2):
                w = typo(rng, w)
            if w in longs or w in (b"help", b"version") or not w or w.startswith(b"-") or b"=" in w:
                continue
            longs.add(w)
            a = {"id": ("o%d" % k).encode(), "flags": set(), "long": w, "action": pick(rng, ["settrue", "set"])}
            if chance(rng, 0.3):
                al = pick(rng, WORDS)
                if al not in longs and al not in (b"help", b"version"):
                    longs.add(al)
                    a["aliases"] = [(al, chance(rng, 0.5))]
            if chance(rng, 0.1):
                a["flags"].add("hide")
            c["args"].append(a)
        if depth == 0:
            for nm in rng.sample(C_SUBS, rng.randrange(0, 4)):
                c["subs"].append(level(nm.encode(), 1))
        return c
    return level(b"p", 0)


def all_longs(c):
    out = set(level_longs(c)) | {b"version"}
    for s in c["subs"]:
        out |= all_longs(s)
    return out


def gen_flag(rng, n, dropped):
    out = []
    while len(out) < n:
        root = simple_tree(rng)
        pool = sorted(all_longs(root))
        for _ in range(3):
            base = pick(rng, pool)
            arg = typo(rng, base)
            if chance(rng, 0.2):
                arg = typo(rng, arg)
            if not arg or arg in level_longs(root) or b"=" in arg or arg.startswith(b"-"):
                continue
            rem = []
            for s in root["subs"]:
                if chance(rng, 0.6):
                    rem.append(s["name"])
            if chance(rng, 0.3):
                rem.append(pick(rng, [b"v", b"--alpha", b"zz"]))
            rng.shuffle(rem)
            if not scores_safe(arg, pool):
                dropped["near-threshold-or-tie"] += 1
                continue
            out.append("(c10-flag %s (arg %s) (rem%s) %s)" % (
                gen_cmd.cmd_sx(root), hexs(arg), "".join(" " + hexs(r) for r in rem), sims_sx(arg, pool)))
    return out[:n]


def flag_oracle(stats):
    def oracle(case, impl):
        v = sx_parse(case)
        from ..parse_streams import cmd_of_sx
        root = cmd_of_sx(v[1][1:])
        rem = [unhex(x) for x in v[3][1:]]
        if impl is None or not impl.startswith("(flag"):
            stats[(impl or "abort").split(" ")[0]] += 1
            return None
        r = sx_parse(impl)
        f = unhex(r[1])
        if r[2] == "none":
            stats["flag-of-this-command"] += 1
            if f not in level_longs(root):
                return "suggested flag --%s is not a long or alias of the command" % f.decode()
            return None
        stats["flag-of-subcommand"] += 1
        sub = unhex(r[2])
        ss = [s for s in root["subs"] if s["name"] == sub]
        if not ss:
            return "the suggestion names the subcommand %r, which is not defined" % sub
        if f not in level_longs(ss[0]):
            return "suggested flag --%s is not a long or alias of subcommand %s" % (f.decode(), sub.decode())
        if sub not in rem:
            return "the suggestion names subcommand %s, which does not occur in the remaining arguments" % sub.decode()
        return None
    return oracle


# =============================================================================== suggestions in full parses
def pv_item(a):
    items = []
    for n, hid in a["pv"]:
        if not hid and n in a.get("pv_alias", {}):
            items.append("(alias %s %s)" % (hexs(n), hexs(a["pv_alias"][n])))
        else:
            items.append("(hidden %s)" % hexs(n) if hid else hexs(n))
    return "(x-pv %s)" % " ".join(items)


def cmd_sx_with_pv(c):
    """cmd_sx, with an `(x-pv ...)` extension item in the args that have possible values (carried through
    gen_cmd.arg_sx in the `help` slot, which this generator does not use otherwise)"""
    marks = {}

    def mark(cc):
        for a in cc["args"]:
            if a.get("pv"):
                m = ("PVMARK%d" % len(marks)).encode()
                marks[m] = pv_item(a)
                a["help"] = m
        for s_ in cc["subs"]:
            mark(s_)

    def unmark(cc):
        for a in cc["args"]:
            if a.get("pv"):
                a.pop("help", None)
        for s_ in cc["subs"]:
            unmark(s_)
    mark(c)
    s = gen_cmd.cmd_sx(c)
    unmark(c)
    for m, item in marks.items():
        s = s.replace("(help %s)" % hexs(m), item)
    return s


def gen_sugg(rng, n, dist):
    out = []
    guard = 0
    while len(out) < n and guard < 60 * n:
        guard += 1
        root = gen_level(rng, "p", 0, with_pv=True)
        levels = gen_invocation(rng, root, force_closed=chance(rng, 0.5))
        if levels is None:
            continue
        li = rng.randrange(len(levels))
        c, seq = levels[li]
        kind = pick(rng, ["long", "long", "sublong", "subname", "subname", "pv", "pv", "pv_case", "dashdash", "missing_sub"])
        newlevels = None
        if kind == "long":
            base = pick(rng, sorted(level_longs(c)))
            w = typo(rng, base)
            if w in level_longs(c) or not w or b"=" in w or w.startswith(b"-"):
                continue
            i = pick(rng, boundaries(seq))
            newlevels = with_level(levels, li, seq[:i] + [raw_item([b"--" + w])] + seq[i:])
        elif kind == "sublong":
            subs = [s for s in c["subs"] if any(a.get("long") or a.get("aliases") for a in s["args"])]
            if not subs:
                continue
            s = pick(rng, subs)
            pos_aliases = sorted(n_ for a_ in s["args"] if not is_opt(a_) for n_, _ in a_.get("aliases", []))
            base = pick(rng, pos_aliases) if pos_aliases and chance(rng, 0.5) else pick(rng, sorted(level_longs(s) - {b"help"}) or [b"help"])
            w = typo(rng, base)
            if w in level_longs(c) or not w or b"=" in w or w.startswith(b"-"):
                continue
            i = pick(rng, boundaries(seq))
            newlevels = with_level(levels, li, seq[:i] + [raw_item([b"--" + w])] + seq[i:])
            if not (seq and seq[-1]["kind"] == "sub" and seq[-1]["sub"] is s):
                # make the subcommand appear among the remaining arguments
                newlevels = with_level(levels[:li + 1], li, newlevels[li][1][:len(newlevels[li][1]) - (1 if seq and seq[-1]["kind"] == "sub" else 0)]
                                       + [{"kind": "sub", "sub": s, "toks": [s["name"]], "open": False}])
        elif kind == "subname":
            if not c["subs"] or (seq and seq[-1]["kind"] == "sub" and chance(rng, 0.5)):
                continue
            w = typo(rng, pick(rng, sorted(level_subnames(c))))
            if w in level_subnames(c) or not w or w.startswith(b"-"):
                continue
            base = seq[:-1] if (seq and seq[-1]["kind"] == "sub") else seq
            if base and base[-1]["open"]:
                continue
            newlevels = with_level(levels[:li + 1], li, base + [{"kind": "pos", "arg": None, "toks": [w], "open": False}])
        elif kind == "pv":
            its = [it for it in seq if it.get("arg") and it["arg"].get("pv") and it["k"] >= 1 and not it["attached"]]
            if not its:
                continue
            it = pick(rng, its)
            w = typo(rng, pick(rng, [n_ for n_, _ in it["arg"]["pv"]]))
            lang = [n_ for n_, _ in it["arg"]["pv"]] + list(it["arg"].get("pv_alias", {}).values())
            if w.lower() in [x.lower() for x in lang] or not w or w.startswith(b"-"):
                continue
            new = dict(it)
            new["toks"] = [it["toks"][0], w] + it["toks"][2:]
            i = seq.index(it)
            newlevels = with_level(levels, li, seq[:i] + [new] + seq[i + 1:])
        elif kind == "pv_case":
            # NOT a fault: under ignore_case a name or an alias of a possible value in another letter case is a value
            its = [it for it in seq if it.get("arg") and it["arg"].get("pv") and "icase" in it["arg"]["flags"]
                   and it["k"] >= 1 and not it["attached"]]
            if not its:
                continue
            it = pick(rng, its)
            lang = [n_ for n_, _ in it["arg"]["pv"]] + list(it["arg"].get("pv_alias", {}).values())
            w = pick(rng, lang)
            w = pick(rng, [w.upper(), w.capitalize(), w[:-1] + w[-1:].upper()])
            new = dict(it)
            new["toks"] = [it["toks"][0], w] + it["toks"][2:]
            i = seq.index(it)
            newlevels = with_level(levels, li, seq[:i] + [new] + seq[i + 1:])
            dist[kind] += 1
            text = "(c10-sugg %s (argv%s))" % (cmd_sx_with_pv(root), "".join(" " + hexs(t) for t in argv_of(newlevels)))
            out.append(annotate(text, ["ok"], kind, chain(newlevels, li)))
            continue
        elif kind == "dashdash":
            if not c["subs"] or (seq and seq[-1]["kind"] == "sub"):
                continue
            if seq and seq[-1]["open"]:
                continue
            s = pick(rng, c["subs"])
            newlevels = with_level(levels[:li + 1], li, seq + [raw_item([b"--"]), {"kind": "pos", "arg": None, "toks": [s["name"]], "open": False}])
        elif kind == "missing_sub":
            if "subcommand_required" not in c["settings"] or not seq or seq[-1]["kind"] != "sub":
                continue
            newlevels = with_level(levels[:li + 1], li, seq[:-1])
        if newlevels is None:
            continue
        dist[kind] += 1
        text = "(c10-sugg %s (argv%s))" % (cmd_sx_with_pv(root), "".join(" " + hexs(t) for t in argv_of(newlevels)))
        out.append(annotate(text, ["any"], kind, chain(newlevels, li)))
    return out


HINT_SUB_FLAG = re.compile(r"^'(\S+) --(\S+)' exists$")
HINT_DASHDASH = re.compile(r"^subcommand '(\S+)' exists; to use it, remove the '--' before it$")


def pv_names_of_level(case_level_sx):
    out = set()
    for it in case_level_sx:
        if isinstance(it, list) and it and it[0] == "arg":
            for x in it[1:]:
                if isinstance(x, list) and x and x[0] == "x-pv":
                    for v in x[1:]:
                        out.add(unhex(v[1]) if isinstance(v, list) else unhex(v))
    return out


def sugg_oracle(stats):
    from ..parse_streams import cmd_of_sx

    def oracle(case, impl):
        ann0 = annotation(case)
        if ann0 is not None and ann0["kinds"] == ["ok"] and impl is not None and impl.startswith("err "):
            return "a line that breaks no rule was rejected (%s): %s" % (ann0["fault"], impl.split(" (")[0])
        if impl is None or not impl.startswith("err "):
            stats[(impl or "abort").split(" ")[0]] += 1
            return None
        head = impl.split(" (")[0].split(" ")
        v = contract_violation(head[1], head[2], head[3])
        if v:
            return v
        stats["err " + head[1]] += 1
        ann = annotation(case)
        sx = sx_parse(case)
        root = cmd_of_sx(sx[1][1:])
        argv = [unhex(t) for t in sx[2][1:]]
        # the level the error was raised at: read from the usage line the error carries ("Usage: prog sub ..."),
        # else by annotation, else any level of the tree
        lv_sx = sx[1][1:]
        levels = None
        path = None
        mu = re.search(r"\(usage (x[0-9a-f]*)\)", impl)
        if mu:
            words = unhex(mu.group(1)).decode("utf-8", "replace").split("\n")[0].split()
            if len(words) >= 2 and words[0] == "Usage:":
                # "Usage: prog [--req <V>] sub ...": the plain words after the program name are the chain of
                # subcommand names (options, <values> and [placeholders] never are plain words)
                path = [w.encode() for w in words[2:] if w[:1] not in "-<[" and w != "..."]
        if path is None and ann is not None:
            path = ann["at"]
        if path is not None:
            cur, cur_sx = root, lv_sx
            ok = True
            for nm in path:
                nxt = [(s, ssx) for s, ssx in zip(cur["subs"], [it[1][1:] for it in cur_sx if isinstance(it, list) and it and it[0] == "sub"])
                       if s["name"] == nm]
                if not nxt:
                    ok = False
                    break
                cur, cur_sx = nxt[0]
            if ok:
                levels = [(cur, cur_sx)]
        if levels is None:
            levels = []

            def walk(c, csx):
                levels.append((c, csx))
                for s, ssx in zip(c["subs"], [it[1][1:] for it in csx if isinstance(it, list) and it and it[0] == "sub"]):
                    walk(s, ssx)
            walk(root, lv_sx)
        ctx = {}
        for m in re.finditer(r"\((sarg|ssub|sval|scmd|hint|vsub|vval)([^()]*)\)", impl):
            ctx.setdefault(m.group(1), []).extend(unhex(x) for x in m.group(2).split())

        def some_level(pred):
            return any(pred(c, csx) for c, csx in levels)
        for s in ctx.get("sarg", []):
            stats["suggested-arg"] += 1
            f = s[2:] if s.startswith(b"--") else s
            if not some_level(lambda c, _: f in level_longs(c)):
                return "SuggestedArg %r is not a long or alias defined at the level of the error" % s
        for s in ctx.get("ssub", []) + ctx.get("scmd", []) + ctx.get("vsub", []):
            stats["suggested-subcommand"] += 1
            if not some_level(lambda c, _: s in level_subnames(c)):
                return "suggested/valid subcommand %r is not a defined name or alias at the level of the error" % s
        for s in ctx.get("sval", []) + ctx.get("vval", []):
            stats["suggested-value"] += 1
            if not some_level(lambda c, csx: s in pv_names_of_level(csx)):
                return "suggested/valid value %r is not a declared possible value" % s
        for h in ctx.get("hint", []):
            t = h.decode("utf-8", "replace")
            m = HINT_SUB_FLAG.match(t)
            if m:
                stats["hint-sub-flag"] += 1
                sub, fl = m.group(1).encode(), m.group(2).encode()

                def ok(c, _):
                    ss = [s for s in c["subs"] if s["name"] == sub]
                    return bool(ss) and fl in level_longs(ss[0])
                if not some_level(ok):
                    return "hint %r names a subcommand/flag pair that is not defined" % t
                if sub not in argv:
                    return "hint %r names a subcommand that is not on the line" % t
            m = HINT_DASHDASH.match(t)
            if m:
                stats["hint-dashdash"] += 1
                if not some_level(lambda c, _: m.group(1).encode() in level_subnames(c)):
                    return "hint %r names a subcommand that is not defined" % t
        return None
    return oracle


# =============================================================================== streams
def streams(tier, rng):
    big = tier == "thorough"
    n_ff = 90000 if big else 8000
    n_fault = 180000 if big else 16000
    n_hv = 30000 if big else 2500
    n_rand = 100000 if big else 8000
    n_sugg = 80000 if big else 7000
    n_dym = 50000 if big else 4000
    n_flag = 50000 if big else 4000
    out = []
    out.append(Stream("kinds", gen_kinds(rng), oracle=kinds_oracle, area="errors",
                      describe={"variants": source_kind_names()}))
    for name, n in (("faultfree", n_ff), ("fault", n_fault), ("helpver", n_hv)):
        cases, dist = gen_structured(rng, n, name)
        if name == "faultfree":
            cases = directed_faultfree() + cases
            dist["directed"] += len(directed_faultfree())
        outcomes = collections.Counter()
        out.append(Stream(name, cases, oracle=structured_oracle(outcomes), area="parse", project=project,
                          nontrivial=structured_nontrivial,
                          describe={"fault_types": dict(dist.most_common()), "outcomes": outcomes}))
    rc = collections.Counter()
    rand = gen_cases(rng, n_rand * 2 // 3, None, p_mutate=0.6, safe_p=0.5)
    rand += gen_cases(rng, n_rand // 3, gen_cmd.CONVENTIONAL, p_mutate=0.8, safe_p=0.5)
    out.append(Stream("random", rand, oracle=random_oracle(rc), area="parse", project=project,
                      nontrivial=lambda c, r: bool(r) and r.startswith("err "), describe={"outcomes": rc}))
    sd, so = collections.Counter(), collections.Counter()
    out.append(Stream("sugg", gen_sugg(rng, n_sugg, sd), oracle=sugg_oracle(so), area=None,
                      nontrivial=lambda c, r: bool(r) and ("(sarg" in r or "(ssub x" in r or "(sval" in r or "(hint x" in r),
                      describe={"typo_kinds": sd, "observed": so}))
    dd, do = collections.Counter(), collections.Counter()
    out.append(Stream("dym", gen_dym(rng, n_dym, dd), oracle=dym_oracle(do), area="errors",
                      nontrivial=lambda c, r: bool(r) and r.startswith("(x"), describe={"dropped": dd, "observed": do}))
    fd, fo = collections.Counter(), collections.Counter()
    out.append(Stream("flag", gen_flag(rng, n_flag, fd), oracle=flag_oracle(fo), area="errors",
                      nontrivial=lambda c, r: bool(r) and r.startswith("(flag"), describe={"dropped": fd, "observed": fo}))
    # conditional rules behind a `requires` chain (generated last so that the streams above keep their cases)
    ch_ok, ch_bad, ch_dist = gen_chain(rng, 30000 if big else 3000)
    d_ok, d_bad = directed_chain()
    for st in out:
        if st.name in ("faultfree", "fault"):
            extra = (d_ok + ch_ok) if st.name == "faultfree" else (d_bad + ch_bad)
            st.cases = list(st.cases) + extra
            st.describe["fault_types"]["requires_if_chain"] = len(extra)
            st.describe["requires_if_chain"] = dict(ch_dist.most_common())
    return out


def classify_known(stream, case, impl, failure):
    return None
